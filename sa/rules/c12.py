"""C12 — whatever was stored stays listable and readable as names and code evolve (structural).

Decides: field/terminator analysis of the qualified-name pattern on its regex AST (R1); builder /
parser delimiter agreement (R2); exception escape on the metadata read path including the external
fallback (R3).  The pattern is analysed, never matched.
"""
import ast
import re._parser as sre_parse
import re._constants as sre_c

from .. import astutil as A
from ..fa import FA
from ..loader import AnalysisError
from .fresh import flow_nodes, attr_writes, at_of, reaches_avoiding, alternatives, flag_conditions, class_units as _listing_units

FR = "reference.FunctionReference"

FIRST_CUTS = ("find", "index", "partition", "split")
LAST_CUTS = ("rfind", "rindex", "rpartition", "rsplit")


def _cut_calls(nodes, sep):
    """(first, last): the calls among `nodes` that look for the FIRST / the LAST occurrence of `sep` in a string."""
    first, last = [], []
    for n in nodes:
        if isinstance(n, ast.Call) and isinstance(n.func, ast.Attribute) and n.args and A.const_str(n.args[0]) == sep:
            if n.func.attr in FIRST_CUTS:
                first.append(n)
            elif n.func.attr in LAST_CUTS:
                last.append(n)
    return first, last


def _glue_literals(fa, max_len=2):
    """Short literal pieces of the strings the function builds, whatever the spelling ('+', +=, format, f-string)."""
    out = set()
    for n in A.walk_body(fa.node):
        if isinstance(n, (ast.BinOp, ast.JoinedStr, ast.Call)):
            p = A.str_parts(n)
            if p:
                out |= {v for k, v in p if k == "lit" and 0 < len(v) <= max_len}
        elif isinstance(n, ast.AugAssign) and isinstance(n.op, ast.Add):
            p = A.str_parts(n.value)
            if p:
                out |= {v for k, v in p if k == "lit" and 0 < len(v) <= max_len}
    return out


def _flat_parts(e):
    """A.str_parts with every '+' chain flattened, also when an operand is not itself a recognisable string
    expression (a conditional prefix, a name): such operands stay ('expr', node) parts."""
    if isinstance(e, ast.BinOp) and isinstance(e.op, ast.Add):
        return A._merge(_flat_parts(e.left) + _flat_parts(e.right))
    p = A.str_parts(e)
    return p if p is not None else [("expr", e)]


def _prefix_before_first(fa, call, sep):
    """Is the cut call used to take what PRECEDES the first `sep`:  s[:s.find(sep)] — directly or through a local
    (`cut = s.find(sep)` ... `s[:cut]`, the local otherwise only compared) —,  s.partition(sep)[0],
    s.split(sep[, n])[0],  head, _, _ = s.partition(sep) ?"""
    p = fa.pm.get(call)
    nm = call.func.attr

    def upper_bound_of_prefix(node, par):
        return isinstance(par, ast.Slice) and par.upper is node and (par.lower is None or (isinstance(par.lower, ast.Constant) and par.lower.value == 0)) and par.step is None

    if nm in ("find", "index"):
        if upper_bound_of_prefix(call, p):
            return True
        if isinstance(p, ast.Assign) and p.value is call and len(p.targets) == 1 and isinstance(p.targets[0], ast.Name):
            var = p.targets[0].id
            stores = [n for n in A.walk_body(fa.node) if isinstance(n, ast.Name) and n.id == var and isinstance(n.ctx, ast.Store)]
            if len(stores) != 1:
                return False
            cuts = 0
            for n in A.walk_body(fa.node):
                if isinstance(n, ast.Name) and n.id == var and isinstance(n.ctx, ast.Load):
                    par = fa.pm.get(n)
                    if upper_bound_of_prefix(n, par):
                        cuts += 1
                    elif not isinstance(par, ast.Compare):
                        return False  # used for something else than the prefix cut and tests of its presence
            return cuts > 0
        return False
    if nm in ("partition", "split"):
        if isinstance(p, ast.Subscript) and p.value is call and isinstance(p.slice, ast.Constant) and p.slice.value == 0:
            return True
        if isinstance(p, ast.Assign) and p.value is call and len(p.targets) == 1 and isinstance(p.targets[0], (ast.Tuple, ast.List)) and p.targets[0].elts \
                and isinstance(p.targets[0].elts[0], ast.Name):
            # the first unpacked part is the one that is used afterwards; the others are not
            head = p.targets[0].elts[0].id
            rest = {e.id for e in p.targets[0].elts[1:] if isinstance(e, ast.Name)}
            used = {n.id for n in A.walk_body(fa.node) if isinstance(n, ast.Name) and isinstance(n.ctx, ast.Load)}
            return head in used and not (rest & used - {head})
        if isinstance(p, ast.Assign) and p.value is call and len(p.targets) == 1 and isinstance(p.targets[0], ast.Name):
            # parts = s.split(sep, 1) ... parts[0] only
            var = p.targets[0].id
            loads = [n for n in A.walk_body(fa.node) if isinstance(n, ast.Name) and n.id == var and isinstance(n.ctx, ast.Load)]
            return bool(loads) and all(isinstance(fa.pm.get(n), ast.Subscript) and fa.pm.get(n).value is n and isinstance(fa.pm.get(n).slice, ast.Constant)
                                       and fa.pm.get(n).slice.value == 0 for n in loads)
    return False


def _helper_units(ck, root, limit=8):
    """A function with the helpers it was split into: its nested functions and the module-level functions of its own
    module it refers to (a nested helper hoisted out, under whatever name), transitively.  -> [FuncInfo]"""
    out, todo = [], [root]
    while todo and len(out) < limit:
        fi = todo.pop(0)
        if any(fi is x for x in out):
            continue
        out.append(fi)
        todo += list(fi.nested.values())
        for n in A.walk_body(fi.node):
            if isinstance(n, ast.Name) and isinstance(n.ctx, ast.Load) and n.id in fi.module.functions:
                tgt = fi.module.functions[n.id]
                if not any(tgt is x for x in out + todo):
                    todo.append(tgt)
    return out


def _group_class(tree, gid):
    """-> (excluded chars or None for 'any', lazy?) of the repeated class inside group gid."""
    found = []

    def walk(seq):
        for (op, av) in seq:
            if op is sre_c.SUBPATTERN:
                g, _, _, sub = av
                if g == gid:
                    found.append(sub)
                walk(sub)
            elif op in (sre_c.MAX_REPEAT, sre_c.MIN_REPEAT):
                walk(av[2])
            elif op is sre_c.BRANCH:
                for b in av[1]:
                    walk(b)

    walk(tree)
    if len(found) != 1:
        raise AnalysisError("qualified-name pattern: group %s not found exactly once" % gid)
    sub = list(found[0])
    if len(sub) != 1 or sub[0][0] not in (sre_c.MAX_REPEAT, sre_c.MIN_REPEAT):
        raise AnalysisError("qualified-name pattern: group %s is not a single repeated character class" % gid)
    lazy = sub[0][0] is sre_c.MIN_REPEAT
    inner = list(sub[0][1][2])
    if len(inner) != 1:
        raise AnalysisError("qualified-name pattern: group %s repeats more than one item" % gid)
    op, av = inner[0]
    if op is sre_c.ANY:
        return set(), lazy, sub[0][1][0]
    if op is sre_c.NOT_LITERAL:
        return {chr(av)}, lazy, sub[0][1][0]
    if op is sre_c.IN and av and av[0][0] is sre_c.NEGATE:
        ex = set()
        for (o2, a2) in av[1:]:
            if o2 is sre_c.LITERAL:
                ex.add(chr(a2))
            else:
                raise AnalysisError("qualified-name pattern: unsupported class item in group %s" % gid)
        return ex, lazy, sub[0][1][0]
    raise AnalysisError("qualified-name pattern: group %s has a positive character class (unsupported idiom)" % gid)


def _top_shape(tree, groups):
    """Check  (cluster '::')? module ':' function ('#' version)?  and return the delimiters."""
    seq = list(tree)
    if len(seq) != 5:
        return None
    def lits(s):
        return "".join(chr(av) for (op, av) in s if op is sre_c.LITERAL)
    try:
        (o1, a1), (o2, a2), (o3, a3), (o4, a4), (o5, a5) = seq
        named = set(groups.values())

        def optional_items(a):
            """The items of an optional part: those of its wrapping group (capturing or not — a non-capturing group
            leaves no node of its own), the wrapper not being one of the four named groups."""
            items = list(a[2])
            if len(items) == 1 and items[0][0] is sre_c.SUBPATTERN and items[0][1][0] not in named:
                items = list(items[0][1][3])
            return items

        if o1 is not sre_c.MAX_REPEAT or a1[0] != 0 or a1[1] != 1:
            return None
        inner = optional_items(a1)
        if inner[0][0] is not sre_c.SUBPATTERN or inner[0][1][0] != groups["cluster"]:
            return None
        if any(op is not sre_c.LITERAL for (op, av) in inner[1:]):
            return None
        d_cluster = lits(inner[1:])
        if o2 is not sre_c.SUBPATTERN or a2[0] != groups["module"]:
            return None
        if o3 is not sre_c.LITERAL:
            return None
        d_module = chr(a3)
        if o4 is not sre_c.SUBPATTERN or a4[0] != groups["function"]:
            return None
        if o5 is not sre_c.MAX_REPEAT or a5[0] != 0 or a5[1] != 1:
            return None
        tail = optional_items(a5)
        d_version = lits(tail[:1])
        if tail[1][0] is not sre_c.SUBPATTERN or tail[1][1][0] != groups["version"] or len(tail) != 2:
            return None
        return d_cluster, d_module, d_version
    except (IndexError, KeyError, TypeError):
        return None


# ---- nullability evaluation for asserts on the external fallback path
NONE, NOTNONE, MAYBE = "None", "NotNone", "Maybe"


def _ev(test, env):
    """-> True / False / None(unknown) for a boolean expression over names with nullability env."""
    if isinstance(test, ast.BoolOp):
        vals = [_ev(v, env) for v in test.values]
        if isinstance(test.op, ast.Or):
            if any(v is True for v in vals):
                return True
            if all(v is False for v in vals):
                return False
            return None
        if any(v is False for v in vals):
            return False
        if all(v is True for v in vals):
            return True
        return None
    if isinstance(test, ast.UnaryOp) and isinstance(test.op, ast.Not):
        v = _ev(test.operand, env)
        return None if v is None else (not v)
    if isinstance(test, ast.Compare) and len(test.ops) == 1 and A.is_none(test.comparators[0]) and isinstance(test.left, ast.Name):
        st = env.get(test.left.id, MAYBE)
        if isinstance(test.ops[0], ast.IsNot):
            return True if st == NOTNONE else False if st == NONE else None
        if isinstance(test.ops[0], ast.Is):
            return True if st == NONE else False if st == NOTNONE else None
    if isinstance(test, ast.Name):
        st = env.get(test.id, MAYBE)
        return False if st == NONE else None  # truthiness of a non-None value is unknown
    if isinstance(test, ast.Constant):
        return bool(test.value)
    return None


def _can_fail(test, env):
    """Can the assert fail for SOME concrete binding allowed by env? Enumerate Maybe names."""
    maybes = sorted({n for n in A.names_in(test) if env.get(n, MAYBE) == MAYBE and n in env})
    import itertools
    for combo in itertools.product([NONE, NOTNONE], repeat=len(maybes)):
        e2 = dict(env)
        e2.update(dict(zip(maybes, combo)))
        v = _ev(test, e2)
        if v is False:
            return True, dict(zip(maybes, combo))
    return False, None


def _check_asserts(ck, R, fi, env, label):
    """Every assert of the function, under the nullability bindings `env` of its parameters: can it be reached and
    fail?  Decided per path class: the branch literals on the way to the assert (nesting, elif chains, guard clauses
    alike) refine what is known about the parameters — `x is None` taken true makes x None on that path, a literal
    that contradicts the bindings makes the path infeasible."""
    fa = FA(ck, fi)
    n = 0
    for st in fa.stmts(ast.Assert):
        if not fa.nodes(st):
            continue
        conds = fa.conditions(st)
        if conds is None:
            conds = {frozenset()}
        verdict = None
        for conj in sorted(conds, key=lambda c: sorted(c)):
            env_c = dict(env)
            feasible = True
            for (text, pol) in sorted(conj):
                try:
                    t = ast.parse(text, mode="eval").body
                except SyntaxError:
                    continue
                if isinstance(t, ast.Compare) and len(t.ops) == 1 and isinstance(t.ops[0], ast.Is) and A.is_none(t.comparators[0]) \
                        and isinstance(t.left, ast.Name) and t.left.id in env_c:
                    want = NONE if pol else NOTNONE
                    have = env_c[t.left.id]
                    if have == MAYBE:
                        env_c[t.left.id] = want
                    elif have != want:
                        feasible = False
                        break
                    continue
                v = _ev(t, env_c)
                if v is not None and v != pol:
                    feasible = False
                    break
            if not feasible:
                continue
            fails, how = _can_fail(st.test, env_c)
            if verdict is None or fails:
                verdict = (fails, how)
            if fails:
                break
        if verdict is None:
            continue  # not reachable under these bindings
        n += 1
        fails, how = verdict
        ck.ob(R, fa.key(st, label), not fails, "assert cannot fail on the metadata read path" if not fails else
              "`%s` fails for a stored name with %s: reading stored metadata raises AssertionError instead of "
              "reporting an external reference" % (A.short(st.test, 70), how), fa.where(st))
    return n


def _regex_parser(ck, R1, pq, ms, anchor=None, flags=0):
    pat = A.const_str(ms[0].args[0])
    tree = sre_parse.parse(pat, flags)
    groups = dict(tree.state.groupdict)
    for g in ("cluster", "module", "function", "version"):
        if g not in groups:
            raise AnalysisError("qualified-name pattern has no group %r" % g)
    shape = _top_shape(tree, groups)
    ck.ob(R1, pq.key(None, "shape"), shape is not None, "pattern has the shape (cluster '::')? module ':' function ('#' version)?" if shape is not None else
          "the pattern no longer has the shape (cluster '::')? module ':' function ('#' version)?", pq.where(ms[0]))
    cl_ex, cl_lazy, _ = _group_class(tree, groups["cluster"])
    mo_ex, _, _ = _group_class(tree, groups["module"])
    fn_ex, _, _ = _group_class(tree, groups["function"])
    ve_ex, _, _ = _group_class(tree, groups["version"])
    conds = [
        ("cluster-excludes-#", "#" in cl_ex, "m:f#x::y", "a version containing '::' is taken for a cluster prefix"),
        ("module-excludes-:", ":" in mo_ex, "m:f#1:2", "a version containing ':' moves the module/function split into the version"),
        ("module-excludes-#", "#" in mo_ex, "m:f#1:2", "the module can swallow 'f#1' when the version contains ':'"),
        ("function-excludes-#", "#" in fn_ex, "m:f#a#b", "the function name can swallow part of the version"),
        ("version-unrestricted", not ve_ex, "m:f#a:b#c", "versions containing the excluded characters can not be parsed back"),
    ]
    for (tag, ok, witness, why) in conds:
        ck.ob(R1, pq.key(None, tag), ok, "%s (witness string %r parses into its parts)" % (tag, witness) if ok else
              "%s violated: for %r %s" % (tag, witness, why), pq.where(ms[0]))
    rets = pq.returns()
    def _is_groups(r):
        """match.groupdict(), or the four named groups spelled out: {'cluster': m.group('cluster'), ...} / m['cluster']."""
        x = pq.xnorm(r.value)
        if x.endswith(").groupdict()") and (".match(" in x or ".fullmatch(" in x):
            return True
        v = pq.expand(r.value)
        if isinstance(v, ast.Dict) and {A.const_str(k) for k in v.keys if k is not None} == {"cluster", "module", "function", "version"} and len(v.keys) == 4:
            for k, val in zip(v.keys, v.values):
                g = val.args[0] if isinstance(val, ast.Call) and A.call_attr(val) == "group" and len(val.args) == 1 else val.slice if isinstance(val, ast.Subscript) else None
                if g is None or A.const_str(g) != A.const_str(k) or not (".match(" in A.norm(val) or ".fullmatch(" in A.norm(val)):
                    return False
            return True
        if isinstance(v, ast.DictComp) and len(v.generators) == 1 and not v.generators[0].ifs and isinstance(v.generators[0].target, ast.Name) \
                and isinstance(v.key, ast.Name) and v.key.id == v.generators[0].target.id:
            # {name: match.group(name) for name in ('cluster', 'module', 'function', 'version')}
            var = v.key.id
            names = v.generators[0].iter
            elts = names.elts if isinstance(names, (ast.Tuple, ast.List, ast.Set)) else None
            val = v.value
            g = val.args[0] if isinstance(val, ast.Call) and A.call_attr(val) == "group" and len(val.args) == 1 else val.slice if isinstance(val, ast.Subscript) else None
            return elts is not None and sorted(A.const_str(x) or "?" for x in elts) == ["cluster", "function", "module", "version"] \
                and isinstance(g, ast.Name) and g.id == var and (".match(" in A.norm(val) or ".fullmatch(" in A.norm(val))
        return False
    okg = bool(rets) and all(r.value is not None and _is_groups(r) for r in rets)
    ck.ob(R1, pq.key(None, "groupdict"), okg, "the parts are the named groups" if okg else "parse_qualified_name does not return match.groupdict()", pq.where())
    return shape


def _partition_parser(ck, R1, pq):
    """The parser written with str.partition / rpartition / split(sep, 1) / rsplit(sep, 1) instead of
    a regular expression.  The qualified name is `[cluster::]module:function[#version]` where the
    version is free text (it may contain '#', '::' and ':') and is appended last, so: the version is
    cut at the FIRST '#' of the whole string, the cluster at the first '::' and the module at the first
    ':' of what precedes the '#'."""
    ops = {}
    for c in pq.calls():
        nm = A.call_attr(c)
        if nm in ("partition", "rpartition", "split", "rsplit") and c.args and A.const_str(c.args[0]) is not None:
            sep = A.const_str(c.args[0])
            if nm in ("split", "rsplit"):
                mx = c.args[1] if len(c.args) > 1 else A.kwarg(c, "maxsplit")
                which = "every" if mx is None or A.norm(mx) != "1" else ("first" if nm == "split" else "last")
            else:
                which = "first" if nm == "partition" else "last"
            ops.setdefault(sep, []).append((which, c))
    if set(ops) != {"#", "::", ":"} or any(len(v) != 1 for v in ops.values()):
        raise AnalysisError("parse_qualified_name uses neither one re.match with a literal pattern nor one partition/split per "
                            "delimiter ('#', '::', ':'): unsupported idiom (found %s)" % {k: len(v) for k, v in ops.items()})
    param = [p for p in pq.fi.params if p not in ("self", "cls")]
    wit = {"#": ("m:f#a#b", "a version containing '#' is split inside the version: the function name swallows part of it"),
           "::": ("c::m:f#x", "the cluster prefix is not cut at the first '::'"),
           ":": ("m:f", "the module is not cut at the first ':' (a nested function name 'a:b' style qualname moves into the module)")}
    for sep, tag in (("#", "version-split-first"), ("::", "cluster-split-first"), (":", "module-split-first")):
        which, c = ops[sep][0]
        ok = which == "first"
        ck.ob(R1, pq.key(None, tag), ok, "%r: the string is cut at its first occurrence" % sep if ok else
              "`%s` cuts at the %s occurrence of %r; for %r %s" % (A.short(c, 50), which, sep, wit[sep][0], wit[sep][1]), pq.where(c))
    # the '#' cut is applied to the whole name, the others to what precedes it
    which, c = ops["#"][0]
    d = pq.deps(A.call_recv(c))
    okw = d <= {"param:" + x for x in param}
    ck.ob(R1, pq.key(None, "version-cut-on-whole-name"), okw, "the version is cut off the whole name first" if okw else
          "the '#' cut is not applied to the whole qualified name", pq.where(c))
    for sep in ("::", ":"):
        which, c = ops[sep][0]
        d = pq.deps(A.call_recv(c))
        oku = any(x in d for x in ("call:partition", "call:split", "call:rpartition", "call:rsplit"))
        ck.ob(R1, pq.key(None, "cut-before-version:" + sep), oku, "%r is looked for in the part that precedes the version" % sep if oku else
              "%r is looked for in a string that still contains the version (a version may contain it)" % sep, pq.where(c))
    rets = [r for r in pq.returns() if isinstance(r.value, ast.Dict)]
    keys = {A.const_str(k) for r in rets for k in r.value.keys}
    okk = bool(rets) and keys == {"cluster", "module", "function", "version"}
    ck.ob(R1, pq.key(None, "groupdict"), okk, "the parts are returned as cluster / module / function / version" if okk else
          "parse_qualified_name does not return the four named parts", pq.where())
    return ("::", ":", "#")


# ---- the cluster prefix is put in front of a name at most once ----------------------------------------------
def _concats(fa, nodes):
    """[(parts, cfg node, ast node)]: the string-building expressions among the flow nodes (maximal '+' chains,
    f-strings, format calls, sep.join([...]) of a literal list), plus `name += <string>` statements seen as
    name + <string>."""
    out = []
    seen = set()
    for (n, at) in nodes:
        if id(n) in seen:
            continue
        seen.add(id(n))
        if isinstance(n, ast.BinOp) and isinstance(n.op, ast.Add):
            par = fa.pm.get(n)
            if isinstance(par, ast.BinOp) and isinstance(par.op, ast.Add):
                continue
            out.append((_flat_parts(n), at, n))
        elif isinstance(n, ast.JoinedStr) or (isinstance(n, ast.Call) and A.call_attr(n) == "format"):
            p = A.str_parts(n)
            if p:
                out.append((p, at, n))
        elif isinstance(n, ast.Call) and A.call_attr(n) == "join" and isinstance(n.func, ast.Attribute) and A.const_str(n.func.value) is not None \
                and len(n.args) == 1 and isinstance(n.args[0], (ast.List, ast.Tuple)):
            p = []
            for i, e in enumerate(n.args[0].elts):
                if i:
                    p.append(("lit", A.const_str(n.func.value)))
                p += _flat_parts(e)
            out.append((A._merge(p), at, n))
    for st in fa.stmts(ast.AugAssign):
        if isinstance(st.op, ast.Add) and isinstance(st.target, ast.Name) and fa.nodes(st) and any(n is st.value for (n, _a) in nodes):
            prev = ast.copy_location(ast.Name(id=st.target.id, ctx=ast.Load()), st.target)
            out.append((A._merge([("expr", prev)] + _flat_parts(st.value)), fa.nodes(st)[0], st))
    return out


def _cases_ending_with(fa, e, at, sep, lits=(), depth=0):
    """[(literals, cfg node)]: the cases in which the string `e` ENDS with `sep` (a prefix prepared in a local,
    possibly only under a condition)."""
    from .fresh import guarded_cases
    out = []
    for (case, a_, l_) in guarded_cases(fa, e, at, lits):
        if case[0] != "expr":
            continue
        x = case[1]
        p = _flat_parts(x)
        if not p:
            continue
        k, last = p[-1]
        if k == "lit":
            if last.endswith(sep):
                out.append((tuple(l_), a_))
        elif isinstance(last, ast.Name) and last is not x and fa.df.is_local(last.id) and depth < 6:
            out += _cases_ending_with(fa, last, a_, sep, l_, depth + 1)
    return out


def _expr_guards(fa, node, at):
    """Literals that hold whenever the sub-expression `node` of its statement is evaluated: the tests of the
    conditional expressions it is an arm of, the earlier operands of an `and` / `or` it belongs to."""
    out = []
    x = node
    while x is not None and not isinstance(x, ast.stmt):
        par = fa.pm.get(x)
        if isinstance(par, ast.IfExp) and x is not par.test:
            out += fa._atoms(par.test, at, x is par.body)
        if isinstance(par, ast.BoolOp) and x in par.values:
            for v in par.values[:par.values.index(x)]:
                out += fa._atoms(v, at, isinstance(par.op, ast.And))
        x = par
    return out


_PRESENT = ("__D__ in __X__", "__X__.find(__D__) >= 0", "0 <= __X__.find(__D__)", "__X__.find(__D__) > -1", "-1 < __X__.find(__D__)",
            "__X__.count(__D__) > 0", "0 < __X__.count(__D__)", "__X__.count(__D__) >= 1", "1 <= __X__.count(__D__)", "__X__.count(__D__)")
_ABSENT = ("__X__.find(__D__) == -1", "__X__.find(__D__) < 0", "0 > __X__.find(__D__)", "__X__.count(__D__) == 0", "__X__.count(__D__) < 1",
           "1 > __X__.count(__D__)")


def _absence_literals(fa, x, at, sep):
    """The path literals that say `sep` does not occur in the string `x` (as FA.conditions spells them)."""
    out = set()

    def build(src):
        t = ast.parse(src, mode="eval").body

        class T(ast.NodeTransformer):
            def visit_Name(self, n):
                if n.id == "__X__":
                    return x
                if n.id == "__D__":
                    return ast.Constant(value=sep)
                return n
        return ast.fix_missing_locations(T().visit(t))

    for (srcs, present) in ((_PRESENT, True), (_ABSENT, False)):
        for src in srcs:
            t = build(src)
            for (txt, pol) in fa._atoms(t, at, True):
                out.add((txt, (not pol) if present else pol))
    return out


def check_single_cluster_prefix(ck, R2, ini, d_cluster, d_module):
    """The name a reference is stored under has ONE cluster prefix: where `<cluster> '::'` is put in front of a name
    that may already carry a prefix (the unversioned name of the function that was found, which lives in whatever
    cluster it is registered in now), this happens only where that name is known to contain no cluster delimiter.
    Otherwise a callee that was re-clustered yields 'old::new::module:function', which does not parse back into
    the parts that were stored."""
    from .fresh import alternatives as alts_of
    sites = []
    for (st_, v_, _aug) in attr_writes(ini, "self._qualified_name"):
        if not ini.nodes(st_):
            continue
        fl = flow_nodes(ini, v_, ini.nodes(st_)[0])
        for (parts, at, node) in _concats(ini, fl):
            for i in range(len(parts) - 1):
                k, left = parts[i]
                if k == "lit":
                    cases = [((), at)] if left.endswith(d_cluster) else []
                else:
                    cases = _cases_ending_with(ini, left, at, d_cluster)
                if cases and not any(s_[2] is node and s_[1] == i for s_ in sites):
                    sites.append((parts, i, node, at, cases))
    ck.need(sites, "FunctionReference.__init__: cannot find where the cluster prefix is put in front of the qualified name")

    def composed_here(parts):
        """module ':' function glued on the spot: no cluster delimiter in it for admissible names"""
        return not any(k == "lit" and d_cluster in v for k, v in parts) and any(k == "lit" and d_module in v for k, v in parts) \
            and len([1 for k, v in parts if k == "expr"]) >= 2

    for (parts, i, node, at, cases) in sites:
        rest = parts[i + 1:]
        k0, x = rest[0]
        if k0 == "lit":
            continue
        if len(rest) > 1:
            if composed_here(rest):
                continue
            raise AnalysisError("%s: cannot tell what `%s` puts the cluster prefix in front of" % (ini.qual, A.short(node, 60)))
        carriers = [alt for (alt, a2) in alts_of(ini, x, at) if not composed_here(_flat_parts(alt))]
        if not carriers:
            continue
        absent = _absence_literals(ini, x, at, d_cluster)
        here = set(_expr_guards(ini, node, at)) if isinstance(node, ast.expr) else set()
        conds = ini.conditions(at)
        if conds is None:
            raise AnalysisError("%s: too many paths to `%s`" % (ini.qual, A.short(node, 60)))
        def establishes(c):
            """Does the conjunction say the name carries no cluster delimiter — by a literal of its own, or by a flag
            (`needs_prefix`) that can only come out this way where such a test was passed?"""
            if c & absent:
                return True
            for (t_, pol_) in c:
                if t_.isidentifier():
                    dnf = flag_conditions(ini, t_, pol_)
                    if dnf and all(d_ & absent for d_ in dnf):
                        return True
            return False

        ok = bool(here & absent) or (bool(conds) and all(establishes(c) for c in conds))
        if not ok:
            # the prefix itself may have been prepared only where the name has no delimiter yet
            ok = True
            for (lits, a_) in cases:
                if set(lits) & absent:
                    continue
                cd = ini.conditions(a_) if a_ != at else conds
                if cd and all(establishes(c) for c in cd):
                    continue
                ok = False
        if not ok:
            seen_lits = {l_[0] for c in conds for l_ in c} | {l_[0] for l_ in here} | {l_[0] for (lits, a_) in cases for l_ in lits}
            xt = ini.xnorm(x, at)
            if any(xt in t_ and any(m_ in t_ for m_ in (".split(", ".rsplit(", ".partition(", ".rpartition(", "re.", ".index(")) for t_ in seen_lits):
                raise AnalysisError("%s: cannot tell whether the test guarding `%s` establishes that the name has no %r" % (ini.qual, A.short(node, 60), d_cluster))
        ck.ob(R2, ini.key(node, "single-cluster-prefix"), ok,
              "the cluster prefix is put in front only of a name without %r" % d_cluster if ok else
              "`%s` puts a cluster prefix in front of `%s`, which may already carry one (it can be `%s`), and nothing on the way establishes that "
              "it contains no %r: for a function that is now registered in another named cluster the stored name becomes "
              "'old%snew%smodule%sfunction', which does not split back into the parts that were stored"
              % (A.short(node, 60), A.short(x, 30), A.short(carriers[0], 50), d_cluster, d_cluster, d_cluster, d_module), ini.where(node))


def check_cluster_name_validated(ck, R2, shape):
    """The cluster name is spliced in front of `module:function#version` with the cluster delimiter; the parser can
    only get it back if it contains none of the characters that delimit the later parts.  The configuration
    refuses such names where clusters are created: for each such character c and each value `self.name` may finally
    hold, the constructor cannot complete normally when that value contains c.  Decided by walking the CFG under the
    assumption "the final name contains c": a test whose outcome the assumption settles ('c' in name, any(...) over a
    literal, a character class, a set intersection, `name is None` ...) is followed only on that side; a test about
    another value (the parameter when the configured name is the final one, the field before it is overridden) settles
    nothing.  Reaching the normal exit with that value in the field means such a name is accepted."""
    import copy
    import re as _re
    from .c11 import _unrolled
    from .fresh import static_value
    fa = _unrolled(FA(ck, "configuration.FunctionCluster.__init__"))
    d_cluster, d_module, d_version = shape if shape is not None else ("::", ":", "#")
    need = sorted({d_module[0], d_version})
    FIELD = "self.name"
    cfg = fa.cfg
    finals = fa.df.reaching(cfg.exit, FIELD)
    ck.need(finals, "FunctionCluster.__init__: self.name is never assigned")

    def text_of(d):
        return fa.xnorm(d.value, d.node) if d.kind == "assign" and d.value is not None else "?%d" % d.node

    def samples(c):
        return [c, "a" + c, c + "a", "a" + c + "b", "ab" + c + c + "b_1"]

    def agree(vals):
        vals = [bool(v) for v in vals]
        return True if all(vals) else False if not any(vals) else None

    def evaluate(test, at, cur, c, F):
        def is_name(x):
            t = A.norm(x)
            return (t == FIELD and cur == F) or t == F

        def elements(it):
            """constants a literal iterable yields / 'NAME' when it iterates the name itself / None"""
            if is_name(it):
                return "NAME"
            v = static_value(fa, it, at)
            if isinstance(v, ast.Constant) and isinstance(v.value, str):
                return [ast.Constant(value=ch) for ch in v.value]
            if isinstance(v, (ast.Tuple, ast.List, ast.Set)) and all(isinstance(x, ast.Constant) for x in v.elts):
                return list(v.elts)
            return None

        def subst(e, name, const):
            class T(ast.NodeTransformer):
                def visit_Name(self, n):
                    return ast.copy_location(ast.Constant(value=const.value), n) if n.id == name else n
            return T().visit(copy.deepcopy(e))

        def comp_rows(comp):
            """[[truth of each `if` ..., element expr]] per member the comprehension walks; None when it cannot be told"""
            if len(comp.generators) != 1 or not isinstance(comp.generators[0].target, ast.Name):
                return None, None
            g = comp.generators[0]
            els = elements(g.iter)
            if els is None:
                return None, None
            partial = els == "NAME"
            rows = []
            for k in ([ast.Constant(value=c)] if partial else els):
                conds = [ev(subst(i, g.target.id, k)) for i in g.ifs]
                rows.append((conds, subst(comp.elt, g.target.id, k) if not isinstance(comp, ast.DictComp) else None))
            return rows, partial

        def quant(comp, want_any):
            rows, partial = comp_rows(comp)
            if rows is None:
                return None
            vals = []
            for (conds, elt) in rows:
                if any(x is False for x in conds):
                    continue  # filtered out
                v = ev(elt) if elt is not None else None
                vals.append(v if all(x is True for x in conds) else (None if v is not (not want_any) else None))
            if want_any:
                if any(v is True for v in vals):
                    return True
                return None if partial or any(v is None for v in vals) else False
            if any(v is False for v in vals):
                return False
            return None if partial or any(v is None for v in vals) else True

        def nonempty(comp):
            rows, partial = comp_rows(comp)
            if rows is None:
                return None
            if any(all(x is True for x in conds) for (conds, _e) in rows):
                return True
            return None if partial or any(not any(x is False for x in conds) for (conds, _e) in rows) else False

        def chars_of(lit):
            els = elements(lit)
            return None if els is None or els == "NAME" else {k.value for k in els}

        def name_chars(x):
            """set(name) / frozenset(name)"""
            return isinstance(x, ast.Call) and isinstance(x.func, ast.Name) and x.func.id in ("set", "frozenset") and len(x.args) == 1 and is_name(x.args[0])

        def pattern_of(x):
            v = static_value(fa, x, at)
            if isinstance(v, ast.Call) and A.call_attr(v) == "compile" and v.args:
                v = static_value(fa, v.args[0], at)
            return v.value if isinstance(v, ast.Constant) and isinstance(v.value, str) else None

        def number(e):
            """(lowest, highest) the integer can be under the assumption, None when unknown"""
            if isinstance(e, ast.Constant) and isinstance(e.value, int) and not isinstance(e.value, bool):
                return (e.value, e.value)
            if isinstance(e, ast.UnaryOp) and isinstance(e.op, ast.USub) and isinstance(e.operand, ast.Constant) and isinstance(e.operand.value, int):
                return (-e.operand.value, -e.operand.value)
            if isinstance(e, ast.Call) and isinstance(e.func, ast.Attribute) and is_name(e.func.value) and len(e.args) == 1 and A.const_str(e.args[0]) == c:
                if e.func.attr in ("find", "index", "rfind", "rindex"):
                    return (0, None)
                if e.func.attr == "count":
                    return (1, None)
            if isinstance(e, ast.Call) and isinstance(e.func, ast.Name) and e.func.id == "len" and len(e.args) == 1:
                x = e.args[0]
                if is_name(x):
                    return (1, None)
                if isinstance(x, (ast.ListComp, ast.SetComp, ast.GeneratorExp)):
                    ne = nonempty(x)
                    return (1, None) if ne is True else (0, 0) if ne is False else None
            return None

        def ev(e):
            if isinstance(e, ast.Constant):
                return bool(e.value)
            if isinstance(e, ast.UnaryOp) and isinstance(e.op, ast.Not):
                v = ev(e.operand)
                return None if v is None else not v
            if isinstance(e, ast.BoolOp):
                vs = [ev(v) for v in e.values]
                if isinstance(e.op, ast.And):
                    return False if any(v is False for v in vs) else True if all(v is True for v in vs) else None
                return True if any(v is True for v in vs) else False if all(v is False for v in vs) else None
            if isinstance(e, ast.IfExp):
                t = ev(e.test)
                return ev(e.body) if t is True else ev(e.orelse) if t is False else (ev(e.body) if ev(e.body) == ev(e.orelse) else None)
            if isinstance(e, ast.Compare) and len(e.ops) == 1:
                l, op, r = e.left, e.ops[0], e.comparators[0]
                neg = isinstance(op, (ast.NotIn, ast.IsNot, ast.NotEq))
                res = None
                if isinstance(op, (ast.In, ast.NotIn)):
                    if is_name(r) and A.const_str(l) is not None:
                        res = True if A.const_str(l) == c else None
                    elif A.const_str(l) is not None and not is_name(r):
                        # a constant looked up in a literal string / collection
                        rv = static_value(fa, r, at)
                        if isinstance(rv, ast.Constant) and isinstance(rv.value, str):
                            res = A.const_str(l) in rv.value
                        elif isinstance(rv, (ast.Tuple, ast.List, ast.Set)) and all(isinstance(x, ast.Constant) for x in rv.elts):
                            res = A.const_str(l) in {x.value for x in rv.elts}
                elif isinstance(op, (ast.Is, ast.IsNot, ast.Eq, ast.NotEq)) and ((is_name(l) and A.is_none(r)) or (is_name(r) and A.is_none(l))):
                    res = False
                elif isinstance(op, (ast.Eq, ast.NotEq)) and ((is_name(l) and A.const_str(r) is not None) or (is_name(r) and A.const_str(l) is not None)):
                    s_ = A.const_str(r) if is_name(l) else A.const_str(l)
                    res = False if c not in s_ else None
                if res is None and not isinstance(op, (ast.In, ast.NotIn, ast.Is, ast.IsNot)):
                    a, b = number(l), number(r)
                    if a is not None and b is not None:
                        (alo, ahi), (blo, bhi) = a, b
                        def lt(x_hi, y_lo):  # surely x < y
                            return x_hi is not None and y_lo is not None and x_hi < y_lo
                        if isinstance(op, ast.Lt):
                            return True if lt(ahi, blo) else False if (bhi is not None and alo >= bhi) else None
                        if isinstance(op, ast.GtE):
                            return False if lt(ahi, blo) else True if (bhi is not None and alo >= bhi) else None
                        if isinstance(op, ast.Gt):
                            return True if lt(bhi, alo) else False if (ahi is not None and blo >= ahi) else None
                        if isinstance(op, ast.LtE):
                            return False if lt(bhi, alo) else True if (ahi is not None and blo >= ahi) else None
                        if isinstance(op, (ast.Eq, ast.NotEq)):
                            apart = lt(ahi, blo) or lt(bhi, alo)
                            same = alo == ahi == blo == bhi
                            res = False if apart else True if same else None
                if res is None:
                    return None
                return (not res) if neg else res
            if isinstance(e, ast.BinOp) and isinstance(e.op, ast.BitAnd):
                for (x, y) in ((e.left, e.right), (e.right, e.left)):
                    if name_chars(x):
                        cs = chars_of(y.args[0] if isinstance(y, ast.Call) and isinstance(y.func, ast.Name) and y.func.id in ("set", "frozenset") and len(y.args) == 1 else y)
                        if cs is not None:
                            return True if c in cs else None
                return None
            if isinstance(e, (ast.ListComp, ast.SetComp, ast.GeneratorExp, ast.DictComp)):
                return nonempty(e) if not isinstance(e, ast.GeneratorExp) else True
            if isinstance(e, ast.Call):
                nm = A.call_attr(e)
                if isinstance(e.func, ast.Name) and nm in ("any", "all") and len(e.args) == 1 and isinstance(e.args[0], (ast.GeneratorExp, ast.ListComp, ast.SetComp)):
                    return quant(e.args[0], nm == "any")
                if isinstance(e.func, ast.Name) and nm == "bool" and len(e.args) == 1:
                    return ev(e.args[0])
                if isinstance(e.func, ast.Name) and nm == "isinstance" and len(e.args) == 2 and is_name(e.args[0]) and A.norm(e.args[1]) == "str":
                    return True
                if isinstance(e.func, ast.Name) and nm == "len" and len(e.args) == 1:
                    n_ = number(e)
                    return None if n_ is None else (True if n_[0] >= 1 else False if n_[1] == 0 else None)
                if isinstance(e.func, ast.Attribute) and is_name(e.func.value):
                    if nm in ("find", "index", "rfind", "rindex"):
                        return None  # truthiness of a position says nothing
                    if nm == "count" and len(e.args) == 1 and A.const_str(e.args[0]) == c:
                        return True
                    if not e.args and not e.keywords and nm in ("isalnum", "isalpha", "isidentifier", "isdigit", "isdecimal", "isnumeric", "isascii", "isprintable", "isspace", "islower", "isupper"):
                        return agree([getattr(s_, nm)() for s_ in samples(c)])
                    return None
                if isinstance(e.func, ast.Attribute) and name_chars(e.func.value) and len(e.args) == 1:
                    cs = chars_of(e.args[0])
                    if cs is not None and nm == "isdisjoint":
                        return False if c in cs else None
                    if cs is not None and nm == "intersection":
                        return True if c in cs else None
                    return None
                if nm in ("search", "match", "fullmatch", "findall") and isinstance(e.func, ast.Attribute):
                    pat = subj = None
                    if A.norm(e.func.value) in ("re", "_re", "regex") and len(e.args) >= 2:
                        pat, subj = pattern_of(e.args[0]), e.args[1]
                    elif len(e.args) == 1:
                        pat, subj = pattern_of(e.func.value), e.args[0]
                    if pat is not None and subj is not None and is_name(subj) and len(e.args) <= 2 and not e.keywords:
                        try:
                            rx = _re.compile(pat)
                        except _re.error:
                            return None
                        return agree([getattr(rx, nm)(s_) for s_ in samples(c)])
                return None
            if is_name(e):
                return True
            return None

        try:
            return ev(fa.expand(test, at))
        except (AnalysisError, RecursionError):
            return None

    def accepted(c, F):
        """a cfg node of the normal exit reached with the value F (containing c) in the field, or None"""
        seen = set()
        todo = [(cfg.entry, None)]
        while todo:
            n, cur = todo.pop()
            if (n, cur) in seen:
                continue
            seen.add((n, cur))
            if n == cfg.exit:
                if cur == F:
                    return True
                continue
            nd = cfg.node(n)
            nxt = cur
            for d in fa.df.gen.get(n, []):
                if d.name == FIELD:
                    nxt = text_of(d)
            tv = evaluate(nd.ast, n, cur, c, F) if nd.kind == "test" and isinstance(nd.ast, ast.expr) else None
            for (dst, lab) in cfg.succ[n]:
                if lab == "exc":
                    continue
                if tv is not None and lab in ("T", "F") and (lab == "T") != tv:
                    continue
                todo.append((dst, nxt))
        return False

    bad = []
    for d in finals:
        F = text_of(d)
        for c in need:
            if accepted(c, F):
                bad.append((c, F, d))
    ok = not bad
    srcs = sorted({"%r in a name taken from `%s`" % (c, F) for (c, F, _d) in bad})
    ck.ob(R2, fa.key(None, "cluster-name-validated"), ok,
          "a cluster name containing %s is refused" % need if ok else
          "cluster names are not checked against the delimiters %s of qualified names (the constructor completes with %s): a cluster called 'team#1' or 'a:' is accepted, results are "
          "stored under it, and every later read of those entries fails to parse the name (or parses it into other parts)" % (need, "; ".join(srcs)),
          fa.where(bad[0][2].stmt) if bad and getattr(bad[0][2], "stmt", None) is not None else fa.where())


def _handler_types(fa, h):
    """Bare names of the exception classes a handler takes ([None] for a bare `except:`): a tuple spelled in place,
    or held by a local / module-level / class-level constant (`_LOOKUP_FAILURES = (ModuleNotFoundError, ...)`),
    tuples nested or concatenated."""
    from .fresh import static_value
    if h.type is None:
        return [None]
    at = fa.nodes(h)[0] if fa.nodes(h) else None
    if at is None:
        ids = [i for st in h.body for i in fa.nodes(st)]
        at = ids[0] if ids else None
    out = []

    def rec(t, depth=0):
        if depth > 6:
            out.append(A.norm(t))
            return
        if isinstance(t, (ast.Tuple, ast.List)):
            for x in t.elts:
                rec(x.value if isinstance(x, ast.Starred) else x, depth + 1)
            return
        if isinstance(t, ast.BinOp) and isinstance(t.op, ast.Add):
            rec(t.left, depth + 1)
            rec(t.right, depth + 1)
            return
        if isinstance(t, (ast.Name, ast.Attribute)):
            v = None
            if isinstance(t, ast.Name) and fa.df.is_local(t.id) and at is not None:
                # (the handler's cfg node is not where the name was read: look the binding up among the function's plain assignments)
                vals = [st.value for st in fa.stmts(ast.Assign) if any(isinstance(x, ast.Name) and x.id == t.id for x in st.targets)]
                v = vals[0] if len(vals) == 1 else None
            else:
                v = static_value(fa, t, at)
                if v is t:
                    v = None
            if isinstance(v, (ast.Tuple, ast.List, ast.BinOp)):
                rec(v, depth + 1)
                return
        out.append(A.norm(t).split(".")[-1])

    rec(h.type)
    return out


def check_stub_from_stored_state(ck, R3):
    """The external stand-in for a function that cannot be resolved at the stored version is built
    from what was stored (the parsed name and the decoder's arguments) and from nothing that the
    *current* code says: the current definition may have other parameters than the stored call."""
    fq = FA(ck, FR + ".from_qualified_name")
    stubs = fq.calls("UnboundExternalMementoFunction")
    from .c11 import _bound_args, _ctor_params
    stub_params = _ctor_params(ck, "external.UnboundExternalMementoFunction")
    for call in stubs:
        bound = _bound_args(fq, call, stub_params) if fq.nodes(call) else None
        if bound is None:
            bound = {k.arg: (k.value, None) for k in call.keywords if k.arg is not None}
        for (arg_, (value_, at_)) in sorted(bound.items()):
            k = ast.keyword(arg=arg_, value=value_)
            d = fq.deps(k.value) if at_ is None else fq.df.deps(k.value, at_)
            live = sorted(x for x in d if x in ("call:import_module", "call:signature", "call:getattr", "call:_find_function", "call:getfullargspec")
                          or x.startswith("getattr:fn") or x.startswith("getattr:__code__") or x.startswith("getattr:src_fn"))
            ck.ob(R3, fq.key(call, "stub-from-stored:" + k.arg), not live,
                  "%s of the external stub comes from the stored state" % k.arg if not live else
                  "%s of the external stub is derived from the function as currently defined (%s): when the callee's signature changed, a stored "
                  "positional call no longer fits it and decoding the memento raises instead of yielding an external reference" % (k.arg, live), fq.where(call))
    ck.ob(R3, fq.key(None, "stub-sites"), len(stubs) >= 1, "%d external stub construction site(s)" % len(stubs) if stubs else
          "from_qualified_name no longer falls back to UnboundExternalMementoFunction", fq.where())


def check_unresolvable_is_absent(ck, R3):
    """get_mementos answers None for a stored memento whose function cannot be mapped any more: on every call
    chain from get_mementos to the read of the stored document (the private reader, or the decoder itself where
    the reader was inlined) — through whatever helpers of the class the loop body was moved into — some frame
    holds the call inside a `try` whose handlers take FunctionNotFoundError."""
    gm = FA(ck, "storage_base.DataSourceMetadataSource.get_mementos")
    cls = gm.fi.cls
    ck.need(cls is not None, "get_mementos is not a method")
    # (the private reader — or the decoder itself where the reader's body was written out in place)
    reader_names = ("_read_memento", "decode_memento")
    catching = {"FunctionNotFoundError", "ValueError", "Exception", "BaseException"}
    fnf = ck.repo.classes_named("FunctionNotFoundError")
    if fnf:
        catching = {"FunctionNotFoundError", "Exception", "BaseException"} | {b.name for b in ck.repo.mro(fnf[0])[1:]} | set(fnf[0].base_exprs)

    def passes_on(fa, h):
        """Does some reachable `raise` in the handler (at any depth: under a condition, in a loop, in a `with`) leave it?  A raise
        inside an inner try of the handler that catches everything stays inside."""
        for st in h.body:
            for r in A.walk_local(st):
                if not isinstance(r, ast.Raise) or not fa.nodes(r):
                    continue
                n, kept = r, False
                while n is not None and n is not h:
                    p_ = fa.pm.get(n)
                    if isinstance(p_, ast.Try) and any(n is b for b in p_.body) and \
                            any(t is None or t in ("Exception", "BaseException") for h2 in p_.handlers for t in _handler_types(fa, h2)):
                        kept = True
                        break
                    n = p_
                if not kept:
                    return True
        return False

    def absorbed(fa, call):
        n = call
        while n is not None:
            p_ = fa.pm.get(n)
            if isinstance(p_, ast.Try) and any(fa.inside(call, b) for b in p_.body):
                for h in p_.handlers:
                    if any(t is None or t in catching for t in _handler_types(fa, h)):
                        # (a handler that passes the exception on - on any of its paths - does not absorb it)
                        return not passes_on(fa, h)
            n = p_
        return False

    reads = []  # (fa, call, protected?)

    def walk(fa, covered, stack):
        for c in fa.calls():
            nm = A.call_attr(c)
            prot = covered or absorbed(fa, c)
            if nm in reader_names:
                reads.append((fa, c, prot))
            elif isinstance(c.func, ast.Attribute) and A.norm(c.func.value) in ("self", "cls", cls.node.name) and nm in cls.methods \
                    and nm not in stack and len(stack) < 5:
                walk(FA(ck, cls.methods[nm]), prot, stack + (nm,))
            elif isinstance(c.func, ast.Name) and nm not in stack and len(stack) < 5:
                # a closure of this function (or of an enclosing one) the loop body was moved into
                f_ = fa.fi
                while f_ is not None and nm not in (getattr(f_, "nested", None) or {}):
                    f_ = f_.parent
                if f_ is not None:
                    walk(FA(ck, f_.nested[nm]), prot, stack + (nm,))

    walk(gm, False, ("get_mementos",))
    ck.need(reads, "%s: no call chain from get_mementos to %s found" % (gm.qual, " / ".join(reader_names)))
    for (fa, c, prot) in reads:
        ck.ob(R3, fa.key(c, "unresolvable-is-absent"), prot, "a memento whose function cannot be mapped counts as absent" if prot else
              "FunctionNotFoundError escapes get_mementos: a stale entry makes every lookup of that call raise", fa.where(c))


_MEMOIZERS = ("lru_cache", "cache", "cached_property", "memoize", "memoized", "cached")


def _memoizing_decorator(fi):
    """The decorator of a function that makes it answer from earlier calls (functools.lru_cache / cache / ...)."""
    for d in fi.node.decorator_list:
        f = d.func if isinstance(d, ast.Call) else d
        nm = f.attr if isinstance(f, ast.Attribute) else f.id if isinstance(f, ast.Name) else None
        if nm in _MEMOIZERS:
            origin = fi.module.imports.get(nm, "") if isinstance(f, ast.Name) else A.norm(f.value)
            if "functools" in origin or "cachetools" in origin or nm in ("lru_cache", "cached_property"):
                return ast.unparse(d)
    return None


def check_decoded_on_every_read(ck, R3):
    """References inside a stored memento are resolved against the code as it is NOW while the document is decoded
    (decode_memento -> decode_fn_reference -> from_qualified_name): that is what turns a callee version that no longer
    exists into an external reference.  So every memento the store-backed metadata source hands out has to be the
    result of decoding on this very read: the value flow of what get_mementos / list_mementos return — through the
    private reader, result lists, helpers, generators — ends in decode_memento calls (and None for absent entries) and
    reads nothing that an earlier call may have left in the object, its class or the module."""
    from .fresh import ValueSlice, surviving_state_in
    cls = ck.repo.cls("storage_base.DataSourceMetadataSource")
    for entry in ("get_mementos", "list_mementos"):
        fi = ck.repo.find_method(cls, entry)
        ck.need(fi is not None, "DataSourceMetadataSource.%s not found" % entry)
        fa = FA(ck, fi)
        sl = ValueSlice(ck, lambda c: A.call_attr(c) == "decode_memento").of_results(fi)
        stale = surviving_state_in(ck, sl)
        memo = [(u, _memoizing_decorator(u)) for u in sl.units if _memoizing_decorator(u)]
        if not sl.stopped and not stale and not memo:
            raise AnalysisError("%s: cannot find where the mementos it returns are decoded (no decode_memento call in the value flow of its result)" % fa.qual)
        ok = not stale and not memo
        if ok:
            msg = "every memento handed out is decoded on this read (%d decode site(s) in %s)" % (
                len(sl.stopped), sorted({f_.fi.name for (f_, c_) in sl.stopped}))
            where = fa.where()
        elif stale:
            f_, n_, label, writers = stale[0]
            msg = ("a memento returned by %s can come from `%s` (filled by %s) instead of being decoded on this read: references inside a "
                   "memento are resolved against the current code while it is decoded, so a memento kept from an earlier read goes on "
                   "presenting a callee version that has since been edited or removed as a live reference instead of an external one"
                   % (entry, label, ", ".join(sorted(set(writers))[:3])))
            where = f_.where(n_)
        else:
            u, deco = memo[0]
            msg = ("%s (in the value flow of what %s returns) is memoised by @%s: the memento decoded on the first read is handed out again "
                   "after the code it refers to has changed, so vanished callee versions are not reported as external references"
                   % (u.qual, entry, deco))
            where = A.loc(u, u.node)
        ck.ob(R3, fa.key(None, "decoded-on-every-read"), ok, msg, where)


# ---- names that were stored are the names that are listed -----------------------------------------------------------
FSDS = "storage_filesystem._FilesystemDataSource"
_UNQUOTERS = ("unquote", "unquote_plus", "unquote_to_bytes")


def _escape_pairs(ek: FA):
    """[(character, what it is written as)] of the key escape: `key.replace(a, b)` (possibly chained) or
    `b.join(key.split(a))`; None when the escape is written another way."""
    pairs = []
    for r in ek.returns():
        if r.value is None or not ek.nodes(r):
            return None
        e = ek.expand(r.value, ek.nodes(r)[0])
        while True:
            if isinstance(e, ast.Call) and A.call_attr(e) == "replace" and isinstance(e.func, ast.Attribute) and len(e.args) == 2 \
                    and all(A.const_str(a) is not None for a in e.args):
                pairs.append((A.const_str(e.args[0]), A.const_str(e.args[1])))
                e = e.func.value
                continue
            if isinstance(e, ast.Call) and A.call_attr(e) == "join" and isinstance(e.func, ast.Attribute) and A.const_str(e.func.value) is not None \
                    and len(e.args) == 1 and isinstance(e.args[0], ast.Call) and A.call_attr(e.args[0]) == "split" and len(e.args[0].args) == 1 \
                    and A.const_str(e.args[0].args[0]) is not None and isinstance(e.args[0].func, ast.Attribute):
                pairs.append((A.const_str(e.args[0].args[0]), A.const_str(e.func.value)))
                e = e.args[0].func.value
                continue
            break
        if not isinstance(e, ast.Name):
            return None
    return pairs or None


def check_listing_inverts_escape(ck, R):
    """Keys are written under an escaped file name (':' is not allowed on every file system); the listing turns the
    file names back into keys.  The escape writes percent codes, so the listing has to undo exactly percent codes:
    `unquote`.  `unquote_plus` also turns '+' into a blank, which the escape never wrote — a version such as
    1.4.0+build.7 would be listed under another name than it was stored under."""
    from urllib.parse import unquote as _uq
    ls = FA(ck, FSDS + ".list_keys_nonversioned")
    ek = FA(ck, FSDS + "._escape_key")
    from .c11 import _unrolled
    # (a loop over a literal table of (character, code) rows is the chain of replacements it stands for)
    pairs = _escape_pairs(_unrolled(ek))
    if pairs is None:
        raise AnalysisError("%s: the key escape is neither a chain of replace(<char>, <code>) nor <code>.join(key.split(<char>))" % ek.qual)
    oke = any(a == ":" for a, b in pairs) and all(len(a) == 1 and b != a and _uq(b) == a for a, b in pairs)
    decoders = set()
    for fi in _listing_units(ck, ls):
        if fi is ek.fi:
            continue
        for c in A.body_calls(fi.node):
            nm = A.call_attr(c)
            if isinstance(c.func, ast.Name):
                origin = fi.module.imports.get(c.func.id, "")
                if ":" in origin:
                    nm = origin.split(":")[-1]
            if nm in _UNQUOTERS:
                decoders.add(nm)
    ok_inv = oke and decoders == {"unquote"}
    ck.ob(R, ek.key(None, "escape"), ok_inv, "':' is escaped as a percent code that the listing decodes with unquote (the exact inverse)" if ok_inv else
          "key escaping %s is not inverted exactly by the listing (decoders used: %s): names containing '+' (versions like 1.4.0+build.7) come back altered"
          % ([list(p_) for p_ in pairs], sorted(decoders) or "none"), ek.where())


def _pattern_literal(pq, e, depth=0):
    """The pattern text an expression denotes, as a Constant node: a literal, a local / module-level / class-level
    constant holding one, pieces of those glued with '+' / an f-string, or re.compile(<one of those>)."""
    if depth > 8 or e is None:
        return None
    if A.const_str(e) is not None:
        return e
    if isinstance(e, ast.Call) and A.call_dotted(e) == "re.compile" and e.args:
        return _pattern_literal(pq, e.args[0], depth + 1)
    if isinstance(e, (ast.BinOp, ast.JoinedStr)):
        parts = A.str_parts(e)
        if parts is None:
            return None
        txt = ""
        for (k, v) in parts:
            if k == "lit":
                txt += v
            else:
                lit = _pattern_literal(pq, v, depth + 1)
                if lit is None:
                    return None
                txt += A.const_str(lit)
        return ast.copy_location(ast.Constant(value=txt), e)
    if isinstance(e, ast.Name):
        if pq.df.is_local(e.id):
            ds = [d for i in pq.nodes(e) for d in pq.df.reaching(i, e.id)]
            if len(ds) == 1 and ds[0].kind == "assign":
                return _pattern_literal(pq, ds[0].value, depth + 1)
            return None
        return _pattern_literal(pq, pq.fi.module.assigns.get(e.id), depth + 1)
    if isinstance(e, ast.Attribute) and isinstance(e.value, ast.Name) and pq.fi.cls is not None and e.value.id in ("cls", "self", pq.fi.cls.node.name):
        for st in pq.fi.cls.node.body:
            if isinstance(st, ast.Assign) and any(isinstance(t, ast.Name) and t.id == e.attr for t in st.targets):
                return _pattern_literal(pq, st.value, depth + 1)
    return None


def _compile_call(pq, e, depth=0):
    """The re.compile(...) call a compiled-pattern expression goes back to (through a local / module / class constant)."""
    if depth > 5 or e is None:
        return None
    if isinstance(e, ast.Call) and A.call_dotted(e) == "re.compile":
        return e
    if isinstance(e, ast.Name):
        if pq.df.is_local(e.id):
            ds = [d for i in pq.nodes(e) for d in pq.df.reaching(i, e.id)]
            return _compile_call(pq, ds[0].value, depth + 1) if len(ds) == 1 and ds[0].kind == "assign" else None
        return _compile_call(pq, pq.fi.module.assigns.get(e.id), depth + 1)
    if isinstance(e, ast.Attribute) and isinstance(e.value, ast.Name) and pq.fi.cls is not None and e.value.id in ("cls", "self", pq.fi.cls.node.name):
        for st in pq.fi.cls.node.body:
            if isinstance(st, ast.Assign) and any(isinstance(t, ast.Name) and t.id == e.attr for t in st.targets):
                return _compile_call(pq, st.value, depth + 1)
    return None


def _regex_flags(e) -> int:
    """The value of a flags expression spelled with the re module's names (re.VERBOSE | re.X | ...); 0 for none."""
    import re as _re
    if e is None:
        return 0
    if isinstance(e, ast.Constant) and isinstance(e.value, int):
        return int(e.value)
    if isinstance(e, ast.BinOp) and isinstance(e.op, ast.BitOr):
        return _regex_flags(e.left) | _regex_flags(e.right)
    if isinstance(e, ast.Attribute) and isinstance(e.value, ast.Name) and e.value.id == "re" and isinstance(getattr(_re, e.attr, None), _re.RegexFlag):
        return int(getattr(_re, e.attr))
    if isinstance(e, ast.Name) and isinstance(getattr(_re, e.id, None), _re.RegexFlag):
        return int(getattr(_re, e.id))
    raise AnalysisError("qualified-name pattern: cannot tell which flags `%s` are" % A.short(e, 40))


def check_parser(ck, R1):
    pq = FA(ck, FR + ".parse_qualified_name")
    # re.match(<pattern>, name) / re.fullmatch(...) / <compiled pattern>.match(name), the pattern being a literal or
    # a constant defined once at module / class level
    found = []
    for c in pq.calls("match") + pq.calls("fullmatch"):
        if A.call_dotted(c) in ("re.match", "re.fullmatch"):
            lit = _pattern_literal(pq, c.args[0]) if c.args else None
            flags = c.args[2] if len(c.args) > 2 else A.kwarg(c, "flags")
        else:
            lit = _pattern_literal(pq, A.call_recv(c))
            cc = _compile_call(pq, A.call_recv(c))
            flags = (cc.args[1] if len(cc.args) > 1 else A.kwarg(cc, "flags")) if cc is not None else None
        if lit is not None:
            found.append((c, lit, flags))
    if len(found) == 1:
        c, lit, flags = found[0]
        direct = A.call_dotted(c) in ("re.match", "re.fullmatch")
        if direct and c.args[0] is lit:
            return _regex_parser(ck, R1, pq, [c], flags=_regex_flags(flags))
        pseudo = ast.Call(func=c.func, args=[lit] + list(c.args[1:] if direct else c.args), keywords=[])
        ast.copy_location(pseudo, c)
        return _regex_parser(ck, R1, pq, [pseudo], anchor=c, flags=_regex_flags(flags))
    return _partition_parser(ck, R1, pq)


def check(ck):
    from .memo import check_new_memo_tables
    ck.run(check_new_memo_tables, ck, "C12.M1", ('serialization', 'reference', 'storage_base'))
    R1, R2, R3 = "C12.R1", "C12.R2", "C12.R3"
    ck.rule(R1, "qualified-name pattern (regex AST): shape (cluster '::')? module ':' function ('#' version)?; '#' is "
                "excluded from cluster, ':' and '#' from module, '#' from function; version is unrestricted and last", 6)
    ck.rule(R2, "builder/parser agreement: the delimiters concatenated when a qualified name is built equal the literals "
                "of the pattern; the unversioned name is cut at the first '#'", 4)
    ck.rule(R3, "exception escape on the metadata read path: everything the function lookup may raise is converted into "
                "the external fallback; no assert on the fallback path can fail for a parse result; the metadata source "
                "treats unresolvable functions as absent", 5)
    shape = check_parser(ck, R1)

    # ---- R2
    if shape is not None:
        d_cluster, d_module, d_version = shape
        ini = FA(ck, FR + ".__init__")
        # the delimiters the reference's qualified name is glued with: the short constants in the value flow of
        # what is stored as self._qualified_name (through temporaries, +=, tuple assignments, helper results)
        concat = set()
        qn = attr_writes(ini, "self._qualified_name")
        for (st_, v_, _aug) in qn:
            if ini.nodes(st_):
                concat |= {x[7:-1] for x in ini.deps(v_, ini.nodes(st_)[0]) if x.startswith("const:'") and len(x[7:-1]) <= 2}
                # (delimiters spelled inside a format string / f-string / sep.join in that flow)
                for (parts_, _at, _n) in _concats(ini, flow_nodes(ini, v_, ini.nodes(st_)[0])):
                    concat |= {t_ for k_, t_ in parts_ if k_ == "lit" and 0 < len(t_) <= 2}
        if not qn:
            concat = _glue_literals(ini)
        ok = {d_cluster, d_module, d_version} <= concat
        ck.ob(R2, ini.key(None, "delimiters"), ok, "the reference is built with %s, the pattern's delimiters" % sorted(concat) if ok else
              "FunctionReference builds names with %s but the parser splits on %s" % (sorted(concat), [d_cluster, d_module, d_version]), ini.where())
        mi = FA(ck, "memento.MementoFunction.__init__")
        concat2 = _glue_literals(mi)
        ok2 = {d_cluster, d_module} <= concat2
        ck.ob(R2, mi.key(None, "delimiters"), ok2, "the unversioned name uses the same cluster and module delimiters" if ok2 else
              "MementoFunction builds its unversioned name with %s, the parser expects %s" % (sorted(concat2), [d_cluster, d_module]), mi.where())
        # the unversioned name ends with <fn>.__module__ + ':' + <fn>.__qualname__, and that write is the last one
        def _mod_fn_tail(v_, at_, depth=0):
            """Does every value the expression may hold END with <fn>.__module__ ':' <fn>.__qualname__ ?  (The end of
            a string is the end of its last part: a local in last position stands for the values assigned to it.)"""
            for (alt, a2) in alternatives(mi, v_, at_):
                p_ = _flat_parts(alt)
                if not p_:
                    return False
                if len(p_) >= 3:
                    (k1, a1), (k2, a2_), (k3, a3) = p_[-3:]
                    if k1 == "expr" and k2 == "lit" and k3 == "expr" and a2_ == d_module and isinstance(a1, ast.Attribute) and a1.attr == "__module__" \
                            and isinstance(a3, ast.Attribute) and a3.attr == "__qualname__" and A.norm(a1.value) == A.norm(a3.value):
                        continue
                k_, last = p_[-1]
                if k_ == "expr" and isinstance(last, ast.Name) and mi.df.is_local(last.id) and depth < 6 and not (len(p_) == 1 and last is alt):
                    if _mod_fn_tail(last, a2, depth + 1):
                        continue
                return False
            return True
        writes = [(st_, v_, aug_) for (st_, v_, aug_) in attr_writes(mi, "self.qualified_name_without_version") if mi.nodes(st_)]
        tails = [st_ for (st_, v_, aug_) in writes if _mod_fn_tail(v_, mi.nodes(st_)[0])]
        tail_nodes = mi.nodes_all(tails)
        ok3 = bool(tails) and mi.cfg.must_pass(tail_nodes, mi.cfg.exit)
        if ok3:
            after = mi.cfg.reach(tail_nodes, include_start=False)
            ok3 = not any(i in after for (st_, v_, aug_) in writes if st_ not in tails for i in mi.nodes(st_))
        ck.ob(R2, mi.key(None, "module-function"), ok3, "unversioned name = module%sfunction qualname" % d_module if ok3 else
              "the unversioned name is no longer module + %r + qualname" % d_module, mi.where())
        # the versioned qualified name of a dependency is reduced to what precedes its FIRST version delimiter — in
        # resolve_to_symbolic_names or whichever helper of it does the cut (nested, or hoisted to module level)
        units = [FA(ck, fi_) for fi_ in _helper_units(ck, ck.repo.func("code_hash.resolve_to_symbolic_names"))]
        cuts = [(f_, _cut_calls(list(A.walk_body(f_.node)), d_version)) for f_ in units]
        with_cut = [f_ for (f_, (fs_, ls_)) in cuts if fs_ or ls_]
        nested = [f_ for f_ in units if f_.fi.name == "resolve_to_symbol"]
        rfa = with_cut[0] if with_cut else nested[0] if nested else units[0]
        firsts = [(f_, c) for (f_, (fs_, ls_)) in cuts for c in fs_]
        lasts = [c for (f_, (fs_, ls_)) in cuts for c in ls_]
        on_name = [c for (f_, c) in firsts if f_.nodes(c) and "qualified_name" in {n.attr for (n, a_) in flow_nodes(f_, c.func.value, f_.nodes(c)[0]) if isinstance(n, ast.Attribute)}]
        okc = bool(on_name) and not lasts and all(_prefix_before_first(f_, c, d_version) for (f_, c) in firsts)
        ck.ob(R2, rfa.key(None, "cut-first-hash"), okc, "the symbolic name is cut at the first %r" % d_version if okc else
              "the symbolic dependency name is not cut at the first %r (a version containing it would leak into the name)" % d_version, rfa.where())
        # what is stored as the name without its cluster prefix is cut at the FIRST cluster delimiter
        wc = [(st_, v_) for (st_, v_, _aug) in attr_writes(ini, "self._qualified_name_without_cluster") if ini.nodes(st_)]
        ok4 = bool(wc)
        for (st_, v_) in wc:
            f_, l_ = _cut_calls([n for (n, a_) in flow_nodes(ini, v_, ini.nodes(st_)[0])], d_cluster)
            ok4 = ok4 and bool(f_) and not l_
        ck.ob(R2, ini.key(None, "without-cluster"), ok4, "the cluster prefix is cut at the first %r" % d_cluster if ok4 else
              "qualified_name_without_cluster is not cut at the first %r" % d_cluster, ini.where())
        ck.run(check_single_cluster_prefix, ck, R2, ini, d_cluster, d_module)
        # the cluster delimiter is looked for in the name BEFORE the version is appended: the
        # version is unrestricted and may itself contain the delimiter
        probes = []
        for n in A.walk_body(ini.node):
            if isinstance(n, ast.Compare) and len(n.ops) == 1 and isinstance(n.ops[0], (ast.In, ast.NotIn)) and A.const_str(n.left) == d_cluster:
                probes.append((n, n.comparators[0]))
            if isinstance(n, ast.Call) and A.call_attr(n) in ("find", "index", "split", "partition") and n.args and A.const_str(n.args[0]) == d_cluster:
                probes.append((n, A.call_recv(n)))
        for (n, subject) in probes:
            d = ini.deps(subject)
            tainted = "param:version" in d or "call:version" in d
            ck.ob(R2, ini.qual + "::delimiter-probe::" + A.norm(subject), not tainted,
                  "the cluster delimiter is looked for in the unversioned name" if not tainted else
                  "`%s` looks for %r in a string that already contains the version: a version containing %r (e.g. 'a::b') is taken for a cluster "
                  "prefix, so the cluster is dropped from an external reference and qualified_name_without_cluster is cut inside the version"
                  % (A.short(n, 50), d_cluster, d_cluster), ini.where(n))

    from .c05 import check_strip_is_not_prefix_removal
    ck.run(check_listing_inverts_escape, ck, R2)
    ck.run(check_strip_is_not_prefix_removal, ck, R2)
    ck.run(check_cluster_name_validated, ck, R2, shape)
    from .c11 import check_reference_resolved_afresh
    ck.run(check_reference_resolved_afresh, ck, R3)
    ck.run(check_stub_from_stored_state, ck, R3)
    # ---- R3 (a): handler coverage in from_qualified_name
    fq = FA(ck, FR + ".from_qualified_name")
    ff = FA(ck, FR + "._find_function")
    may = set()
    frcls = ck.repo.cls(FR)
    # the lookup: the call of _find_function — or, when that private helper was inlined into from_qualified_name
    # (FA falls back on the host), the import walk itself; its failures are those raised inside the guarded region
    host_mode = ff.fi is fq.fi
    fcalls = fq.calls("_find_function")
    if not fcalls and host_mode:
        fcalls = fq.calls("import_module")
    fcall = fq.one(fcalls, "_find_function call")
    region = [t_ for t_ in fq.stmts(ast.Try) if any(fq.inside(fcall, b) for b in t_.body)]

    def in_region(node):
        return any(fq.inside(node, b) for t_ in region for b in t_.body)

    lookup_fns = [ff]
    for c in ff.calls():
        # helpers of the same class the lookup delegates to (one level)
        if host_mode and not in_region(c):
            continue
        if isinstance(c.func, ast.Attribute) and A.norm(c.func.value) in ("FunctionReference", "cls", "self") and c.func.attr in frcls.methods \
                and c.func.attr not in ("_find_function", "from_qualified_name"):
            lookup_fns.append(FA(ck, frcls.methods[c.func.attr]))
    def raised_types(f, exc, depth=0):
        """Names of the exception classes `raise <exc>` may raise: the class called / named on the spot, or what a
        helper of this repository that builds the exception returns."""
        if isinstance(exc, ast.Call):
            try:
                cands, how = ck.cg.resolve(exc, f.fi)
            except Exception:  # noqa
                cands, how = [], "unresolved"
            if how in ("typed", "module", "nested") and len(cands) == 1 and depth < 3:
                h = FA(ck, cands[0])
                out = set()
                for r_ in h.returns():
                    if r_.value is not None:
                        out |= raised_types(h, r_.value, depth + 1)
                if out:
                    return out
            return {A.call_attr(exc)}
        if isinstance(exc, (ast.Name, ast.Attribute)):
            nm = A.norm(exc).split(".")[-1]
            return {nm} if nm[:1].isupper() else set()
        return set()

    for f in lookup_fns:
        for r in f.stmts(ast.Raise):
            if host_mode and f is ff and not in_region(r):
                continue
            if r.exc is not None:
                may |= raised_types(f, r.exc)
        for c in f.calls():
            nm = A.call_attr(c)
            if nm == "import_module":
                may.add("ModuleNotFoundError")
            if nm == "getattr" and len(c.args) == 2:
                may.add("AttributeError")
    # the lookup asks the function for its version: whatever computing a version can raise
    # (explicit raises of the package's own exception classes reachable from version()) can
    # escape here too
    if any(A.call_attr(c) == "version" for f in lookup_fns for c in f.calls()):
        vroot = ck.repo.try_func("memento.MementoFunction.version")
        if vroot is not None:
            exc_classes = {c.name for c in ck.repo.module("exception").all_classes()} | {"FunctionNotFoundError"}
            prev = ck.cg.reachable([vroot])
            for q in prev:
                fi_ = ck.cg.funcs[q]
                for r_ in [n for n in A.walk_body(fi_.node) if isinstance(n, ast.Raise) and isinstance(n.exc, ast.Call)]:
                    nm = A.call_attr(r_.exc)
                    if nm in exc_classes:
                        may.add(nm)
    # every function the lookup hands out comes from a fresh import walk followed by the version
    # check (a function remembered from an earlier lookup may have been edited or removed since)
    def fresh_resolver(f):
        d = set()
        for r in f.returns():
            if r.value is not None:
                d |= f.deps(r.value)
        has_cmp = any(isinstance(n, ast.Compare) and "version" in A.norm(n) and isinstance(n.ops[0], (ast.NotEq, ast.Eq)) for n in A.walk_body(f.node))
        return "call:import_module" in d and has_cmp
    helpers_fresh = {f.fi.name for f in lookup_fns[1:] if fresh_resolver(f)}
    for r in ff.returns():
        if r.value is None or (host_mode and not in_region(r)):
            continue
        names = [n.id for n in ast.walk(r.value) if isinstance(n, ast.Name) and ff.df.is_local(n.id) and n.id not in ff.fi.params]
        bad = []
        for nm in set(names):
            for i in ff.nodes(r):
                for d in ff.df.reaching(i, nm):
                    if d.value is None or d.kind != "assign":
                        continue
                    dd = ff.df.deps(d.value, d.node)
                    via_helper = any(("call:" + h) in dd for h in helpers_fresh)
                    if "call:import_module" not in dd and not via_helper and ("call:get" in dd or "op:subscript" in dd) \
                            and any(x.startswith("global:") and x[7:] not in ("ArgumentHasher", "importlib", "FunctionReference", "MementoFunctionType", "callable", "isinstance", "getattr", "tuple", "list", "ValueError") for x in dd):
                        bad.append((nm, d))
        if bad:
            ck.ob(R3, ff.key(r, "lookup-is-fresh"), False,
                  "the function returned by the lookup can come from `%s` instead of a fresh import walk and version check: after the callee is "
                  "edited or removed, stored references to its old version keep resolving to the stale function instead of becoming external"
                  % A.short(bad[0][1].value, 60), ff.where(bad[0][1].stmt))
    def _version_compares(f):
        """Comparisons (== / !=) one side of which is the looked-up function's current version()."""
        out = []
        for n in A.walk_body(f.node):
            if isinstance(n, ast.Compare) and len(n.ops) == 1 and isinstance(n.ops[0], (ast.Eq, ast.NotEq)) and f.nodes(n):
                sides = [f.xnorm(n.left, f.nodes(n)[0]), f.xnorm(n.comparators[0], f.nodes(n)[0])]
                if any(".version()" in x_ for x_ in sides):
                    out.append(n)
        return out
    vc = [n for f in lookup_fns for n in _version_compares(f)]
    ck.ob(R3, ff.key(None, "version-checked"), bool(vc), "the looked-up function's current version is compared with the stored one" if vc else
          "the lookup no longer compares memento_fn.version() with the stored version", ff.where())
    handlers = []
    n = fcall
    while n is not None:
        p = fq.pm.get(n)
        if isinstance(p, ast.Try) and any(fq.inside(fcall, b) for b in p.body):
            for h in p.handlers:
                handlers += ["BaseException" if t is None else t for t in _handler_types(fq, h)]
        n = p
    sup = {"ModuleNotFoundError": {"ImportError", "Exception"}, "AttributeError": {"Exception"}, "ValueError": {"Exception"},
           "FunctionNotFoundError": {"ValueError", "Exception"}}
    for c_ in ck.repo.module("exception").all_classes():
        sup.setdefault(c_.name, set()).update({b.name for b in ck.repo.mro(c_)[1:]} | set(c_.base_exprs) | {"Exception"})
    esc = [e for e in may if e not in handlers and not (sup.get(e, set()) & set(handlers)) and "BaseException" not in handlers]
    ck.ob(R3, fq.key(fcall, "lookup-failures-caught"), not esc and len(may) >= 3,
          "everything the lookup may raise (%s) falls back to an external reference" % sorted(may) if not esc else
          "%s raised while looking the function up escapes from_qualified_name: a removed / renamed dependency makes stored metadata unreadable" % sorted(esc), fq.where(fcall))
    # the fallback is taken when the handler fires: from every handler of the lookup, each way out of the
    # function (return or raise) passes the construction of the unbound external stub — whether the handler
    # sets a flag that is tested afterwards, falls through to the stub, or builds it itself
    ub = fq.calls("UnboundExternalMementoFunction")
    stub_nodes = fq.nodes_all(ub)
    hnodes = [i for t_ in fq.stmts(ast.Try) if any(fq.inside(fcall, b) for b in t_.body) for h in t_.handlers for i in fq.cfg.nodes_of(h)]
    okf = bool(stub_nodes) and bool(hnodes) and not any(reaches_avoiding(fq, h, stub_nodes, [fq.cfg.exit, fq.cfg.raise_exit]) for h in hnodes)
    ck.ob(R3, fq.key(None, "fallback"), okf, "a failed lookup constructs the unbound external stub" if okf else
          "from_qualified_name no longer falls back to UnboundExternalMementoFunction", fq.where())
    # (b) asserts on the fallback path under the call-site bindings
    if ub:
        call = ub[0]
        binding = {}
        # nullability of a parse result comes from the pattern: `module` and `function` are
        # mandatory groups (shape check above), `cluster` and `version` optional
        at_call = fq.nodes(call)[0]

        def nullability(v):
            """NotNone / None / Maybe for the (expanded) argument expression."""
            if isinstance(v, ast.Constant):
                return NONE if v.value is None else NOTNONE
            if isinstance(v, (ast.List, ast.Tuple, ast.Dict, ast.Set, ast.JoinedStr, ast.ListComp, ast.DictComp, ast.SetComp)):
                return NOTNONE
            if isinstance(v, ast.IfExp):
                # `x if x is not None else <d>` / `<d> if x is None else x`: x on its arm is not None
                arms = []
                for (arm, pos) in ((v.body, True), (v.orelse, False)):
                    t_ = v.test
                    if isinstance(t_, ast.Compare) and len(t_.ops) == 1 and A.is_none(t_.comparators[0]) and A.norm(t_.left) == A.norm(arm) \
                            and ((isinstance(t_.ops[0], ast.IsNot) and pos) or (isinstance(t_.ops[0], ast.Is) and not pos)):
                        arms.append(NOTNONE)
                    else:
                        arms.append(nullability(arm))
                return arms[0] if arms[0] == arms[1] else MAYBE
            if isinstance(v, ast.BoolOp) and isinstance(v.op, ast.Or):
                return NOTNONE if nullability(v.values[-1]) == NOTNONE else MAYBE
            # a mandatory group of the parsed name, read off the parse result by subscript or .get
            base = key = None
            if isinstance(v, ast.Subscript) and A.const_str(v.slice):
                base, key = v.value, A.const_str(v.slice)
            elif isinstance(v, ast.Call) and isinstance(v.func, ast.Attribute) and v.func.attr in ("get", "__getitem__", "group") and v.args and A.const_str(v.args[0]):
                base, key = v.func.value, A.const_str(v.args[0])
            if shape is not None and key in ("module", "function") and isinstance(base, ast.Call) and A.call_attr(base) == "parse_qualified_name":
                return NOTNONE
            return MAYBE

        from .c11 import _bound_args, _unrolled
        ue = ck.repo.func("external.UnboundExternalMementoFunction.__init__")
        ue_params = [a.arg for a in ue.node.args.args if a.arg != "self"]
        # (names bound by unpacking a literal table of parts are read as the single assignments they stand for)
        fqu = _unrolled(fq)
        call_u = fqu.calls("UnboundExternalMementoFunction")[0] if fqu is not fq else call
        bound = _bound_args(fqu, call_u, ue_params)
        if bound is None:
            raise AnalysisError("from_qualified_name builds the external stub with */** arguments: bindings cannot be told")
        for p_, (v_, a_) in bound.items():
            binding[p_] = nullability(fqu.expand(v_, a_))
        env = {}
        defaults = ue.node.args.defaults
        params = [a.arg for a in ue.node.args.args]
        for i, p in enumerate(params):
            if p == "self":
                env[p] = NOTNONE
                continue
            if p in binding:
                env[p] = binding[p]
            else:
                di = i - (len(params) - len(defaults))
                dv = defaults[di] if di >= 0 else None
                env[p] = NONE if dv is not None and A.is_none(dv) else MAYBE
        n1 = _check_asserts(ck, R3, ue, env, "external-stub")
        # FunctionReference.__init__ as called from the stub constructor
        frc = [c for c in A.body_calls(ue.node) if A.call_attr(c) == "FunctionReference"]
        if frc:
            fri = ck.repo.func(FR + ".__init__")
            env2 = {"self": NOTNONE}
            fparams = [a.arg for a in fri.node.args.args]
            fdef = fri.node.args.defaults
            uefa = FA(ck, ue)
            fbound = _bound_args(uefa, frc[0], [p_ for p_ in fparams if p_ != "self"]) if uefa.nodes(frc[0]) else None
            if fbound is None:
                raise AnalysisError("UnboundExternalMementoFunction.__init__ builds its reference with */** arguments: bindings cannot be told")
            for i, p in enumerate(fparams):
                if p == "self":
                    continue
                kv = fbound[p][0] if p in fbound else None
                if kv is not None:
                    if isinstance(kv, ast.Name):
                        env2[p] = env.get(kv.id, MAYBE)
                    elif isinstance(kv, ast.Constant):
                        env2[p] = NONE if kv.value is None else NOTNONE
                    else:
                        env2[p] = MAYBE
                else:
                    di = i - (len(fparams) - len(fdef))
                    dv = fdef[di] if di >= 0 else None
                    env2[p] = NONE if dv is not None and A.is_none(dv) else NOTNONE if dv is not None else MAYBE
            _check_asserts(ck, R3, fri, env2, "reference-of-stub")
            # the stub's cluster_name property must tolerate being read while the reference is built
            prop = ck.repo.func("external.ExternalMementoFunctionBase.cluster_name")
            pfa = FA(ck, prop)
            reads = [n for n in A.walk_body(prop.node) if isinstance(n, ast.Attribute) and A.norm(n) == "self._fn_reference.cluster_name"]
            reads_ref = bool(reads)

            def _ref_present(lit):
                return lit in (("self._fn_reference is None", False), ("self._fn_reference", True))

            def _guarded(n):
                """The read happens only where the reference exists: on every path condition of its statement, or
                inside the arm of a conditional expression / `and` that tests it."""
                x = n
                while x is not None and not isinstance(x, ast.stmt):
                    par = pfa.pm.get(x)
                    if isinstance(par, ast.IfExp) and x is not par.test and pfa.nodes(par):
                        if any(_ref_present(l_) for l_ in pfa._atoms(par.test, pfa.nodes(par)[0], x is par.body)):
                            return True
                    if isinstance(par, ast.BoolOp) and isinstance(par.op, ast.And) and pfa.nodes(par):
                        before = par.values[:par.values.index(x)] if x in par.values else []
                        if any(_ref_present(l_) for v_ in before for l_ in pfa._atoms(v_, pfa.nodes(par)[0], True)):
                            return True
                    x = par
                conds = pfa.conditions(pfa.stmt_of(n)) if pfa.nodes(n) else set()
                return conds is not None and all(any(_ref_present(l_) for l_ in c_) for c_ in conds)

            guarded = all(_guarded(n) for n in reads)
            fr_reads = any(A.norm(n) == "memento_fn.cluster_name" for n in A.walk_body(fri.node) if isinstance(n, ast.Attribute))
            needs_guard = fr_reads and env2.get("cluster_name") != NOTNONE
            okp = (not needs_guard) or (not reads_ref) or guarded
            ck.ob(R3, prop.qual + "::during-construction", okp, "cluster_name of a stub can be read while its reference is being built" if okp else
                  "FunctionReference.__init__ reads memento_fn.cluster_name when no cluster is given, but the stub's property "
                  "dereferences self._fn_reference, which is still None: default-cluster external references raise AttributeError", A.loc(prop, prop.node))
    # (d) an external reference is a valid answer wherever a stored reference is decoded: nothing
    # on the decode path raises because a reference is external
    for modname in ("serialization", "reference", "storage_base"):
        for fi_ in ck.repo.module(modname).all_funcs():
            for r_ in [n for n in A.walk_body(fi_.node) if isinstance(n, ast.Raise)]:
                fx = FA(ck, fi_)
                g = fx.enclosing(r_, ast.If)
                if g is not None and fx.inside(r_, g) and any(r_ is x or fx.inside(r_, x) for x in g.body) and \
                        any(isinstance(n, ast.Attribute) and n.attr == "external" for n in ast.walk(g.test)):
                    ck.ob(R3, fx.key(None, "external-accepted"), False,
                          "`raise` under `%s`: a stored entry that mentions a function which has since been edited or removed (an external reference) "
                          "can no longer be decoded, so the entry stops being served / listings raise" % A.short(g.test, 60), fx.where(r_))
    da = FA(ck, "serialization.MementoCodec.decode_arg")
    # (the refusal may sit in decode_arg itself or in a helper it was moved into: a nested function, a method of the codec)
    rz = []
    for fi_ in _listing_units(ck, da):
        if fi_ is not da.fi and fi_.name.startswith(("decode_", "encode_")) and fi_.cls is da.fi.cls and fi_.parent is None:
            continue  # the codec's other public decoders are not part of decode_arg
        fu = da if fi_ is da.fi else FA(ck, fi_)
        rz += [(fu, r_) for r_ in fu.stmts(ast.Raise) if isinstance(r_.exc, ast.Call) and A.call_attr(r_.exc) == "FunctionNotFoundError" and fu.nodes(r_)]
    # the refusal is reached exactly when the freshly decoded reference has no function object: every path
    # condition of the raise says `<decoded reference>.memento_fn is None`, and says nothing else about the reference
    okd = len(rz) == 1
    if okd:
        fu, rz0 = rz[0]
        conds = fu.conditions(rz0)
        if conds is None:
            raise AnalysisError("decode_arg: too many paths to the FunctionNotFoundError refusal")
        import re as _re
        _no_fn = _re.compile(r"^([A-Za-z_][A-Za-z_0-9]*\.)+decode_fn_reference\(.*\)\.memento_fn is None$")

        def no_fn(lit):
            return lit[1] and bool(_no_fn.match(lit[0]))

        okd = bool(conds) and all(any(no_fn(l_) for l_ in c_) and not any("decode_fn_reference(" in l_[0] and not no_fn(l_) for l_ in c_) for c_ in conds)
    ck.ob(R3, da.key(None, "function-argument-decoding"), okd, "a function-valued argument is refused only when no function object (not even a stub) exists" if okd else
          "decode_arg refuses function references under another condition than `memento_fn is None`", da.where())
    # (c) metadata source treats unresolvable functions as absent; memory backend likewise
    ck.run(check_unresolvable_is_absent, ck, R3)
    ck.run(check_decoded_on_every_read, ck, R3)
    fw = FA(ck, "reference.FunctionReferenceWithArguments.__init__")
    # the refusals reached BECAUSE the reference has no function object (path conditions say `<reference>.memento_fn` is absent) are
    # FunctionNotFoundError - what get_mementos / the decoder turn into "absent"; whatever else the constructor (or a helper written
    # out in it) refuses - a reserved parameter name, an argument of the wrong type - is not this clause's business
    refp = next((p_ for p_ in fw.fi.params if p_ not in ("self", "cls")), "fn_reference")
    absent = {("%s.memento_fn" % refp, False), ("%s.memento_fn is None" % refp, True), ("None is %s.memento_fn" % refp, True),
              ("self.fn_reference.memento_fn", False), ("self.fn_reference.memento_fn is None", True)}
    fnf_names = {"FunctionNotFoundError"}
    for modname in ("exception", "types"):
        for c_ in list(ck.repo.module(modname).all_classes()):
            if any(b.name == "FunctionNotFoundError" for b in ck.repo.mro(c_)[1:]):
                fnf_names.add(c_.name)
    rz = []
    for r in fw.stmts(ast.Raise):
        if not fw.nodes(r):
            continue
        conds = fw.conditions(r)
        if conds is None:
            raise AnalysisError("FunctionReferenceWithArguments.__init__: too many paths to a raise")
        if any(c_ & absent for c_ in conds):
            rz.append(r)
    bad = [r for r in rz if not (isinstance(r.exc, ast.Call) and A.call_attr(r.exc) in fnf_names)]
    okz = bool(rz) and not bad
    ck.ob(R3, fw.key(None, "signals-not-found"), okz, "an unmappable reference is signalled as FunctionNotFoundError" if okz else
          "FunctionReferenceWithArguments signals an unmappable reference with another exception type" if bad else
          "FunctionReferenceWithArguments no longer refuses a reference that cannot be mapped to a function with FunctionNotFoundError",
          fw.where(bad[0]) if bad else fw.where())
