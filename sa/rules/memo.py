"""Obligations for shared tables that are new with respect to the reference inventory and are used
as a memo (looked up before a value is computed, filled afterwards).

A cache put in front of a computation is the commonest way a later change breaks "the answer
reflects the current state": the reference tree has a fixed set of shared tables, each with its own
protocol rules (version cache: C13, mutex table: C09, memory cache: C05/C06, repositories: C18).  A
table that is not in sa/inventory.json has no such rules, so it is held to the generic conditions
under which a memo is transparent:

  key-lossless     the key is not a lossy rendering of what the value depends on (str / repr /
                   json.dumps(default=...) / hash / id of an argument): two inputs that the
                   computation tells apart may not share an entry;
  complete-before-published
                   an object is stored in the table only once it is complete: storing it and then
                   filling it (directly, or by passing it to a call) shows a half-filled entry to a
                   concurrent reader of the same key, which takes it for the finished value;
  invalidated      a value that was obtained from a store (data source / metadata source /
                   backend) or from the function registry is dropped again by some site other than
                   the memo itself; otherwise the table goes on answering from a state that
                   forget_* / a re-definition has since removed.

Only definite flaws are reported; a table that passes is listed in the evidence.  The lint runs over
the modules that implement the property being checked.
"""
import ast
from typing import Dict, List, Optional

from .. import astutil as A
from ..fa import FA
from ..inline import new_tables

LOSSY = {"str", "repr", "hash", "id", "format"}
STORE_CALLS = {"get_versioned_key", "output", "exists_nonversioned", "exists_versioned", "input_versioned", "input_nonversioned", "input_metadata",
               "get_memento", "get_mementos", "read_result", "read_metadata", "list_keys_nonversioned", "is_memoized", "is_all_memoized",
               "store", "load", "all_mementos_exist"}
REGISTRY_CALLS = {"from_qualified_name", "_find_function", "import_module", "version", "fn_reference", "get_cluster", "get_registered_functions",
                  "dependencies", "generate_graph", "list_dotted_names", "resolve_to_symbolic_names"}
MUTATORS = {"append", "add", "update", "extend", "insert", "setdefault", "__setitem__", "appendleft"}
REMOVERS = {"pop", "popitem", "clear", "remove", "discard", "__delitem__"}


class Table:
    def __init__(self, owner: str, name: str, scope: str):
        self.owner = owner      # module or class qualname
        self.name = name        # attribute / global name
        self.scope = scope      # 'module' | 'class' | 'self'

    @property
    def label(self):
        return "%s:%s%s" % (self.owner, "self." if self.scope == "self" else "", self.name)


def _tables(ck, modules) -> List[Table]:
    out = []
    for t in sorted(new_tables(ck.repo)):
        owner, name = t.split(":", 1)
        if owner.split(".")[0] not in modules:
            continue
        if name.startswith("self."):
            out.append(Table(owner, name[5:], "self"))
        elif "." in owner:
            out.append(Table(owner, name, "class"))
        else:
            out.append(Table(owner, name, "module"))
    selfs = {(t.owner, t.name) for t in out if t.scope == "self"}
    # `name = None  # type: ...` at class level plus `self.name = ...` in __init__ is one table
    return [t for t in out if not (t.scope == "class" and (t.owner, t.name) in selfs)]


def _is_table_expr(e, t: Table) -> bool:
    """Does expression `e` designate the table (self.T / cls.T / Class.T / T)?"""
    if t.scope == "module":
        return isinstance(e, ast.Name) and e.id == t.name
    if isinstance(e, ast.Attribute) and e.attr == t.name:
        return True
    return False


def _resolve_alias(fa: FA, e, at_stmt):
    """`cache = Class._table` ... `cache.get(k)`: follow a local alias to what it was assigned."""
    if isinstance(e, ast.Name):
        for i in fa.nodes(at_stmt):
            ds = fa.df.reaching(i, e.id)
            if len(ds) == 1 and ds[0].kind == "assign" and ds[0].value is not None:
                return ds[0].value
    return e


def _uses(fa: FA, t: Table):
    """-> (reads, writes, removals): lists of (stmt, key expr or None, node)."""
    reads, writes, removes = [], [], []
    for st in fa.stmts():
        if isinstance(st, (ast.If, ast.While)):
            exprs = [st.test]
        elif isinstance(st, (ast.For, ast.AsyncFor)):
            exprs = [st.iter]
        elif isinstance(st, (ast.With, ast.AsyncWith)):
            exprs = [i.context_expr for i in st.items]
        elif isinstance(st, (ast.Try, ast.FunctionDef, ast.AsyncFunctionDef, ast.ClassDef)):
            exprs = []
        else:
            exprs = [st]
        for ex in exprs:
            for n in A.walk_local(ex):
                if isinstance(n, ast.Subscript):
                    base = _resolve_alias(fa, n.value, st)
                    # table[k] or table[ds][k] (per-owner sub-table)
                    inner = base.value if isinstance(base, ast.Subscript) else None
                    if isinstance(base, ast.Call) and isinstance(base.func, ast.Attribute) and base.func.attr in ("setdefault", "get"):
                        inner = base.func.value
                    if _is_table_expr(base, t) or (inner is not None and _is_table_expr(_resolve_alias(fa, inner, st), t)):
                        if isinstance(n.ctx, ast.Store):
                            writes.append((st, n.slice, n))
                        elif isinstance(n.ctx, ast.Del):
                            removes.append((st, n.slice, n))
                        else:
                            reads.append((st, n.slice, n))
                elif isinstance(n, ast.Call) and isinstance(n.func, ast.Attribute):
                    base = _resolve_alias(fa, n.func.value, st)
                    sub = base
                    # one level of per-owner sub-table: table.setdefault(owner, {}) / table[owner]
                    if isinstance(base, ast.Call) and isinstance(base.func, ast.Attribute) and base.func.attr in ("setdefault", "get"):
                        sub = _resolve_alias(fa, base.func.value, st)
                    elif isinstance(base, ast.Subscript):
                        sub = _resolve_alias(fa, base.value, st)
                    if _is_table_expr(base, t) or _is_table_expr(sub, t):
                        k = n.args[0] if n.args else None
                        if n.func.attr in ("get", "__getitem__", "__contains__"):
                            reads.append((st, k, n))
                        elif n.func.attr == "setdefault":
                            reads.append((st, k, n))
                            writes.append((st, k, n))
                        elif n.func.attr in REMOVERS:
                            removes.append((st, k, n))
                        elif n.func.attr in MUTATORS:
                            writes.append((st, k, n))
                elif isinstance(n, ast.Compare) and len(n.ops) == 1 and isinstance(n.ops[0], (ast.In, ast.NotIn)):
                    base = _resolve_alias(fa, n.comparators[0], st)
                    if _is_table_expr(base, t):
                        reads.append((st, n.left, n))
    return reads, writes, removes


def _lossy_key(fa: FA, key) -> Optional[str]:
    if key is None:
        return None
    try:
        e = fa.expand(key)
    except Exception:
        e = key
    for n in ast.walk(e):
        if isinstance(n, ast.Call):
            nm = A.call_attr(n)
            if nm == "dumps" and A.kwarg(n, "default") is not None:
                return "json.dumps(..., default=%s) renders every value the encoder does not know through %s" % (A.norm(A.kwarg(n, "default")), A.norm(A.kwarg(n, "default")))
            if isinstance(n.func, ast.Name) and n.func.id in LOSSY and n.args and not isinstance(n.args[0], ast.Constant):
                return "%s(...) of a value" % n.func.id
            if isinstance(n.func, ast.Attribute) and n.func.attr == "format" and isinstance(n.func.value, ast.Constant):
                return "str.format of values"
        if isinstance(n, ast.JoinedStr):
            return "an f-string of values"
    return None


def check_new_memo_tables(ck, rule: str, modules, shared_only_publication: bool = True):
    ck.rule(rule, "memo tables that are new w.r.t. the reference inventory are transparent: lossless key, entries complete "
                  "before they are published, store-/registry-derived values invalidated", 1)
    tables = _tables(ck, modules)
    seen = []
    for t in tables:
        mod = ck.repo.modules.get(t.owner.split(".")[0])
        if mod is None:
            continue
        users = []
        all_removes = []
        for fi in ck.repo.all_funcs():
            if fi.parent is not None:
                continue
            # cheap textual pre-filter
            if not any((isinstance(n, ast.Attribute) and n.attr == t.name) or (isinstance(n, ast.Name) and n.id == t.name) for n in ast.walk(fi.node)):
                continue
            if t.scope == "module" and fi.module is not mod and t.name not in fi.module.imports:
                continue
            fa = FA(ck, fi)
            r, w, rm = _uses(fa, t)
            if r or w or rm:
                users.append((fa, r, w, rm))
            all_removes += [(fa, x) for x in rm]
        memo_users = [(fa, r, w, rm) for (fa, r, w, rm) in users if r and w]
        if not memo_users:
            continue
        seen.append(t.label)
        for (fa, reads, writes, rms) in memo_users:
            # ---- key-lossless
            for (st, key, node) in reads + writes:
                why = _lossy_key(fa, key)
                if why:
                    ck.ob(rule, fa.key(st, "memo-key-lossless:" + t.name), False,
                          "the new memo table %s is keyed by `%s`: %s, so two inputs that the computation distinguishes (a date and its ISO string, 1 and "
                          "True, a function and its repr) share one entry and the second one is answered with the first one's value"
                          % (t.label, A.short(key, 60), why), fa.where(st))
                    break
            # ---- complete-before-published
            if t.scope != "self" or not shared_only_publication:
                for (st, key, node) in writes:
                    stored = None
                    if isinstance(st, ast.Assign):
                        if isinstance(node, ast.Subscript) and node in st.targets:
                            # a = T[k] = value   /   T[k] = name
                            others = [x for x in st.targets if x is not node and isinstance(x, (ast.Name, ast.Attribute))]
                            if isinstance(st.value, ast.Name):
                                stored = A.norm(st.value)
                            elif others and isinstance(st.value, (ast.Call, ast.Dict, ast.List, ast.Set)):
                                stored = A.norm(others[0])
                    if stored is None:
                        continue
                    fills = []
                    for i in fa.nodes(st):
                        for j in fa.cfg.reach([i], include_start=False):
                            nd = fa.cfg.node(j)
                            if nd.ast is None or nd.kind not in ("stmt", "for", "test"):
                                continue
                            body = nd.ast.iter if nd.kind == "for" else nd.ast
                            for x in A.walk_local(body):
                                if isinstance(x, ast.Subscript) and isinstance(x.ctx, ast.Store) and A.norm(x.value) == stored:
                                    fills.append(nd.ast)
                                elif isinstance(x, ast.Call):
                                    if isinstance(x.func, ast.Attribute) and x.func.attr in MUTATORS and A.norm(x.func.value) == stored:
                                        fills.append(nd.ast)
                                    elif any(A.norm(a) == stored for a in list(x.args) + [k.value for k in x.keywords]) and A.call_attr(x) not in ("len", "isinstance", "id", "type", "bool", "debug", "info", "format"):
                                        fills.append(nd.ast)
                    if fills:
                        ck.ob(rule, fa.key(st, "memo-complete-before-published:" + t.name), False,
                              "`%s` puts an object into the shared table %s and only afterwards fills it (`%s`): a second thread that looks the same key up "
                              "in between finds the entry and takes the half-filled object for the finished value"
                              % (A.short(st, 60), t.label, A.short(fills[0], 50)), fa.where(st))
            # ---- invalidated
            derived = set()
            for (st, key, node) in writes:
                val = None
                if isinstance(st, ast.Assign):
                    val = st.value
                elif isinstance(node, ast.Call) and len(node.args) > 1:
                    val = node.args[1]
                if val is None:
                    continue
                try:
                    d = fa.deps(val)
                except Exception:
                    d = set()
                derived |= {x[5:] for x in d if x.startswith("call:") and (x[5:] in STORE_CALLS or x[5:] in REGISTRY_CALLS)}
            if derived:
                # removal sites other than a wholesale size-bound `clear()` inside the memo function itself
                ext = [(f2, x) for (f2, x) in all_removes if not (f2.qual == fa.qual and isinstance(x[2], ast.Call) and A.call_attr(x[2]) in ("clear", "popitem"))]
                ok = bool(ext)
                ck.ob(rule, fa.key(None, "memo-invalidated:" + t.name), ok,
                      "entries of %s are removed again by %s" % (t.label, sorted({f2.qual for f2, _ in ext})) if ok else
                      "the new memo table %s remembers values obtained from %s and no site ever removes them: after forget_* (or a re-definition) "
                      "has removed what they describe, %s keeps answering from the table" % (t.label, sorted(derived), fa.qual), fa.where())
    ck.ob(rule, "memo::scan", True, "%d shared table(s) new w.r.t. the inventory in %s; used as a memo: %s" % (len(tables), list(modules), seen or "none"), "")
