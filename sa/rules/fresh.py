"""Path / freshness helpers shared by several properties.

`every_return_through`  — every normal return of a function is preceded, on every path, by an
unconditionally evaluated call that satisfies a predicate (must-pass-through on the CFG).  Used for
"a stored reference is resolved afresh on every decode", "every batch is handed to
memento_run_batch before anything is raised", ...

`param_mutations` — sites where a function mutates an object it was handed as a parameter
(subscript / attribute store, in-place container methods), directly or through a local alias.
"""
import ast
from typing import Callable, List

from .. import astutil as A
from ..fa import FA

MUTATORS = {"append", "add", "clear", "pop", "popitem", "update", "remove", "insert", "extend", "setdefault", "discard",
            "sort", "reverse", "appendleft", "popleft", "move_to_end", "__setitem__", "__delitem__"}


def every_return_through(ck, rule: str, fa: FA, call_pred: Callable[[ast.Call], bool], tag: str, ok_msg: str, bad_msg: str) -> bool:
    calls = [c for c in fa.calls() if call_pred(c) and fa.unconditional(c)]
    nodes = fa.nodes_all(calls)
    ok = bool(nodes) and fa.cfg.must_pass(nodes, fa.cfg.exit)
    where = fa.where()
    if not ok and nodes:
        p = fa.cfg.path(fa.cfg.entry, fa.cfg.exit, removed=nodes)
        if p:
            bad_msg += " (path %s)" % fa.cfg.describe_path(p)
            rets = [i for i in p if isinstance(fa.cfg.node(i).ast, ast.Return)]
            if rets:
                where = fa.where(fa.cfg.node(rets[-1]).ast)
    ck.ob(rule, fa.key(None, tag), ok, ok_msg if ok else bad_msg, where)
    return ok


def param_mutations(fa: FA, params: List[str]):
    """-> [(stmt, param, how)] for every site that mutates the object bound to one of `params`
    (through the parameter itself or a local alias `x = param`)."""
    out = []
    alias = {p: p for p in params}
    for st in fa.stmts(ast.Assign):
        if len(st.targets) == 1 and isinstance(st.targets[0], ast.Name) and isinstance(st.value, ast.Name) and st.value.id in alias:
            alias[st.targets[0].id] = alias[st.value.id]

    def root_param(e):
        if isinstance(e, ast.Name) and e.id in alias:
            # the name must still hold the parameter object here: every reaching definition is the
            # parameter itself or the alias assignment
            return alias[e.id]
        return None

    for st in fa.stmts():
        tg = []
        if isinstance(st, ast.Assign):
            tg = st.targets
        elif isinstance(st, (ast.AugAssign, ast.AnnAssign)):
            tg = [st.target]
        elif isinstance(st, ast.Delete):
            tg = st.targets
        for t in tg:
            for x in ([t] if not isinstance(t, (ast.Tuple, ast.List)) else t.elts):
                if isinstance(x, (ast.Subscript, ast.Attribute)):
                    p = root_param(x.value)
                    if p is not None and _still_param(fa, x.value, st, p, params):
                        out.append((st, p, "store `%s`" % A.short(x, 40)))
        if not isinstance(st, (ast.If, ast.For, ast.While, ast.With, ast.Try, ast.FunctionDef, ast.AsyncFunctionDef, ast.ClassDef)):
            for c in A.calls_in(st):
                if isinstance(c.func, ast.Attribute) and c.func.attr in MUTATORS:
                    p = root_param(c.func.value)
                    if p is not None and _still_param(fa, c.func.value, st, p, params):
                        out.append((st, p, "`%s`" % A.short(c, 40)))
    return out


def _still_param(fa: FA, name_node, st, p, params) -> bool:
    """All definitions of the name reaching `st` are the parameter binding (or a plain alias of it)."""
    nm = name_node.id
    for i in fa.nodes(st):
        for d in fa.df.reaching(i, nm):
            if d.kind == "param":
                continue
            if d.kind == "assign" and isinstance(d.value, ast.Name) and d.value.id in params:
                continue
            # `p = p if p is not None else {}` / `p = p or {}`: still the caller's object whenever one was given
            if d.kind == "assign" and isinstance(d.value, (ast.IfExp, ast.BoolOp)) and any(
                    isinstance(x, ast.Name) and x.id in params for x in
                    ([d.value.body, d.value.orelse] if isinstance(d.value, ast.IfExp) else d.value.values)):
                continue
            return False
    return True
