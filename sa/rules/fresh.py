"""Path / freshness helpers shared by several properties.

`every_return_through`  — every normal return of a function is preceded, on every path, by an
unconditionally evaluated call that satisfies a predicate (must-pass-through on the CFG).  Used for
"a stored reference is resolved afresh on every decode", "every batch is handed to
memento_run_batch before anything is raised", ...

`param_mutations` — sites where a function mutates an object it was handed as a parameter
(subscript / attribute store, in-place container methods), directly or through a local alias.
"""
import ast
from typing import Callable, List

from .. import astutil as A
from ..fa import FA

MUTATORS = {"append", "add", "clear", "pop", "popitem", "update", "remove", "insert", "extend", "setdefault", "discard",
            "sort", "reverse", "appendleft", "popleft", "move_to_end", "__setitem__", "__delitem__"}


def every_return_through(ck, rule: str, fa: FA, call_pred: Callable[[ast.Call], bool], tag: str, ok_msg: str, bad_msg: str) -> bool:
    calls = [c for c in fa.calls() if call_pred(c) and fa.unconditional(c)]
    nodes = fa.nodes_all(calls)
    ok = bool(nodes) and fa.cfg.must_pass(nodes, fa.cfg.exit)
    where = fa.where()
    if not ok and nodes:
        p = fa.cfg.path(fa.cfg.entry, fa.cfg.exit, removed=nodes)
        if p:
            bad_msg += " (path %s)" % fa.cfg.describe_path(p)
            rets = [i for i in p if isinstance(fa.cfg.node(i).ast, ast.Return)]
            if rets:
                where = fa.where(fa.cfg.node(rets[-1]).ast)
    ck.ob(rule, fa.key(None, tag), ok, ok_msg if ok else bad_msg, where)
    return ok


def param_mutations(fa: FA, params: List[str]):
    """-> [(stmt, param, how)] for every site that mutates the object bound to one of `params`
    (through the parameter itself or a local alias `x = param`)."""
    out = []
    alias = {p: p for p in params}
    for st in fa.stmts(ast.Assign):
        if len(st.targets) == 1 and isinstance(st.targets[0], ast.Name) and isinstance(st.value, ast.Name) and st.value.id in alias:
            alias[st.targets[0].id] = alias[st.value.id]

    def root_param(e):
        if isinstance(e, ast.Name) and e.id in alias:
            # the name must still hold the parameter object here: every reaching definition is the
            # parameter itself or the alias assignment
            return alias[e.id]
        return None

    for st in fa.stmts():
        tg = []
        if isinstance(st, ast.Assign):
            tg = st.targets
        elif isinstance(st, (ast.AugAssign, ast.AnnAssign)):
            tg = [st.target]
        elif isinstance(st, ast.Delete):
            tg = st.targets
        for t in tg:
            for x in ([t] if not isinstance(t, (ast.Tuple, ast.List)) else t.elts):
                if isinstance(x, (ast.Subscript, ast.Attribute)):
                    p = root_param(x.value)
                    if p is not None and _still_param(fa, x.value, st, p, params):
                        out.append((st, p, "store `%s`" % A.short(x, 40)))
        if not isinstance(st, (ast.If, ast.For, ast.While, ast.With, ast.Try, ast.FunctionDef, ast.AsyncFunctionDef, ast.ClassDef)):
            for c in A.calls_in(st):
                if isinstance(c.func, ast.Attribute) and c.func.attr in MUTATORS:
                    p = root_param(c.func.value)
                    if p is not None and _still_param(fa, c.func.value, st, p, params):
                        out.append((st, p, "`%s`" % A.short(c, 40)))
    return out


def _still_param(fa: FA, name_node, st, p, params) -> bool:
    """All definitions of the name reaching `st` are the parameter binding (or a plain alias of it)."""
    nm = name_node.id
    for i in fa.nodes(st):
        for d in fa.df.reaching(i, nm):
            if d.kind == "param":
                continue
            if d.kind == "assign" and isinstance(d.value, ast.Name) and d.value.id in params:
                continue
            # `p = p if p is not None else {}` / `p = p or {}`: still the caller's object whenever one was given
            if d.kind == "assign" and isinstance(d.value, (ast.IfExp, ast.BoolOp)) and any(
                    isinstance(x, ast.Name) and x.id in params for x in
                    ([d.value.body, d.value.orelse] if isinstance(d.value, ast.IfExp) else d.value.values)):
                continue
            return False
    return True


# ---- value flow (meaning of a local, whatever temporaries / helper results carry it) -----------------------
def _bound_names(e) -> set:
    out = set()
    for x in ast.walk(e):
        if isinstance(x, ast.comprehension):
            out |= {n.id for n in ast.walk(x.target) if isinstance(n, ast.Name)}
        if isinstance(x, ast.Lambda):
            out |= {a.arg for a in x.args.args + x.args.kwonlyargs + x.args.posonlyargs}
    return out


def at_of(fa: FA, expr) -> int:
    ids = fa.nodes(expr)
    if not ids:
        from ..loader import AnalysisError
        raise AnalysisError("%s: expression `%s` has no (reachable) CFG node" % (fa.qual, A.short(expr, 60)))
    return ids[0]


def mutation_sites(fa: FA):
    """[(name, cfg node id, [value exprs])]: statements that put values INTO the container held by a local
    name without rebinding it: `x[k] = v`, `x.append(v)`, `x.update(v)`, ...  (a result built by a loop instead
    of a comprehension)."""
    cached = getattr(fa, "_mut_sites", None)
    if cached is not None:
        return cached
    out = []
    for st in fa.stmts():
        if isinstance(st, (ast.If, ast.For, ast.While, ast.With, ast.Try, ast.FunctionDef, ast.AsyncFunctionDef, ast.ClassDef)):
            continue
        ids = fa.nodes(st)
        if not ids:
            continue
        tg = st.targets if isinstance(st, ast.Assign) else [st.target] if isinstance(st, (ast.AugAssign, ast.AnnAssign)) else []
        for t in tg:
            for x in ([t] if not isinstance(t, (ast.Tuple, ast.List)) else t.elts):
                if isinstance(x, ast.Subscript) and isinstance(x.value, ast.Name) and getattr(st, "value", None) is not None:
                    out.append((x.value.id, ids[0], [st.value, x.slice]))
        for c in A.calls_in(st):
            if isinstance(c.func, ast.Attribute) and c.func.attr in MUTATORS and isinstance(c.func.value, ast.Name):
                vals = [a.value if isinstance(a, ast.Starred) else a for a in c.args] + [k.value for k in c.keywords]
                if vals:
                    out.append((c.func.value.id, ids[0], vals))
    fa._mut_sites = out
    return out


def _walk_until(e, stop):
    """ast.walk that yields a node for which `stop` holds but does not go below it."""
    todo = [e]
    while todo:
        n = todo.pop()
        yield n
        if stop is not None and stop(n):
            continue
        todo.extend(ast.iter_child_nodes(n))


def flow_nodes(fa: FA, expr, at: int = None, stop=None):
    """[(ast node, cfg node id)]: every expression node the value of `expr` (evaluated at `at`) may be computed
    from: its own sub-expressions and, through local names, the values of all reaching definitions (plain
    assignments, loop / unpack / with bindings) and what loops put into a container the name holds —
    transitively.  Control dependencies (tests) are NOT part of the flow.  With `stop`, the flow is not followed
    below a node for which stop(node) holds (the node itself is reported): what reaches the value WITHOUT passing it."""
    if at is None:
        at = at_of(fa, expr)
    out = []
    seen = set()
    seen_sites = set()

    def rec(e, at_):
        bound = _bound_names(e)
        for n in (ast.walk(e) if stop is None else _walk_until(e, stop)):
            out.append((n, at_))
            if isinstance(n, ast.Name) and isinstance(n.ctx, ast.Load) and n.id not in bound and fa.df.is_local(n.id):
                defs = fa.df.reaching(at_, n.id)
                for d in defs:
                    if d.value is None or d.kind == "except":
                        continue
                    key = (d.node, d.name)
                    if key in seen:
                        continue
                    seen.add(key)
                    rec(d.value, d.node)
                here = {(d.node, d.name) for d in defs}
                for (nm, site, vals) in mutation_sites(fa):
                    if nm != n.id or (nm, site) in seen_sites:
                        continue
                    there = {(d.node, d.name) for d in fa.df.reaching(site, nm)}
                    if here & there:
                        seen_sites.add((nm, site))
                        for v in vals:
                            rec(v, site)

    rec(expr, at)
    return out


def alternatives(fa: FA, expr, at: int = None, _seen=None):
    """[(expr, cfg node id)]: the expressions whose value `expr` may hold: a local that is only ever bound
    by plain assignments stands for the alternatives of the assigned values, a conditional expression
    for those of its two arms; anything else stands for itself."""
    if at is None:
        at = at_of(fa, expr)
    seen = _seen if _seen is not None else set()
    if isinstance(expr, ast.IfExp):
        return alternatives(fa, expr.body, at, seen) + alternatives(fa, expr.orelse, at, seen)
    if isinstance(expr, ast.Name) and fa.df.is_local(expr.id):
        defs = fa.df.reaching(at, expr.id)
        if defs and all(d.kind == "assign" and d.value is not None for d in defs):
            out = []
            for d in defs:
                key = (d.node, d.name)
                if key in seen:
                    continue
                seen.add(key)
                out += alternatives(fa, d.value, d.node, seen)
            return out
    return [(expr, at)]


def value_cases(fa: FA, expr, at: int = None, _seen=None):
    """Like `alternatives`, for values that may be BUILT UP after they are bound: a local that statements put
    things into (`acc = []` ... `acc.append(x)`) stands for itself — its contents are part of its value flow, which
    the literal it was bound to does not show."""
    if at is None:
        at = at_of(fa, expr)
    seen = _seen if _seen is not None else set()
    if isinstance(expr, ast.IfExp):
        return value_cases(fa, expr.body, at, seen) + value_cases(fa, expr.orelse, at, seen)
    if isinstance(expr, ast.Name) and fa.df.is_local(expr.id) and not any(nm == expr.id for (nm, _s, _v) in mutation_sites(fa)):
        defs = fa.df.reaching(at, expr.id)
        if defs and all(d.kind == "assign" and d.value is not None for d in defs):
            out = []
            for d in defs:
                key = (d.node, d.name)
                if key in seen:
                    continue
                seen.add(key)
                out += value_cases(fa, d.value, d.node, seen)
            return out
    return [(expr, at)]


def guarded_cases(fa: FA, e, at, lits=(), _seen=None):
    """[(case, cfg node, literals)]: the values `e` may hold, each with the literals of the conditional
    expressions / `or` chains that select it; a local bound by plain assignments (or still holding a parameter)
    stands for what was assigned.  case = ('param', name) for a parameter, else ('expr', node)."""
    seen = _seen if _seen is not None else set()
    lits = tuple(lits)
    if isinstance(e, ast.IfExp):
        return guarded_cases(fa, e.body, at, lits + tuple(fa._atoms(e.test, at, True)), seen) + \
            guarded_cases(fa, e.orelse, at, lits + tuple(fa._atoms(e.test, at, False)), seen)
    if isinstance(e, ast.BoolOp) and isinstance(e.op, ast.Or):
        out, neg = [], ()
        for i, v in enumerate(e.values):
            last = i == len(e.values) - 1
            out += guarded_cases(fa, v, at, lits + neg + (() if last else tuple(fa._atoms(v, at, True))), seen)
            neg += tuple(fa._atoms(v, at, False))
        return out
    if isinstance(e, ast.Name) and fa.df.is_local(e.id):
        defs = fa.df.reaching(at, e.id)
        if defs and all(d.kind == "param" or (d.kind == "assign" and d.value is not None) for d in defs):
            out = []
            for d in defs:
                if d.kind == "param":
                    out.append((("param", d.name), at, lits))
                    continue
                key = (d.node, d.name)
                if key in seen:
                    continue
                seen.add(key)
                out += guarded_cases(fa, d.value, d.node, lits, seen)
            return out
    return [(("expr", e), at, lits)]


def param_rooted(fa: FA, name_node, at: int, param: str) -> bool:
    """Does the Name hold the object bound to parameter `param` here (the parameter itself or a plain alias)?"""
    if not isinstance(name_node, ast.Name):
        return False
    todo = [(name_node.id, at)]
    seen = set()
    while todo:
        nm, a_ = todo.pop()
        defs = fa.df.reaching(a_, nm)
        if not defs:
            return False
        for d in defs:
            if d.kind == "param":
                if d.name != param:
                    return False
                continue
            if d.kind == "assign" and isinstance(d.value, ast.Name):
                if (d.node, d.name) not in seen:
                    seen.add((d.node, d.name))
                    todo.append((d.value.id, d.node))
                continue
            return False
    return True


def attr_writes(fa: FA, dotted: str):
    """[(stmt, value expr, augmented?)] for every statement that stores into the attribute chain `dotted`
    ('self._x'), also as one element of a tuple assignment `self._a, self._b = (x, y)`."""
    out = []
    for st in fa.stmts((ast.Assign, ast.AugAssign, ast.AnnAssign)):
        if isinstance(st, ast.AugAssign):
            if A.dotted(st.target) == dotted:
                out.append((st, st.value, True))
            continue
        if getattr(st, "value", None) is None:
            continue
        for t in (st.targets if isinstance(st, ast.Assign) else [st.target]):
            if A.dotted(t) == dotted:
                out.append((st, st.value, False))
            elif isinstance(t, (ast.Tuple, ast.List)):
                for i, e in enumerate(t.elts):
                    if A.dotted(e) == dotted:
                        v = st.value
                        if isinstance(v, (ast.Tuple, ast.List)) and len(v.elts) == len(t.elts) and not any(isinstance(x, ast.Starred) for x in v.elts):
                            out.append((st, v.elts[i], False))
                        else:
                            out.append((st, v, False))
    return out


def static_value(fa: FA, e, at, depth=0):
    """The literal a table name denotes: a local bound once, a module-level NAME = <literal>, a class-level
    attribute read as cls.NAME / self.NAME / <Class>.NAME; wrappers tuple(..) / list(..) / frozenset(..) / set(..) /
    dict(..) of one literal are looked through.  Anything else is returned as it is."""
    if depth > 6 or e is None:
        return e
    if isinstance(e, ast.Name):
        if fa.df.is_local(e.id):
            ds = fa.df.reaching(at, e.id) if at is not None else []
            if len(ds) == 1 and ds[0].kind == "assign" and ds[0].value is not None:
                return static_value(fa, ds[0].value, ds[0].node, depth + 1)
            return e
        v = fa.fi.module.assigns.get(e.id)
        return static_value(fa, v, None, depth + 1) if v is not None else e
    if isinstance(e, ast.Attribute) and isinstance(e.value, ast.Name):
        cls = getattr(fa.fi, "cls", None)
        cnode = getattr(cls, "node", None)
        if cnode is not None and (e.value.id in ("cls", "self") or e.value.id == cnode.name):
            for st in cnode.body:
                if isinstance(st, ast.Assign) and any(isinstance(t, ast.Name) and t.id == e.attr for t in st.targets):
                    return static_value(fa, st.value, None, depth + 1)
                if isinstance(st, ast.AnnAssign) and isinstance(st.target, ast.Name) and st.target.id == e.attr and st.value is not None:
                    return static_value(fa, st.value, None, depth + 1)
        return e
    if isinstance(e, ast.Call) and isinstance(e.func, ast.Name) and e.func.id in ("tuple", "list", "frozenset", "set", "dict", "OrderedDict") and len(e.args) == 1 and not e.keywords:
        return static_value(fa, e.args[0], at, depth + 1)
    return e


def class_units(ck, fa: FA, limit=12):
    """A function together with the pieces it was split into: the function itself, its nested functions and every
    function of its class / module it refers to (called on the spot, or picked first — `walker = self._walk_flat` — and
    called later), transitively.  -> [FuncInfo]"""
    cls = fa.fi.cls
    out, todo = [], [fa.fi]
    while todo and len(out) < limit:
        fi = todo.pop(0)
        if any(fi is x for x in out):
            continue
        out.append(fi)
        todo += list(fi.nested.values())
        for n in A.walk_body(fi.node):
            tgt = None
            if isinstance(n, ast.Attribute) and isinstance(n.value, ast.Name) and isinstance(n.ctx, ast.Load) and cls is not None \
                    and n.value.id in ("self", "cls", cls.node.name) and n.attr in cls.methods:
                tgt = cls.methods[n.attr]
            elif isinstance(n, ast.Name) and isinstance(n.ctx, ast.Load) and n.id in fi.module.functions:
                tgt = fi.module.functions[n.id]
            if tgt is not None and not any(tgt is x for x in out) and not any(tgt is x for x in todo):
                todo.append(tgt)
    return out


def _simplify(conds):
    cs = set(conds)
    changed = True
    while changed:
        changed = False
        lst = list(cs)
        for i in range(len(lst)):
            for j in range(i + 1, len(lst)):
                a, b = lst[i], lst[j]
                diff = a ^ b
                if len(diff) == 2:
                    x, y = tuple(diff)
                    if x[0] == y[0] and x[1] != y[1]:
                        cs.discard(a)
                        cs.discard(b)
                        cs.add(a & b)
                        changed = True
                        break
            if changed:
                break
        if not changed:
            for a in list(cs):
                if any(b < a for b in cs):
                    cs.discard(a)
                    changed = True
    return cs


def return_cases(fa: FA, cap: int = 4000):
    """What the function returns, per path class: [(value expr or None for an implicit `return`, cfg node id,
    set of frozensets of branch literals)].  A returned local stands for the value last assigned to it ON THAT
    PATH (result-variable style and early-return style give the same cases); conditional expressions are split
    into their arms.  Literals are those of FA.conditions.  None when there are too many paths."""
    cfg = fa.cfg
    res = {}
    count = [0]

    def resolve(v, at_, env):
        hops = 0
        while isinstance(v, ast.Name) and v.id in env and hops < 20:
            v, at_ = env[v.id]
            hops += 1
        return v, at_

    def split(v, at_, env):
        v, at_ = resolve(v, at_, env)
        if isinstance(v, ast.IfExp):
            out = []
            for (l_, x_, a_) in split(v.body, at_, env):
                out.append((fa._atoms(v.test, at_, True) + l_, x_, a_))
            for (l_, x_, a_) in split(v.orelse, at_, env):
                out.append((fa._atoms(v.test, at_, False) + l_, x_, a_))
            return out
        return [([], v, at_)]

    def dfs(n, onpath, lits, env, ret):
        if count[0] > cap:
            return
        if n == cfg.exit:
            count[0] += 1
            cases = ret if ret is not None else [([], None, n)]
            for (extra, v, a_) in cases:
                if any((x[0], not x[1]) in lits for x in extra):
                    continue
                key = id(v) if v is not None else 0
                res.setdefault(key, [v, a_, set()])[2].add(frozenset(lits + [x for x in extra if x not in lits]))
            return
        nd = cfg.node(n)
        if nd.kind == "stmt" and isinstance(nd.ast, ast.Return):
            ret = split(nd.ast.value, n, env) if nd.ast.value is not None else [([], None, n)]
        gen = fa.df.gen.get(n, [])
        if gen:
            env = dict(env)
            for d in gen:
                if d.kind == "assign" and d.value is not None and "." not in d.name:
                    env[d.name] = (d.value, n)
                else:
                    env.pop(d.name, None)
        for (d, l) in cfg.succ[n]:
            if d in onpath or l == "exc":
                continue
            add = []
            if nd.kind == "test" and l in ("T", "F") and not isinstance(fa.pm.get(nd.ast), ast.While):
                add = fa._atoms(nd.ast, n, l == "T")
            if any((a[0], not a[1]) in lits for a in add):
                continue
            onpath.add(d)
            dfs(d, onpath, lits + [a for a in add if a not in lits], env, ret)
            onpath.discard(d)

    dfs(cfg.entry, {cfg.entry}, [], {}, None)
    if count[0] > cap:
        return None
    return [(v, a_, _simplify(conds)) for (v, a_, conds) in res.values()]


def path_cases(fa: FA, expr, at: int, also=(), cap: int = 20000):
    """What `expr`, evaluated at cfg node `at`, holds per path class: [(value expr, cfg node where that value was
    computed, set of frozensets of branch literals)].  A local stands for the value last assigned to it ON THAT PATH
    (`x = default` ... `if c: x = other` gives `other` under c and `default` under not c — whatever the spelling:
    default first, if/else, conditional expression, `a or b`); the literals are those of FA.conditions plus the tests
    of the conditional expressions / `or` chains that select the value.  Only branch literals that mention a name the
    value is computed from (or one of `also`) are kept: the others cannot tell the cases apart, and dropping them keeps
    the number of path classes small whatever else the function branches on.  None when there are too many."""
    import re as _re
    cfg = fa.cfg
    res = {}
    count = [0]
    alts_memo = getattr(fa, "_alts_memo", None)
    if alts_memo is None:
        alts_memo = fa._alts_memo = {}

    # names the value may be computed from (flow-insensitive closure over plain assignments, tests of conditional values included)
    rel = {n.id for n in ast.walk(expr) if isinstance(n, ast.Name)} | set(also)
    changed = True
    while changed:
        changed = False
        for defs in fa.df.gen.values():
            for d in defs:
                if d.name in rel and d.value is not None:
                    new = {n.id for n in ast.walk(d.value) if isinstance(n, ast.Name)} - rel
                    if new:
                        rel |= new
                        changed = True
    word = _re.compile(r"(?<![A-Za-z0-9_.])(%s)(?![A-Za-z0-9_])" % "|".join(sorted(_re.escape(x) for x in rel))) if rel else None
    keep_memo = {}
    # tests that decide WHETHER one of those names is (re)bound, or whether the way to `at` is left early: the tests
    # of the if / while statements around such a binding / jump keep all their literals
    deciding = set()
    for st in fa.stmts():
        binds = isinstance(st, (ast.Return, ast.Raise, ast.Break, ast.Continue)) or \
            (isinstance(st, (ast.Assign, ast.AugAssign, ast.AnnAssign, ast.For, ast.With, ast.Delete))
             and any(isinstance(n, ast.Name) and isinstance(n.ctx, (ast.Store, ast.Del)) and n.id in rel for n in ast.walk(st)))
        if not binds:
            continue
        x = fa.pm.get(st)
        while x is not None and not isinstance(x, (ast.FunctionDef, ast.AsyncFunctionDef)):
            if isinstance(x, (ast.If, ast.While)):
                deciding.add(id(x.test))
            x = fa.pm.get(x)

    def keep(lit):
        if lit[0] not in keep_memo:
            keep_memo[lit[0]] = bool(word is not None and word.search(lit[0]))
        return keep_memo[lit[0]]

    def resolve(v, at_, env):
        hops = 0
        while isinstance(v, ast.Name) and v.id in env and hops < 20:
            v, at_ = env[v.id]
            hops += 1
        return v, at_

    def split(v, at_, env, depth=0):
        v, at_ = resolve(v, at_, env)
        if depth > 8:
            return [([], v, at_)]
        if isinstance(v, ast.IfExp):
            out = []
            for (pol, arm) in ((True, v.body), (False, v.orelse)):
                for c_alt in fa._alts(v.test, at_, pol):
                    for (l_, x_, a_) in split(arm, at_, env, depth + 1):
                        out.append((c_alt + [l for l in l_ if l not in c_alt], x_, a_))
            return out
        if isinstance(v, ast.BoolOp) and isinstance(v.op, ast.Or):
            out, neg = [], []
            for i, x in enumerate(v.values):
                last = i == len(v.values) - 1
                for (l_, x_, a_) in split(x, at_, env, depth + 1):
                    out.append((neg + ([] if last else fa._atoms(x, at_, True)) + l_, x_, a_))
                neg = neg + fa._atoms(x, at_, False)
            return out
        return [([], v, at_)]

    def step_env(n, env):
        gen = fa.df.gen.get(n, [])
        if not gen or not any(d.name in rel for d in gen):
            return env
        env = dict(env)
        for d in gen:
            if d.name not in rel:
                continue
            if d.kind == "assign" and d.value is not None and "." not in d.name:
                env[d.name] = (d.value, n)
            else:
                env.pop(d.name, None)
        return env

    seen = set()
    stack = [(cfg.entry, (), {})]
    while stack:
        n, lits, env = stack.pop()
        state = (n, lits, tuple(sorted((k, v[1]) for k, v in env.items())))
        if state in seen:
            continue
        seen.add(state)
        count[0] += 1
        if count[0] > cap:
            return None
        if n == at:
            for (extra, v, a_) in split(expr, at, env):
                if any((x[0], not x[1]) in lits for x in extra) or any((x[0], not x[1]) in extra for x in extra):
                    continue
                res.setdefault(id(v), [v, a_, set()])[2].add(frozenset(lits) | frozenset(extra))
            continue
        nd = cfg.node(n)
        after = step_env(n, env)
        for (d, l) in cfg.succ[n]:
            adds = [[]]
            if nd.kind == "test" and l in ("T", "F") and not isinstance(fa.pm.get(nd.ast), ast.While):
                if (n, l) not in alts_memo:
                    alts_memo[(n, l)] = fa._alts(nd.ast, n, l == "T")
                adds = alts_memo[(n, l)]
            whole = nd.kind == "test" and id(nd.ast) in deciding
            for add in adds:
                if not whole:
                    add = [a for a in add if keep(a)]
                if any((a[0], not a[1]) in lits for a in add):
                    continue
                stack.append((d, tuple(sorted(set(lits) | set(add))), env if l == "exc" else after))
    return [(v, a_, _simplify(conds)) for (v, a_, conds) in res.values()]


def flag_conditions(fa: FA, name: str, pol: bool):
    """The conditions (DNF: set of frozensets of literals) under which the local `name`, where it is used as a branch
    test, comes out `pol`: a verdict prepared in a flag (`needs = c is not None` ... `if other: needs = False` ...
    `if needs:`) opened up into the tests that decided it.  None when the flag cannot be opened (not a local bound by
    plain assignments, too many paths)."""
    if not fa.df.is_local(name):
        return None
    tests = [n.id for n in fa.cfg.nodes if n.kind == "test" and any(isinstance(x, ast.Name) and x.id == name for x in ast.walk(n.ast))]
    if not tests:
        return None
    live = fa.cfg.reachable_nodes()
    out = set()
    for t in tests:
        if t not in live:
            continue
        cases = path_cases(fa, ast.Name(id=name, ctx=ast.Load()), t)
        if cases is None:
            return None
        for (v, a_, conds) in cases:
            if isinstance(v, ast.Name) and v.id == name:
                return None  # (not bound by a plain assignment on some path: a parameter, a loop variable)
            truth = bool(v.value) if isinstance(v, ast.Constant) else None
            if truth is not None and truth != pol:
                continue
            own = [[]] if truth is not None else fa._alts(v, a_, pol)
            for c in (conds or {frozenset()}):
                for o in own:
                    if any((l[0], not l[1]) in c for l in o):
                        continue
                    out.add(frozenset(c) | frozenset(o))
            if len(out) > 64:
                return None
    return out


def reaches_avoiding(fa: FA, start: int, avoid, targets) -> bool:
    """Is one of `targets` reachable from cfg node `start` without passing a node of `avoid`, following only
    feasible branches with respect to the True / False / None constants assigned to plain locals or parameters
    along the way (`external = True ... if external:` is followed into the taken arm only)?"""
    from ..cfg import CFG
    cfg = fa.cfg
    avoid = set(avoid)
    targets = set(targets)
    seen = set()
    stack = [(start, ())]
    while stack:
        n, val = stack.pop()
        if (n, val) in seen or n in avoid:
            continue
        seen.add((n, val))
        if n in targets:
            return True
        nd = cfg.node(n)
        env = dict(val)
        after = dict(env)
        for d in fa.df.gen.get(n, []):
            if "." in d.name:
                continue
            if d.kind == "assign" and isinstance(d.value, ast.Constant) and (d.value.value is None or isinstance(d.value.value, bool)):
                after[d.name] = d.value.value
            else:
                after.pop(d.name, None)
        verdict = "U"
        if nd.kind == "test":
            verdict = CFG._ev(nd.ast, env)
        for (d, l) in cfg.succ[n]:
            if verdict is True and l == "F":
                continue
            if verdict is False and l == "T":
                continue
            nxt = env if l == "exc" else after
            stack.append((d, tuple(sorted(nxt.items(), key=lambda kv: kv[0]))))
    return False


# ---- where a value comes from, across the helpers of the repository ------------------------------------------
class ValueSlice:
    """What the value of an expression is computed from (value flow only; tests that merely select between values are
    not part of it), followed through locals, containers that are filled piecemeal, comprehensions and the functions
    of this repository that are called on the way (their returned / yielded values; a parameter the callee's result is
    computed from stands for the argument bound to it).  The walk does not look inside a call for which `stop` holds:
    such a call is a source in its own right.

      nodes    [(FA, ast node, cfg node id)]  every expression node of the flow
      stopped  [(FA, call)]                   the `stop` calls the flow ends in
      units    [FuncInfo]                     the functions whose results are part of the flow
    """

    def __init__(self, ck, stop: Callable[[ast.Call], bool], max_depth: int = 6):
        self.ck = ck
        self.stop = stop
        self.max_depth = max_depth
        self.nodes = []
        self.stopped = []
        self.units = []
        self._fas = {}
        self._seen_defs = set()
        self._seen_sites = set()
        self._seen_expr = set()
        self._bound = []
        self._results = {}

    def fa_of(self, fi) -> FA:
        f = self._fas.get(id(fi))
        if f is None:
            f = self._fas[id(fi)] = FA(self.ck, fi)
        return f

    # -- callee resolution
    def _callees(self, fa: FA, call):
        try:
            cands, how = self.ck.cg.resolve(call, fa.fi)
        except Exception:  # noqa
            return []
        if how in ("typed", "module", "nested", "name") and cands:
            return list(cands)
        return []

    def _instance_class(self, fa: FA, e, at, depth=0):
        """The class of this repository an expression is a fresh instance of: `Reader(...)`, or a local bound to one."""
        if depth > 4 or e is None:
            return None
        if isinstance(e, ast.Call):
            f = e.func
            if isinstance(f, ast.Name) and f.id in fa.fi.module.classes:
                return fa.fi.module.classes[f.id]
            try:
                cands, how = self.ck.cg.resolve(e, fa.fi)
            except Exception:  # noqa
                return None
            if how == "ctor" and cands and cands[0].cls is not None:
                return cands[0].cls
            return None
        if isinstance(e, ast.Name) and fa.df.is_local(e.id):
            ds = fa.df.reaching(at, e.id)
            if len(ds) == 1 and ds[0].kind in ("assign", "with") and ds[0].value is not None:
                return self._instance_class(fa, ds[0].value, ds[0].node, depth + 1)
        return None

    def _method_of_instance(self, fa: FA, call, at):
        """`Reader(...)(x)` / `reader(x)` / `reader.read(x)` with `reader = Reader(...)`: the method that runs."""
        f = call.func
        c = self._instance_class(fa, f, at)
        if c is not None:
            m = self.ck.repo.find_method(c, "__call__")
            return [m] if m is not None else []
        if isinstance(f, ast.Attribute):
            c = self._instance_class(fa, f.value, at)
            if c is not None:
                m = self.ck.repo.find_method(c, f.attr)
                return [m] if m is not None else []
        return []

    def _function_value(self, fa: FA, n):
        """The repository function an expression that is not called on the spot designates (`self._read`, `_load`)."""
        cls = fa.fi.cls
        if isinstance(n, ast.Attribute) and isinstance(n.value, ast.Name) and cls is not None and n.value.id in ("self", "cls", cls.node.name):
            m = self.ck.repo.find_method(cls, n.attr)
            if m is not None and "property" not in m.decorators:
                return m
        if isinstance(n, ast.Name):
            p = fa.fi
            while p is not None:
                if n.id in p.nested:
                    return p.nested[n.id]
                p = p.parent
            if not fa.df.is_local(n.id) and n.id in fa.fi.module.functions:
                return fa.fi.module.functions[n.id]
        return None

    def _results_of(self, fi, stack):
        """Follow what `fi` returns / yields; -> names of its parameters the result is computed from."""
        if any(fi is x for x in stack) or len(stack) >= self.max_depth:
            return set(fi.params)
        if id(fi) in self._results:
            return self._results[id(fi)]
        if not any(fi is x for x in self.units):
            self.units.append(fi)
        cfa = self.fa_of(fi)
        hit = set()
        saved, self._bound = self._bound, []
        outs = []
        for n in A.walk_body(fi.node):
            if isinstance(n, ast.Return) and n.value is not None:
                outs.append((n.value, n))
            elif isinstance(n, (ast.Yield, ast.YieldFrom)) and n.value is not None:
                outs.append((n.value, cfa.stmt_of(n)))
        for (v, st) in outs:
            ids = cfa.nodes(st) if st is not None else []
            if ids:
                self._expr(cfa, v, ids[0], stack + [fi], hit)
        self._bound = saved
        self._results[id(fi)] = hit
        return hit

    def _bind(self, fi, call):
        """{parameter: argument expr} of a call of fi (None when */** arguments hide the binding)."""
        if any(isinstance(a, ast.Starred) for a in call.args) or any(k.arg is None for k in call.keywords):
            return None
        params = list(fi.params)
        bound_recv = fi.cls is not None and not fi.is_static and params and isinstance(call.func, ast.Attribute)
        if bound_recv:
            recv = call.func.value
            # Class.method(obj, ...) passes the receiver explicitly
            explicit = isinstance(recv, ast.Name) and fi.cls is not None and recv.id == fi.cls.node.name and not fi.is_classmethod
            if not explicit:
                params = params[1:]
        elif fi.cls is not None and not fi.is_static and params and fi.name == "__init__":
            params = params[1:]
        out = {}
        for i, a in enumerate(call.args):
            if i < len(params):
                out[params[i]] = a
        for k in call.keywords:
            out[k.arg] = k.value
        return out

    # -- the walk
    def _name(self, fa: FA, n, at, stack, hit):
        if fa.df.is_local(n.id):
            defs = fa.df.reaching(at, n.id)
            for d in defs:
                if d.kind == "param":
                    hit.add(d.name)
                    continue
                if d.value is None or d.kind == "except":
                    continue
                key = (id(fa.fi), d.node, d.name)
                if key in self._seen_defs:
                    continue
                self._seen_defs.add(key)
                self._expr(fa, d.value, d.node, stack, hit)
            here = {(d.node, d.name) for d in defs}
            for (nm, site, vals) in mutation_sites(fa):
                if nm != n.id or (id(fa.fi), nm, site) in self._seen_sites:
                    continue
                there = {(d.node, d.name) for d in fa.df.reaching(site, nm)}
                if here & there:
                    self._seen_sites.add((id(fa.fi), nm, site))
                    for v in vals:
                        self._expr(fa, v, site, stack, hit)
            return
        # a variable of the enclosing function read by a nested one: whatever the enclosing function binds it to
        p = fa.fi.parent
        while p is not None:
            pfa = self.fa_of(p)
            if pfa.df.is_local(n.id):
                if n.id in p.params:
                    hit.add(n.id)
                for ds in pfa.df.gen.values():
                    for d in ds:
                        if d.name == n.id and d.value is not None and d.kind != "except":
                            key = (id(p), d.node, d.name)
                            if key not in self._seen_defs:
                                self._seen_defs.add(key)
                                self._expr(pfa, d.value, d.node, stack, hit)
                return
            p = p.parent

    def _expr(self, fa: FA, e, at, stack, hit):
        if e is None:
            return
        key = (id(e), at)
        if key in self._seen_expr:
            return
        self._seen_expr.add(key)
        self.nodes.append((fa, e, at))
        if isinstance(e, ast.Call):
            if self.stop(e):
                self.stopped.append((fa, e))
                return
            callees = self._callees(fa, e)
            if not callees:
                via = self._method_of_instance(fa, e, at)
                if via:
                    # the object is part of the flow (what it was built from), then what its method hands back
                    self._expr(fa, e.func.value if isinstance(e.func, ast.Attribute) else e.func, at, stack, hit)
                    for fi in via:
                        used = self._results_of(fi, stack)
                        bound = self._bind(fi, ast.Call(func=ast.Attribute(value=ast.Name(id="_", ctx=ast.Load()), attr=fi.name, ctx=ast.Load()),
                                                       args=e.args, keywords=e.keywords))
                        for p_, a in (bound or {}).items():
                            if bound is None or p_ in used or p_ not in fi.params:
                                self._expr(fa, a, at, stack, hit)
                        if bound is None:
                            for a in list(e.args) + [k.value for k in e.keywords]:
                                self._expr(fa, a.value if isinstance(a, ast.Starred) else a, at, stack, hit)
                    return
            if callees:
                recv = e.func.value if isinstance(e.func, ast.Attribute) else None
                own = isinstance(recv, ast.Name) and recv.id in ("self", "cls") or \
                    (isinstance(recv, ast.Name) and fa.fi.cls is not None and recv.id == fa.fi.cls.node.name) or recv is None
                if not own:
                    self._expr(fa, recv, at, stack, hit)
                for fi in callees:
                    used = self._results_of(fi, stack)
                    bound = self._bind(fi, e)
                    if bound is None:
                        for a in list(e.args) + [k.value for k in e.keywords]:
                            self._expr(fa, a.value if isinstance(a, ast.Starred) else a, at, stack, hit)
                        continue
                    for p_, a in bound.items():
                        if p_ in used or p_ not in fi.params:
                            self._expr(fa, a, at, stack, hit)
                    if own and isinstance(recv, ast.Name) and recv.id in ("self", "cls") and fi.params and fi.params[0] in used:
                        hit.add(recv.id)
                return
            self._expr(fa, e.func, at, stack, hit)
            for a in e.args:
                self._expr(fa, a.value if isinstance(a, ast.Starred) else a, at, stack, hit)
            for k in e.keywords:
                self._expr(fa, k.value, at, stack, hit)
            return
        if isinstance(e, ast.Name):
            if any(e.id in b for b in self._bound):
                return
            if isinstance(e.ctx, ast.Load):
                fv = self._function_value(fa, e)
                if fv is not None:
                    self._results_of(fv, stack)
                else:
                    self._name(fa, e, at, stack, hit)
            return
        if isinstance(e, ast.Attribute):
            fv = self._function_value(fa, e)
            if fv is not None:
                self._results_of(fv, stack)
                return
            self._expr(fa, e.value, at, stack, hit)
            return
        if isinstance(e, (ast.Lambda, ast.ListComp, ast.SetComp, ast.GeneratorExp, ast.DictComp)):
            # the names a comprehension / lambda binds stand for elements of its iterables (walked as well) or for
            # arguments, not for locals of the function
            self._bound.append(_bound_names(e))
            try:
                for c in ast.iter_child_nodes(e):
                    if isinstance(c, ast.expr):
                        self._expr(fa, c, at, stack, hit)
                    elif isinstance(c, ast.comprehension):
                        self._expr(fa, c.iter, at, stack, hit)
                        for x in c.ifs:
                            pass  # (a filter selects, it does not contribute a value)
            finally:
                self._bound.pop()
            return
        for c in ast.iter_child_nodes(e):
            if isinstance(c, ast.expr):
                self._expr(fa, c, at, stack, hit)
            elif isinstance(c, ast.keyword):
                self._expr(fa, c.value, at, stack, hit)

    def of_results(self, fi):
        """Slice of everything the function hands back."""
        self._results_of(fi, [])
        return self


def _written_after_construction(ck, owner_cls, module, name) -> List[str]:
    """Sites (function qualnames) that put something into the object held by an attribute of a class (`self.<name>` /
    `cls.<name>` / `<Class>.<name>`) or by a module-level variable, or rebind it, other than its initialisation in
    __init__ / the class body / at module level: such a variable is state that survives from one call to the next."""
    from .memo import Table, _uses
    out = []
    if owner_cls is not None:
        t = Table(owner_cls.qual if hasattr(owner_cls, "qual") else owner_cls.node.name, name, "self")
    else:
        t = Table(module.name if hasattr(module, "name") else "", name, "module")
    for fi in ck.repo.all_funcs():
        if owner_cls is None and fi.module is not module:
            continue
        if not any((isinstance(n, ast.Attribute) and n.attr == name) or (isinstance(n, ast.Name) and n.id == name) for n in ast.walk(fi.node)):
            continue
        if owner_cls is not None:
            c = fi.cls
            p = fi
            while c is None and p.parent is not None:
                p = p.parent
                c = p.cls
            if c is None or not (c is owner_cls or owner_cls in ck.repo.mro(c) or c in ck.repo.mro(owner_cls)):
                continue
        fa = FA(ck, fi)
        try:
            r, w, rm = _uses(fa, t)
        except Exception:  # noqa
            r, w, rm = [], [], []
        if w:
            out.append(fi.qual)
            continue
        if fi.name == "__init__" and owner_cls is not None:
            continue
        for st in fa.stmts((ast.Assign, ast.AugAssign, ast.AnnAssign)):
            tg = st.targets if isinstance(st, ast.Assign) else [st.target]
            flat = [x for t_ in tg for x in (t_.elts if isinstance(t_, (ast.Tuple, ast.List)) else [t_])]
            if owner_cls is not None and any(isinstance(x, ast.Attribute) and x.attr == name and isinstance(x.value, ast.Name)
                                             and x.value.id in ("self", "cls", owner_cls.node.name) for x in flat):
                out.append(fi.qual)
                break
            if owner_cls is None and any(isinstance(x, ast.Name) and x.id == name for x in flat) and \
                    any(isinstance(g, ast.Global) and name in g.names for g in ast.walk(fi.node)):
                out.append(fi.qual)
                break
    return out


def surviving_state_in(ck, sl: ValueSlice):
    """[(FA, ast node, 'self.x' / 'NAME', [writer qualnames])]: the places where a value slice reads a variable that
    outlives the call (an attribute of the object / class, a module-level variable) AND that is written again after it
    was set up — something an earlier call may have left there."""
    out = []
    memo = {}
    for (fa, n, at) in sl.nodes:
        owner, mod, name, label = None, None, None, None
        cls = fa.fi.cls
        p = fa.fi
        while cls is None and p.parent is not None:
            p = p.parent
            cls = p.cls
        if isinstance(n, ast.Attribute) and isinstance(n.value, ast.Name) and isinstance(n.ctx, ast.Load) and cls is not None \
                and n.value.id in ("self", "cls", cls.node.name):
            if ck.repo.find_method(cls, n.attr) is not None:
                continue
            owner, name, label = cls, n.attr, "%s.%s" % (n.value.id, n.attr)
        elif isinstance(n, ast.Name) and isinstance(n.ctx, ast.Load) and not fa.df.is_local(n.id) and n.id in fa.fi.module.assigns:
            q = fa.fi.parent
            shadow = False
            while q is not None:
                if sl.fa_of(q).df.is_local(n.id):
                    shadow = True
                q = q.parent
            if shadow:
                continue
            mod, name, label = fa.fi.module, n.id, n.id
        else:
            continue
        key = (id(owner), id(mod), name)
        if key not in memo:
            memo[key] = _written_after_construction(ck, owner, mod, name)
        if memo[key]:
            out.append((fa, n, label, memo[key]))
    return out
