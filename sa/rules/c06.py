"""C06 — the memory cache is bounded, LRU, and keeps honest accounts (structural part).

Decides: accounting pairing at every resident-set mutation; budget guard dominates the
insertion; LRU end discipline; hit => mark-used; replace-on-put (shared with C05.R4).
Does not decide: which entries are evicted over an arbitrary history.
"""
import ast

from .. import astutil as A
from ..fa import FA
from ..loader import AnalysisError
from .cache_model import CacheModel, self_attr, CACHE_CLASS


def _block_of(fa: FA, st):
    """The statement list that directly contains `st`."""
    p = fa.pm.get(st)
    for fld in ("body", "orelse", "finalbody", "handlers"):
        lst = getattr(p, fld, None)
        if isinstance(lst, list) and st in lst:
            return lst
    return []


def _resolve_local(fa: FA, e, at_stmt):
    """One-step inline of a local name through its (unique) reaching definition."""
    if isinstance(e, ast.Name):
        for nid in fa.nodes(at_stmt):
            ds = fa.df.reaching(nid, e.id)
            if len(ds) == 1 and ds[0].kind == "assign" and ds[0].value is not None:
                return ds[0].value
    return e


def size_forms(fa: FA, ins: ast.Assign):
    """The inserted entry and the ways its size may be written at this insertion site:
    the first argument of `_CacheEntry(...)` and `<entry local>.obj_size`.  Returns
    (entry call or None, size expression or None, set of normalised spellings)."""
    entry = _resolve_local(fa, ins.value, ins)
    if not (isinstance(entry, ast.Call) and A.call_attr(entry) == "_CacheEntry"):
        return None, None, set()
    size_expr = A.arg_or_kw(entry, 0, "obj_size")
    forms = set()
    if size_expr is not None:
        forms.add(A.norm(size_expr))
    if isinstance(ins.value, ast.Name):
        forms.add(ins.value.id + ".obj_size")
    return entry, size_expr, forms


def check_accounting(ck, cm: CacheModel):
    R = "C06.R1"
    ck.rule(R, "accounting pairing: every mutation of the resident map / recency queue is balanced by the "
               "matching counter / queue update in the same block; only MemoryCache methods write these slots", 8)
    cg = ck.cg
    # who may write
    for q, muts in cg.field_mut_sites.items():
        for (owner, fld, node) in muts:
            if owner != CACHE_CLASS:
                continue
            f = fld.split(":")[0]
            if f not in (cm.map, cm.queue, cm.counter, cm.budget):
                continue
            fi = cg.funcs[q]
            inside = fi.cls is not None and fi.cls.qual == CACHE_CLASS
            if not inside:
                ck.ob(R, "%s::%s" % (q, A.head(node)), False,
                      "cache slot '%s' is written outside MemoryCache" % f, A.loc(fi, node))
            elif f == cm.budget and fi.name != "__init__":
                ck.ob(R, "%s::%s" % (q, A.head(node)), False,
                      "the budget is reassigned after construction", A.loc(fi, node))
    for name, m in cm.cls.methods.items():
        fa = FA(ck, m)
        for st in fa.stmts():
            # ---- deletions from the map
            if isinstance(st, ast.Delete):
                for t in st.targets:
                    if isinstance(t, ast.Subscript) and self_attr(t.value, cm.map):
                        k = A.norm(t.slice)
                        blk = _block_of(fa, st)
                        ok = False
                        why = "no `%s -= <entry>.obj_size` beside the deletion" % cm.counter
                        for s2 in blk:
                            if isinstance(s2, ast.AugAssign) and isinstance(s2.op, ast.Sub) and self_attr(s2.target, cm.counter):
                                v = s2.value
                                if isinstance(v, ast.Attribute) and v.attr == "obj_size":
                                    src = _resolve_local(fa, v.value, s2)
                                    if (isinstance(src, ast.Subscript) and self_attr(src.value, cm.map)
                                            and A.norm(src.slice) == k):
                                        ok = blk.index(s2) < blk.index(st)
                                        why = "the size is read after the entry is deleted" if not ok else ""
                                    else:
                                        why = "the subtracted size is not read from %s[%s]" % (cm.map, k)
                                else:
                                    why = "the subtracted amount is not the entry's obj_size"
                        ck.ob(R, fa.key(st, "del-map"), ok, why or "deletion balanced by counter decrement", fa.where(st))
                        # the queue must drop the key too (same method)
                        rem = [c for c in fa.calls("remove") if self_attr(A.call_recv(c), cm.queue) and c.args and A.norm(c.args[0]) == k]
                        ck.ob(R, fa.key(st, "del-queue"), bool(rem),
                              "key removed from the recency queue in the same method" if rem else
                              "the deleted key is not removed from the recency queue", fa.where(st))
            # ---- deletions through pop()
            for c in [c for c in A.calls_in(st) if A.call_attr(c) in ("pop", "popitem") and self_attr(A.call_recv(c), cm.map)] if not isinstance(st, (ast.If, ast.For, ast.While, ast.With, ast.Try)) else []:
                k = A.norm(c.args[0]) if c.args else "?"
                ok = False
                edge_ok = None
                why = "the popped entry's size is not subtracted from %s" % cm.counter
                if isinstance(st, ast.AugAssign) and isinstance(st.op, ast.Sub) and self_attr(st.target, cm.counter) \
                        and isinstance(st.value, ast.Attribute) and st.value.attr == "obj_size" and st.value.value is c:
                    ok = True
                elif isinstance(st, ast.Assign) and st.value is c and isinstance(st.targets[0], ast.Name):
                    ename = st.targets[0].id
                    subs = [s2 for s2 in fa.stmts(ast.AugAssign) if isinstance(s2.op, ast.Sub) and self_attr(s2.target, cm.counter)
                            and A.norm(s2.value) == ename + ".obj_size"]
                    # every path from the pop to the exit either subtracts or found nothing (entry is None)
                    none_tests = [n.id for n in fa.cfg.nodes if n.kind == "test" and A.norm(n.ast) in ("%s is None" % ename, "not %s" % ename, "%s is not None" % ename, ename)]
                    def edge_ok(s_, d_, l_, nt=none_tests):
                        if s_ in nt:
                            t = A.norm(fa.cfg.node(s_).ast)
                            neg = t.endswith("is None") or t.startswith("not ")
                            return not ((neg and l_ == "T") or (not neg and l_ == "F"))
                        return True
                    ok = bool(subs) and all(fa.cfg.exit not in fa.cfg.reach([i], removed=fa.nodes_all(subs), edge_ok=edge_ok, include_start=False) for i in fa.nodes(st))
                ck.ob(R, fa.key(st, "pop-map"), ok, "pop() balanced by counter decrement" if ok else why, fa.where(st))
                rem = [x for x in fa.calls("remove") if self_attr(A.call_recv(x), cm.queue) and x.args and A.norm(x.args[0]) == k]
                # the queue entry goes whenever the key may be queued, also when it was not resident
                qtests = [n.id for n in fa.cfg.nodes if n.kind == "test" and "in self.%s" % cm.queue in A.norm(n.ast)]
                okq = bool(rem) and all(fa.cfg.exit not in fa.cfg.reach([i], removed=fa.nodes_all(rem) + qtests, edge_ok=edge_ok, include_start=False)
                                        for i in fa.nodes(st))
                ck.ob(R, fa.key(st, "pop-queue"), okq,
                      "the popped key is removed from the recency queue on every path" if okq else
                      "a key deleted from the resident map can stay in the recency queue (early return / no queue.remove): a stale queue slot "
                      "later evicts a freshly written entry instead of the least recently used one", fa.where(st))
            # ---- insertions
            if isinstance(st, ast.Assign):
                for t in st.targets:
                    if isinstance(t, ast.Subscript) and self_attr(t.value, cm.map):
                        k = A.norm(t.slice)
                        blk = _block_of(fa, st)
                        entry, size_expr, forms = size_forms(fa, st)
                        ok = False
                        why = "no `%s += <size>` beside the insertion" % cm.counter
                        if size_expr is None:
                            why = "cannot see the size the inserted entry was built with"
                        else:
                            for s2 in blk:
                                if isinstance(s2, ast.AugAssign) and self_attr(s2.target, cm.counter):
                                    if not isinstance(s2.op, ast.Add):
                                        why = "counter updated with %s at an insertion" % type(s2.op).__name__
                                    elif A.norm(s2.value) not in forms:
                                        why = "counter grows by `%s` but the entry records `%s`" % (A.norm(s2.value), A.norm(size_expr))
                                    elif isinstance(size_expr, ast.Name) and not all(
                                        fa.df.same_defs(size_expr.id, a, b)
                                        for a in fa.nodes(s2) for b in fa.nodes(fa.stmt_of(entry) or st)):
                                        why = "the size is redefined between building the entry and accounting for it"
                                    else:
                                        ok, why = True, ""
                                elif isinstance(s2, ast.Assign) and any(self_attr(x, cm.counter) for x in s2.targets):
                                    why = "counter is overwritten (=) instead of incremented at an insertion"
                        ck.ob(R, fa.key(st, "ins-map"), ok, why or "insertion balanced by counter increment", fa.where(st))
                        app = [s2 for s2 in blk if isinstance(s2, ast.Expr) and isinstance(s2.value, ast.Call)
                               and A.call_attr(s2.value) == "append" and self_attr(A.call_recv(s2.value), cm.queue)
                               and s2.value.args and A.norm(s2.value.args[0]) == k]
                        ck.ob(R, fa.key(st, "ins-queue"), len(app) == 1,
                              "key appended (right end) to the recency queue once" if len(app) == 1 else
                              "the inserted key is appended to the recency queue %d times in the block" % len(app), fa.where(st))
                        # overwrite cannot leak: an eviction of the same key dominates the insertion
                        ev = [c for c in fa.calls(cm.evict.name) if cm.is_self_call(c, cm.evict) and c.args and A.norm(c.args[0]) == k]
                        ins_nodes = fa.nodes(st)
                        dom = bool(ev) and all(fa.cfg.must_pass(fa.nodes_all(ev), n) for n in ins_nodes)
                        ck.ob(R, fa.key(st, "ins-after-evict"), dom,
                              "an eviction of the same key dominates the insertion" if dom else
                              "the insertion is not dominated by an eviction of the same key: an overwrite leaks the old size",
                              fa.where(st))
                    elif self_attr(t, cm.counter) and name != "__init__":
                        # plain assignment to the counter: only `= 0` together with map.clear()
                        clears = [c for c in fa.calls("clear") if self_attr(A.call_recv(c), cm.map)]
                        ok = isinstance(st.value, ast.Constant) and st.value.value == 0 and bool(clears)
                        ck.ob(R, fa.key(st, "counter-assign"), ok,
                              "counter reset together with map.clear()" if ok else
                              "counter assigned outside of a full clear", fa.where(st))
            if isinstance(st, ast.AugAssign) and self_attr(st.target, cm.counter):
                blk = _block_of(fa, st)
                paired = any(
                    (isinstance(s2, ast.Delete) and any(isinstance(t, ast.Subscript) and self_attr(t.value, cm.map) for t in s2.targets))
                    or (isinstance(s2, ast.Assign) and any(isinstance(t, ast.Subscript) and self_attr(t.value, cm.map) for t in s2.targets))
                    or any(A.call_attr(c) in ("pop", "popitem") and self_attr(A.call_recv(c), cm.map) for c in A.calls_in(s2)
                           if not isinstance(s2, (ast.If, ast.For, ast.While, ast.With, ast.Try)))
                    for s2 in blk)
                ck.ob(R, fa.key(st, "counter-aug"), paired,
                      "counter adjustment sits beside a map mutation" if paired else
                      "counter adjusted without a map mutation in the same block", fa.where(st))
        # ---- clear
        for c in fa.calls("clear"):
            if self_attr(A.call_recv(c), cm.map):
                st = fa.stmt_of(c)
                zero = [s for s in fa.stmts(ast.Assign) if any(self_attr(t, cm.counter) for t in s.targets)
                        and isinstance(s.value, ast.Constant) and s.value.value == 0]
                qclear = [x for x in fa.calls("clear") if self_attr(A.call_recv(x), cm.queue)]
                ck.ob(R, fa.key(st, "clear-counter"), bool(zero),
                      "map.clear() paired with counter = 0" if zero else "map.clear() without resetting the counter", fa.where(st))
                ck.ob(R, fa.key(st, "clear-queue"), bool(qclear),
                      "map.clear() paired with queue.clear()" if qclear else "map.clear() without clearing the recency queue", fa.where(st))
    # entry size is immutable
    for q, fi in ck.cg.funcs.items():
        for n in A.walk_body(fi.node):
            if isinstance(n, (ast.Assign, ast.AugAssign)):
                ts = n.targets if isinstance(n, ast.Assign) else [n.target]
                for t in ts:
                    if isinstance(t, ast.Attribute) and t.attr == "obj_size" and not (fi.cls and fi.cls.name == "_CacheEntry"):
                        ck.ob(R, "%s::%s" % (q, A.head(n)), False, "an entry's recorded size is modified after construction", A.loc(fi, n))
    ce = ck.repo.cls("storage_base._CacheEntry").methods.get("__init__")
    ck.need(ce is not None, "_CacheEntry.__init__ not found")
    stores = [s for s in A.all_stmts(ce.node) if isinstance(s, ast.Assign) and any(self_attr(t, "obj_size") for t in s.targets)
              and isinstance(s.value, ast.Name) and s.value.id == "obj_size"]
    ck.ob(R, ce.qual + "::obj_size", bool(stores), "entry stores the size it was given" if stores else
          "_CacheEntry does not store its obj_size parameter", A.loc(ce, ce.node))


def _cmp_gt_budget(test, cm, forms):
    """Recognise `<size> > self.budget` or `self.counter + <size> > self.budget` in a test.
    Returns 'oversize' / 'room' / None."""
    for atom in A.conj_atoms(test):
        if isinstance(atom, ast.Compare) and len(atom.ops) == 1:
            l, op, r = atom.left, atom.ops[0], atom.comparators[0]
            if isinstance(op, ast.Lt):
                l, r, op = r, l, ast.Gt()
            if isinstance(op, ast.Gt) and self_attr(r, cm.budget):
                if A.norm(l) in forms:
                    return "oversize"
                if isinstance(l, ast.BinOp) and isinstance(l.op, ast.Add):
                    parts = [l.left, l.right]
                    has_counter = any(self_attr(p, cm.counter) for p in parts)
                    has_size = any(A.norm(p) in forms for p in parts)
                    if has_counter and has_size:
                        return "room"
    return None


def check_budget(ck, cm: CacheModel):
    R = "C06.R2"
    ck.rule(R, "budget: the insertion is dominated by the oversize guard and by an evict-until-fits loop whose "
               "negated test implies counter + size <= budget (or the queue is empty), with no write to "
               "counter/size/budget in between", 3)
    for m in cm.inserts:
        fa = FA(ck, m)
        sites = [s for s in fa.stmts(ast.Assign) if any(isinstance(t, ast.Subscript) and self_attr(t.value, cm.map) for t in s.targets)]
        for ins in sites:
            _check_budget_site(ck, cm, R, fa, ins)


def _check_budget_site(ck, cm, R, fa, ins):
    ins_nodes = fa.some(fa.nodes(ins), "reachable insertion node")
    entry, size_expr, forms = size_forms(fa, ins)
    ck.need(entry is not None, "%s: inserted value is not a _CacheEntry(...)" % fa.qual)
    ck.need(size_expr is not None, "%s: cannot see the size the entry is built with" % fa.qual)
    size = size_expr.id if isinstance(size_expr, ast.Name) else None
    size_txt = A.norm(size_expr)
    cfg = fa.cfg
    # (a) oversize guard
    guards = []
    loops = []
    for n in cfg.nodes:
        if n.kind == "test":
            kind = _cmp_gt_budget(n.ast, cm, forms)
            st = fa.pm.get(n.ast)
            if kind == "oversize" and isinstance(st, ast.If):
                guards.append(n.id)
            if kind == "room" and isinstance(st, ast.While):
                loops.append(n.id)
    okg = False
    for g in guards:
        dom = all(cfg.must_pass([g], i) for i in ins_nodes)
        # through the True edge the insertion must be unreachable
        viaT = cfg.reach([g], edge_ok=lambda s, d, l, g=g: not (s == g and l == "F"))
        if dom and not (set(ins_nodes) & viaT):
            okg = True
    ck.ob(R, fa.key(ins, "oversize-guard"), okg,
          "`%s > %s` exits before the insertion on every path" % (size_txt, cm.budget) if okg else
          "no dominating `%s > self.%s` guard whose true-branch avoids the insertion: an oversize result can become resident" % (size_txt, cm.budget),
          fa.where(ins))
    # (b) evict-until-fits loop
    okl = False
    loop_node = None
    for w in loops:
        if all(cfg.must_pass([w], i) for i in ins_nodes):
            okl = True
            loop_node = w
    ck.ob(R, fa.key(ins, "room-loop"), okl,
          "evict-until-fits loop `while ... %s + %s > %s` dominates the insertion" % (cm.counter, size_txt, cm.budget) if okl else
          "no dominating loop on `self.%s + %s > self.%s`: the budget can be exceeded" % (cm.counter, size_txt, cm.budget),
          fa.where(ins))
    if loop_node is not None:
        wst = fa.pm.get(cfg.node(loop_node).ast)
        # the other conjunct may only be a queue-non-empty test
        others = [a for a in A.conj_atoms(cfg.node(loop_node).ast) if _cmp_gt_budget(a, cm, forms) is None]
        q = "self.%s" % cm.queue
        ok_other = all(A.norm(a) in ("len(%s) > 0" % q, "len(%s)" % q, q, "len(%s) != 0" % q, "len(%s) >= 1" % q, "0 < len(%s)" % q) for a in others)
        ck.ob(R, fa.key(wst, "loop-test"), ok_other,
              "loop stops only when it fits or nothing is left to evict" if ok_other else
              "loop has an extra exit condition (%s): it may stop before the new entry fits" % [A.norm(a) for a in others],
              fa.where(wst))
        # loop body evicts the left end of the queue
        evs = [c for c in A.calls_in(wst) if cm.is_self_call(c, cm.evict)]
        left = [c for c in evs if c.args and isinstance(c.args[0], ast.Call) and A.call_attr(c.args[0]) == "popleft"
                and self_attr(A.call_recv(c.args[0]), cm.queue)]
        ck.ob("C06.R3", fa.key(wst, "evict-lru-end"), bool(left),
              "the loop evicts queue.popleft() (least recently used end)" if left else
              "the loop does not evict the left (least recently used) end of the queue", fa.where(wst))
        # nothing between loop exit and insertion touches counter / size / budget
        after = cfg.reach([loop_node], removed=ins_nodes, edge_ok=lambda s, d, l: not (s == loop_node and l == "T"), include_start=False)
        bad = []
        for i in after:
            n = cfg.node(i)
            for d in fa.df.gen.get(i, []):
                if d.name in ((size,) if size else ()) + ("self." + cm.counter, "self." + cm.budget):
                    bad.append(n)
            if n.ast is not None:
                for c in A.calls_in(n.ast) if n.kind == "stmt" else []:
                    if cm.is_self_call(c, cm.evict) or any(cm.is_self_call(c, mi) for mi in cm.inserts):
                        bad.append(n)
        # only nodes that can still reach the insertion matter
        bad = [n for n in bad if set(ins_nodes) & cfg.reach([n.id], include_start=False)]
        ck.ob(R, fa.key(ins, "no-write-after-loop"), not bad,
              "no write to counter/size/budget between loop exit and insertion" if not bad else
              "counter/size/budget written between the loop exit and the insertion: %s" % [A.head(n.ast) for n in bad],
              fa.where(ins))
    # the size variable is the estimate of the very object that is stored
    val = entry.args[2] if len(entry.args) > 2 else A.kwarg(entry, "value")
    def _is_est(v):
        return v is not None and isinstance(v, ast.Call) and "estimate" in (A.call_attr(v) or "")
    if size is not None:
        size_defs = []
        for i in ins_nodes:
            size_defs += fa.df.reaching(i, size)
        ok_est = bool(size_defs) and all(_is_est(d.value) for d in size_defs)
    else:
        ok_est = _is_est(size_expr)
    ck.ob(R, fa.key(ins, "size-is-estimate"), ok_est,
          "the accounted size is the estimate computed for this put" if ok_est else
          "the accounted size does not come from the size estimator", fa.where(ins))


def check_estimates_bounded_below(ck, cm, R):
    """The accounts are only honest if a recorded size cannot be negative: an estimator that
    extrapolates (a difference of two measurements scaled up) must bound its result below by something
    that was measured.  Every return of a size estimator of the cache whose value involves a subtraction
    is a `max(<extrapolation>, <measured size>)`."""
    n = 0
    for name, m in cm.cls.methods.items():
        if "mem_usage" not in name and "estimate" not in name and "size" not in name:
            continue
        fa = FA(ck, m)
        for r in fa.returns():
            if r.value is None:
                continue
            e = fa.expand(r.value)
            subs = [x for x in ast.walk(e) if isinstance(x, ast.BinOp) and isinstance(x.op, ast.Sub)] + \
                   [x for x in ast.walk(e) if isinstance(x, ast.UnaryOp) and isinstance(x.op, ast.USub)]
            if not subs:
                continue
            n += 1
            top = r.value
            ok = isinstance(top, ast.Call) and isinstance(top.func, ast.Name) and top.func.id == "max" and len(top.args) >= 2 and \
                any(not any(isinstance(y, ast.BinOp) and isinstance(y.op, ast.Sub) for y in ast.walk(fa.expand(a))) for a in top.args)
            ck.ob(R, fa.key(r, "estimate-bounded-below"), ok,
                  "the extrapolated size is bounded below by a measured one" if ok else
                  "`%s` extrapolates from a difference of two sample measurements and can come out negative (heavy rows in the small sample): the entry "
                  "is then resident with a negative size, memory_usage goes down on insertion and the budget is exceeded" % A.short(r.value, 60), fa.where(r))
    ck.ob(R, CACHE_CLASS + "::estimate-bounded-below::scan", True, "%d extrapolating size estimates" % n, "")


def check_queue_unbounded(ck, cm, R):
    ini = FA(ck, cm.init)
    for st in ini.stmts(ast.Assign):
        if any(self_attr(t, cm.queue) for t in st.targets) and isinstance(st.value, ast.Call):
            ok = not st.value.args and not st.value.keywords
            ck.ob(R, ini.key(None, "queue-unbounded"), ok, "the recency queue never drops keys on its own" if ok else
                  "the recency queue is constructed as `%s`: once full it silently drops the oldest key while its entry stays resident, so that entry "
                  "can never be evicted and the budget is exceeded" % A.norm(st.value), ini.where(st))


def check_lru(ck, cm: CacheModel):
    R = "C06.R3"
    ck.rule(R, "LRU discipline: mark-used = remove then append (right end); eviction takes the left end; every "
               "path that serves a resident entry passes mark-used", 4)
    if cm.mark_used is not None:
        fa = FA(ck, cm.mark_used)
        key = cm.mark_used.params[1]
        rem = [c for c in fa.calls("remove") if self_attr(A.call_recv(c), cm.queue)]
        app = [c for c in fa.calls("append") if self_attr(A.call_recv(c), cm.queue)]
        ok = False
        if rem and app:
            appn = fa.nodes_all(app)
            # append post-dominates entry: every path to exit passes an append of the key
            ok = fa.cfg.must_pass(appn, fa.cfg.exit) and all(c.args and A.norm(c.args[0]) == key for c in app + rem)
        ok = ok and not fa.calls("appendleft")
        ck.ob(R, fa.key(None, "mark-used-shape"), ok,
              "mark-used removes the key and appends it at the right end on every path" if ok else
              "mark-used does not re-append the key at the right end on every path", fa.where())
    else:
        # inline form: in every method that removes a key from the queue without deleting it from the map, every
        # path from the removal to the exit re-appends that key at the right end
        n_inline = 0
        for name, m in cm.cls.methods.items():
            if m is cm.evict or m in cm.inserts or name.startswith("__") or name.startswith("forget"):
                continue
            f2 = FA(ck, m)
            for rc in [c for c in f2.calls("remove") if self_attr(A.call_recv(c), cm.queue) and c.args]:
                apps = f2.nodes_all([c for c in f2.calls("append") if self_attr(A.call_recv(c), cm.queue) and c.args and A.norm(c.args[0]) == A.norm(rc.args[0])])
                ok = bool(apps) and all(f2.cfg.exit not in f2.cfg.reach([i], removed=apps, include_start=False,
                                                                         edge_ok=lambda s_, d_, l_: l_ != "exc" or True) for i in f2.nodes(rc)) and not f2.calls("appendleft")
                n_inline += 1
                ck.ob(R, f2.key(rc, "mark-used-shape"), ok,
                      "a key taken out of the recency queue is appended again at the right end on every path" if ok else
                      "a key is removed from the recency queue and not re-appended at the right end on every path", f2.where(rc))
        ck.need(n_inline >= 1, "MemoryCache: no mark-used helper and no inline remove-then-append found")
    # hits pass mark-used
    for name, m in cm.cls.methods.items():
        if m in (cm.evict, cm.insert, cm.mark_used) or name.startswith("__"):
            continue
        f2 = FA(ck, m)
        marks = cm.mark_nodes(f2)
        # (1) returns whose value is read out of the resident map
        for r in f2.returns():
            if r.value is None:
                continue
            deps = set()
            for i in f2.nodes(r):
                deps |= f2.df.deps(r.value, i)
            from_map = any(d == "attr:self.%s" % cm.map for d in deps) and "getattr:value" in deps
            if from_map:
                ok = all(f2.cfg.must_pass(marks, i) for i in f2.nodes(r))
                ck.ob(R, f2.key(r, "hit-marks-used"), ok,
                      "a served value is marked used" if ok else
                      "a resident value is returned without refreshing its recency", f2.where(r))
        # (2) `if key in self.map:` whose true-branch returns True
        for n in f2.cfg.nodes:
            if n.kind == "test" and isinstance(n.ast, ast.Compare) and len(n.ast.ops) == 1 and isinstance(n.ast.ops[0], ast.In) \
                    and self_attr(n.ast.comparators[0], cm.map):
                st = f2.pm.get(n.ast)
                if not isinstance(st, ast.If):
                    continue
                rets_true = [s for s in A.walk_local(st) if isinstance(s, ast.Return) and isinstance(s.value, ast.Constant) and s.value.value is True
                             and any(s in A.walk_local(b) for b in st.body)]
                for r in rets_true:
                    ok = all(f2.cfg.must_pass(marks, i, start=n.id) for i in f2.nodes(r))
                    ck.ob(R, f2.key(r, "present-marks-used"), ok,
                          "a positive presence answer refreshes recency" if ok else
                          "presence of a resident entry is reported without refreshing its recency", f2.where(r))


def check_replace_on_put(ck, cm: CacheModel, rule="C06.R4"):
    ck.rule(rule, "replace-on-put: every path through put that exits normally without inserting has evicted the "
                  "previous entry for that key", 1)
    fa = FA(ck, cm.insert)
    ins = [s for s in fa.stmts(ast.Assign) if any(isinstance(t, ast.Subscript) and self_attr(t.value, cm.map) for t in s.targets)]
    ins = fa.one(ins, "insertion into the resident map")
    k = A.norm([t for t in ins.targets if isinstance(t, ast.Subscript)][0].slice)
    ev = [c for c in fa.calls(cm.evict.name) if cm.is_self_call(c, cm.evict) and c.args and A.norm(c.args[0]) == k]
    removed = set(fa.nodes(ins)) | set(fa.nodes_all(ev))
    p = fa.cfg.path(fa.cfg.entry, fa.cfg.exit, removed)
    ck.paths_enumerated += 1
    if p is None:
        ck.ob(rule, fa.key(None, "exit-without-evict"), True, "every non-inserting exit has evicted the old entry", fa.where())
    else:
        # name the offending exit
        last = [i for i in p if fa.cfg.node(i).kind == "stmt" and isinstance(fa.cfg.node(i).ast, ast.Return)]
        at = fa.cfg.node(last[-1]).ast if last else fa.node
        ck.ob(rule, fa.key(at if last else None, "exit-without-evict"), False,
              "put() can return without inserting and without evicting the previous entry for the key "
              "(path %s): a later read is served the stale value" % fa.cfg.describe_path(p), fa.where(at))


def check_forget(ck, cm: CacheModel, rule="C06.R5"):
    ck.rule(rule, "forget operations of the cache evict through the evict role (so accounts are updated) and drop weak refs", 3)
    for name in ("forget_call", "forget_function", "forget_everything"):
        m = cm.cls.methods.get(name)
        ck.need(m is not None, "MemoryCache.%s not found" % name)
        fa = FA(ck, m)
        if name == "forget_everything":
            ok = bool([c for c in fa.calls("clear") if self_attr(A.call_recv(c), cm.map)]) and \
                fa.cfg.must_pass(fa.nodes_all([c for c in fa.calls("clear") if self_attr(A.call_recv(c), cm.map)]), fa.cfg.exit)
            if cm.refs:
                ok = ok and bool([c for c in fa.calls("clear") if self_attr(A.call_recv(c), cm.refs)])
            ck.ob(rule, fa.key(None, "clears"), ok, "forget_everything clears map and weak refs on every path" if ok else
                  "forget_everything does not clear the resident map / weak refs on every path", fa.where())
        else:
            ev = [c for c in fa.calls(cm.evict.name) if cm.is_self_call(c, cm.evict)]
            own_del = [c for c in fa.calls() if A.call_attr(c) in ("pop", "popitem") and self_attr(A.call_recv(c), cm.map)] + \
                [d for d in fa.stmts(ast.Delete) if any(isinstance(t, ast.Subscript) and self_attr(t.value, cm.map) for t in d.targets)]
            ok = bool(ev) or bool(own_del)  # own deletion sites are held to the accounting rule R1
            if name == "forget_call" and ev:
                ok = fa.cfg.must_pass(fa.nodes_all(ev), fa.cfg.exit)
            ck.ob(rule, fa.key(None, "evicts"), ok, "%s evicts through the accounting helper" % name if ok else
                  "%s does not evict through the accounting helper on every path" % name, fa.where())
            if cm.refs:
                refs_drop = [n for n in A.walk_body(m.node) if (isinstance(n, ast.Call) and A.call_attr(n) in ("pop", "clear") and self_attr(A.call_recv(n), cm.refs))
                             or (isinstance(n, ast.Delete) and any(isinstance(t, ast.Subscript) and self_attr(t.value, cm.refs) for t in n.targets))]
                ck.ob(rule, fa.key(None, "drops-refs"), bool(refs_drop), "%s drops weak references" % name if refs_drop else
                      "%s leaves the weak reference: a forgotten result can still be served" % name, fa.where())


def check(ck):
    from .memo import check_new_memo_tables
    ck.run(check_new_memo_tables, ck, "C06.M1", ('storage_base',))
    cm = CacheModel(ck)
    ck.run(check_accounting, ck, cm)
    ck.run(check_budget, ck, cm)
    ck.run(check_lru, ck, cm)
    ck.run(check_queue_unbounded, ck, cm, "C06.R3")
    ck.run(check_estimates_bounded_below, ck, cm, "C06.R1")
    ck.run(check_replace_on_put, ck, cm, "C06.R4")
    ck.run(check_forget, ck, cm, "C06.R5")
    # the accounts are only honest if each public operation updates map, queue and counter in ONE critical
    # section of the cache lock (shared with C09.R3): a put split over two sections lets another put
    # of the same key in between, and the size is counted twice / the budget exceeded
    from .c09 import check_cache_guarded
    ck.run(check_cache_guarded, ck, cm, "C06.R6")
