"""C06 — the memory cache is bounded, LRU, and keeps honest accounts (structural part).

Decides: accounting pairing at every resident-set mutation; budget guard dominates the
insertion; LRU end discipline; hit => mark-used; replace-on-put (shared with C05.R4).
Does not decide: which entries are evicted over an arbitrary history.
"""
import ast

from .. import astutil as A
from ..fa import FA
from ..loader import AnalysisError
from .cache_model import (CacheModel, self_attr, assign_pairs, CACHE_CLASS, branch_filter, both, no_back_edges, every_path_through,
                          at_most_once, bool_leaves, edge_implies, linear_terms, safe_expand, value_sources, slot_calls)


def _block_of(fa: FA, st):
    """The statement list that directly contains `st`."""
    p = fa.pm.get(st)
    for fld in ("body", "orelse", "finalbody", "handlers"):
        lst = getattr(p, fld, None)
        if isinstance(lst, list) and st in lst:
            return lst
    return []


def _resolve_local(fa: FA, e, at_stmt):
    """One-step inline of a local name through its (unique) reaching definition."""
    if isinstance(e, ast.Name):
        for nid in fa.nodes(at_stmt):
            ds = fa.df.reaching(nid, e.id)
            if len(ds) == 1 and ds[0].kind == "assign" and ds[0].value is not None:
                return ds[0].value
    return e


def _generated_fields(cls):
    """field names, in order, of a class whose constructor is generated from its annotated class attributes (a dataclass or a
    typing.NamedTuple); None for any other class"""
    decos = [A.norm(d.func if isinstance(d, ast.Call) else d) for d in cls.node.decorator_list]
    if not (any(d.split(".")[-1] == "dataclass" for d in decos) or any(b.split(".")[-1] == "NamedTuple" for b in cls.base_exprs)):
        return None
    return [st.target.id for st in cls.node.body if isinstance(st, ast.AnnAssign) and isinstance(st.target, ast.Name)
            and "ClassVar" not in A.norm(st.annotation)]


def _entry_size_index(fa: FA) -> int:
    """position of the size among the constructor arguments of the cache entry class"""
    try:
        ecls = fa.ck.repo.cls("storage_base._CacheEntry")
    except Exception:
        return 0
    ce = ecls.methods.get("__init__")
    names = list(ce.params[1:]) if ce is not None else (_generated_fields(ecls) or [])
    return names.index("obj_size") if "obj_size" in names else 0


def size_forms(fa: FA, ins: ast.Assign):
    """The inserted entry and the ways its size may be written at this insertion site:
    the first argument of `_CacheEntry(...)` and `<entry local>.obj_size`.  Returns
    (entry call or None, size expression or None, set of normalised spellings)."""
    entry = _resolve_local(fa, ins.value, ins)
    if not (isinstance(entry, ast.Call) and A.call_attr(entry) == "_CacheEntry"):
        return None, None, set()
    size_expr = A.arg_or_kw(entry, _entry_size_index(fa), "obj_size")
    forms = set()
    if size_expr is not None:
        forms.add(A.norm(size_expr))
    if isinstance(ins.value, ast.Name):
        forms.add(ins.value.id + ".obj_size")
    return entry, size_expr, forms


def _xn(fa: FA, e, at):
    """Name-independent text of `e` evaluated at statement / expression `at`."""
    ids = fa.nodes(at)
    try:
        return fa.xnorm(e, ids[0]) if ids else A.norm(e)
    except AnalysisError:
        return A.norm(e)


def _in_loop(fa: FA, st) -> bool:
    return fa.enclosing(st, (ast.For, ast.While, ast.AsyncFor)) is not None


def _entry_size_read(fa: FA, cm, v, at_stmt, kx):
    """Is `v` (evaluated in `at_stmt`) the recorded size of the resident entry of key `kx` -- `<e>.obj_size`
    with <e> being `self.map[k]` / `self.map.get(k)` directly or through locals?  -> CFG nodes at which the
    entry is read out of the map (None when `v` is something else)."""
    nodes = fa.nodes(at_stmt)
    if not nodes:
        return None
    hops = 0
    while isinstance(v, ast.Name) and hops < 4:
        # `size = self.map[k].obj_size` ... `counter -= size`
        ds = []
        for i in nodes:
            ds += fa.df.reaching(i, v.id)
        ds = list({d.node: d for d in ds}.values())
        if len(ds) != 1 or ds[0].kind != "assign" or ds[0].value is None:
            return None
        v, nodes = ds[0].value, [ds[0].node]
        hops += 1
    if isinstance(v, ast.IfExp):
        # `self.map[k].obj_size if k in self.map else 0`: the recorded size when there is an entry, nothing otherwise
        zero = lambda x: isinstance(x, ast.Constant) and x.value == 0 and x.value is not False
        try:
            lits = fa._atoms(v.test, nodes[0], True)
        except AnalysisError:
            return None
        if len(lits) != 1:
            return None
        (txt, pol) = lits[0]
        if txt not in ("%s in self.%s" % (kx, cm.map), "%s in self.%s.keys()" % (kx, cm.map)):
            return None
        read, other = (v.body, v.orelse) if pol else (v.orelse, v.body)
        if not zero(other) or isinstance(read, ast.IfExp):
            return None
        v = read
    if not (isinstance(v, ast.Attribute) and v.attr == "obj_size"):
        return None
    base = v.value
    read_nodes = list(nodes)
    hops = 0
    while isinstance(base, ast.Name) and hops < 6:
        ds = []
        for i in read_nodes:
            ds += fa.df.reaching(i, base.id)
        ds = list({d.node: d for d in ds}.values())
        if len(ds) != 1 or ds[0].kind != "assign" or ds[0].value is None:
            return None
        base, read_nodes = ds[0].value, [ds[0].node]
        hops += 1
    key = None
    if isinstance(base, ast.Subscript) and self_attr(base.value, cm.map):
        key = base.slice
    elif isinstance(base, ast.Call) and A.call_attr(base) == "get" and self_attr(A.call_recv(base), cm.map) and base.args \
            and (len(base.args) == 1 or A.is_none(base.args[1])):
        key = base.args[0]
    if key is None:
        return None
    try:
        if fa.xnorm(key, read_nodes[0]) != kx:
            return None
    except AnalysisError:
        return None
    return read_nodes


def _deletion_balanced(fa: FA, cm, st, kx, key_text=None):
    """`del self.map[k]` (or a `self.map.pop(k ...)` whose value is not used) is paired with exactly one
    `counter -= <size recorded in the entry of k>` on every path through it, and that size is read out of the map before
    the entry is gone.  -> (ok, why)"""
    blk = _block_of(fa, st)
    key_text = key_text if key_text is not None else A.norm(st.targets[0].slice)
    augs = [s2 for s2 in fa.stmts(ast.AugAssign) if isinstance(s2.op, ast.Sub) and self_attr(s2.target, cm.counter)]
    if not augs:
        return False, "no `%s -= <entry>.obj_size` beside the deletion" % cm.counter
    decs, reads = [], []
    why = ""
    for s2 in augs:
        rn = _entry_size_read(fa, cm, s2.value, s2, kx)
        if rn is None:
            if s2 in blk or len(augs) == 1:
                why = "the subtracted size is not read from %s[%s]" % (cm.map, key_text) \
                    if isinstance(s2.value, ast.Attribute) and s2.value.attr == "obj_size" else "the subtracted amount is not the entry's obj_size"
            continue
        decs.append(s2)
        reads += rn
    if not decs:
        return False, why or "no `%s -= <entry>.obj_size` beside the deletion" % cm.counter
    dn, decn = fa.nodes(st), fa.nodes_all(decs)
    if not all(fa.cfg.must_pass(reads, d) for d in dn):
        return False, "the size is read after the entry is deleted"
    in_blk = [s2 for s2 in decs if s2 in blk]
    if len(in_blk) == 1 and (len(decs) == 1 or _in_loop(fa, st)):
        return True, ""
    if _in_loop(fa, st):
        return False, why or "no `%s -= <entry>.obj_size` beside the deletion" % cm.counter
    if not every_path_through(fa, dn, decn):
        return False, why or "the deletion is not balanced by a counter decrement on every path"
    if not at_most_once(fa, decn):
        return False, "the entry's size is subtracted more than once"
    return True, ""


def _size_flow(fa: FA, cm, st, kind):
    """Where the size of the entry bound by statement `st` (`e = self.map.pop(k)`: kind 'entry'; `s = self.map.pop(k).obj_size`:
    kind 'size') is subtracted from the counter, following plain local copies (`s = e.obj_size`, `t = s`).
    -> (the `counter -= ...` statements that subtract it, CFG nodes that rebind a carrying local to something else)"""
    carriers = {(st.targets[0].id, kind): set(fa.nodes(st))}  # (local, what it holds) -> CFG nodes of the definitions that carry it
    changed = True
    rounds = 0
    while changed and rounds < 6:
        changed = False
        rounds += 1
        for s2 in fa.stmts(ast.Assign):
            if len(s2.targets) != 1 or not isinstance(s2.targets[0], ast.Name) or s2 is st:
                continue
            v = s2.value
            got = None
            if isinstance(v, ast.Attribute) and v.attr == "obj_size" and isinstance(v.value, ast.Name) and (v.value.id, "entry") in carriers:
                src, got = (v.value.id, "entry"), "size"
            elif isinstance(v, ast.Name) and ((v.id, "entry") in carriers or (v.id, "size") in carriers):
                src = (v.id, "entry") if (v.id, "entry") in carriers else (v.id, "size")
                got = src[1]
            if got is None:
                continue
            # the copy is taken from a carrying definition and from nothing else
            n2 = fa.nodes(s2)
            if n2 and all(fa.df.reaching(i, src[0]) and all(d.node in carriers[src] for d in fa.df.reaching(i, src[0])) for i in n2):
                k2 = (s2.targets[0].id, got)
                if not set(n2) <= carriers.get(k2, set()):
                    carriers.setdefault(k2, set()).update(n2)
                    changed = True
    subs, others = [], set()

    def zero_def(d):
        return d.kind == "assign" and isinstance(d.value, ast.Constant) and d.value.value == 0 and d.value.value is not False

    for s2 in fa.stmts(ast.AugAssign):
        if not (isinstance(s2.op, ast.Sub) and self_attr(s2.target, cm.counter)):
            continue
        v = s2.value
        if isinstance(v, ast.Attribute) and v.attr == "obj_size" and isinstance(v.value, ast.Name) and (v.value.id, "entry") in carriers:
            key = (v.value.id, "entry")
        elif isinstance(v, ast.Name) and (v.id, "size") in carriers:
            key = (v.id, "size")
        else:
            continue
        ds = [d for i in fa.nodes(s2) for d in fa.df.reaching(i, key[0])]
        if not any(d.node in carriers[key] for d in ds):
            continue
        # what else may reach the subtraction: for an entry, only None (nothing was resident; reading its size would fail, not
        # mis-account); for a size, only a literal 0
        foreign = [d for d in ds if d.node not in carriers[key] and not (key[1] == "size" and zero_def(d))
                   and not (key[1] == "entry" and d.kind == "assign" and d.value is not None and A.is_none(d.value))]
        if foreign:
            continue
        subs.append(s2)
    for (nm, _k), nodes in carriers.items():
        for n in fa.cfg.nodes:
            if n.id in nodes:
                continue
            if any(d.name == nm for d in fa.df.gen.get(n.id, [])):
                others.add(n.id)
    return subs, others


def _zero_unless_mutated(fa: FA, cm, st, mut_nodes) -> bool:
    """`counter -= amount` / `counter += amount` where `amount` is a local: on every path either the amount was set beside a
    mutation of the resident map, or it is the literal 0 (nothing changes, nothing is accounted)."""
    v = st.value
    if not isinstance(v, ast.Name):
        return False
    ds = [d for i in fa.nodes(st) for d in fa.df.reaching(i, v.id)]
    if not ds:
        return False
    for d in ds:
        if d.kind == "assign" and isinstance(d.value, ast.Constant) and d.value.value == 0 and d.value.value is not False:
            continue
        if d.node < 0 or d.kind != "assign" or not every_path_through(fa, [d.node], mut_nodes):
            return False
    return True


def check_accounting(ck, cm: CacheModel):
    R = "C06.R1"
    ck.rule(R, "accounting pairing: every mutation of the resident map / recency queue is balanced by the "
               "matching counter / queue update in the same block; only MemoryCache methods write these slots", 8)
    cg = ck.cg
    # who may write
    for q, muts in cg.field_mut_sites.items():
        for (owner, fld, node) in muts:
            if owner != CACHE_CLASS:
                continue
            f = fld.split(":")[0]
            if f not in (cm.map, cm.queue, cm.counter, cm.budget):
                continue
            fi = cg.funcs[q]
            inside = fi.cls is not None and fi.cls.qual == CACHE_CLASS
            if not inside:
                ck.ob(R, "%s::%s" % (q, A.head(node)), False,
                      "cache slot '%s' is written outside MemoryCache" % f, A.loc(fi, node))
            elif f == cm.budget and fi.name != "__init__":
                ck.ob(R, "%s::%s" % (q, A.head(node)), False,
                      "the budget is reassigned after construction", A.loc(fi, node))
    for name, m in cm.cls.methods.items():
        fa = FA(ck, m)
        for st in fa.stmts():
            # ---- deletions from the map
            if isinstance(st, ast.Delete):
                for t in st.targets:
                    if isinstance(t, ast.Subscript) and self_attr(t.value, cm.map):
                        k = A.norm(t.slice)
                        kx = _xn(fa, t.slice, st)
                        ok, why = _deletion_balanced(fa, cm, st, kx)
                        ck.ob(R, fa.key(st, "del-map"), ok, why or "deletion balanced by counter decrement", fa.where(st))
                        # the queue must drop the key too (same method)
                        rem = [c for c in fa.calls("remove") if self_attr(A.call_recv(c), cm.queue) and c.args and _xn(fa, c.args[0], c) == kx]
                        ck.ob(R, fa.key(st, "del-queue"), bool(rem),
                              "key removed from the recency queue in the same method" if rem else
                              "the deleted key is not removed from the recency queue", fa.where(st))
            # ---- deletions through pop()
            for c in [c for c in A.calls_in(st) if A.call_attr(c) in ("pop", "popitem") and self_attr(A.call_recv(c), cm.map)] if not isinstance(st, (ast.If, ast.For, ast.While, ast.With, ast.Try)) else []:
                k = _xn(fa, c.args[0], st) if c.args else "?"
                ok = False
                edge_ok = None
                why = "the popped entry's size is not subtracted from %s" % cm.counter
                if isinstance(st, ast.AugAssign) and isinstance(st.op, ast.Sub) and self_attr(st.target, cm.counter) \
                        and isinstance(st.value, ast.Attribute) and st.value.attr == "obj_size" and st.value.value is c:
                    ok = True
                elif isinstance(st, ast.Assign) and len(st.targets) == 1 and isinstance(st.targets[0], ast.Name) and \
                        (st.value is c or (isinstance(st.value, ast.Attribute) and st.value.attr == "obj_size" and st.value.value is c)):
                    # the popped entry (or its size) is kept in a local; its size reaches `counter -= ...` through locals
                    ename = st.targets[0].id if st.value is c else None
                    subs, others = _size_flow(fa, cm, st, "entry" if st.value is c else "size")
                    # every path from the pop to the exit either subtracts or found nothing (the popped value is None / falsy)
                    # (the literal of a test names the pop with its locals written out: `old is None` reads `self.map.pop(<key expression>, None) is None`)
                    popxs = {A.norm(c), _xn(fa, c, st), str(ename)}
                    edge_ok = branch_filter(fa, lambda t_, p_, popxs=popxs: (p_ and t_ in {x + " is None" for x in popxs}) or (not p_ and t_ in popxs))
                    subn = fa.nodes_all(subs)
                    # (a pop that raises has taken nothing out: the exception edge of the pop statement itself is not a path "after the pop")
                    popn = set(fa.nodes(st))
                    done = lambda s_, d_, l_: not (s_ in popn and l_ == "exc")
                    edge_ok = both(edge_ok, done)
                    ok = bool(subs) and all(fa.cfg.exit not in fa.cfg.reach([i], removed=subn, edge_ok=edge_ok, include_start=False) for i in fa.nodes(st))
                    if ok and any(o in fa.cfg.reach([i], removed=subn, edge_ok=done, include_start=False) for i in popn for o in others):
                        ok, why = False, "the local that carries the popped entry's size is overwritten before it is subtracted from %s" % cm.counter
                    if ok and not at_most_once(fa, subn):
                        ok, why = False, "the popped entry's size is subtracted more than once"
                elif isinstance(st, ast.Expr) and st.value is c and c.args:
                    # the popped value is dropped: the size was read out of the map beforehand (as for `del self.map[k]`)
                    ok, why2 = _deletion_balanced(fa, cm, st, k, A.norm(c.args[0]))
                    why = why2 or why
                ck.ob(R, fa.key(st, "pop-map"), ok, "pop() balanced by counter decrement" if ok else why, fa.where(st))
                rem = [x for x in fa.calls("remove") if self_attr(A.call_recv(x), cm.queue) and x.args and _xn(fa, x.args[0], x) == k]
                # the queue entry goes whenever the key may be queued, also when it was not resident: a path may skip
                # the removal only on the edge that says the key is not in the queue
                not_queued = branch_filter(fa, lambda t_, p_, k=k: not p_ and (t_ == "%s in self.%s" % (k, cm.queue) or t_ in ("self.%s.count(%s)" % (cm.queue, k), "self.%s.count(%s) > 0" % (cm.queue, k))))
                okq = bool(rem) and all(fa.cfg.exit not in fa.cfg.reach([i], removed=fa.nodes_all(rem), edge_ok=both(edge_ok, not_queued), include_start=False)
                                        for i in fa.nodes(st))
                ck.ob(R, fa.key(st, "pop-queue"), okq,
                      "the popped key is removed from the recency queue on every path" if okq else
                      "a key deleted from the resident map can stay in the recency queue (early return / no queue.remove): a stale queue slot "
                      "later evicts a freshly written entry instead of the least recently used one", fa.where(st))
            # ---- insertions
            if isinstance(st, ast.Assign):
                for t in st.targets:
                    if isinstance(t, ast.Subscript) and self_attr(t.value, cm.map):
                        k = A.norm(t.slice)
                        kx = _xn(fa, t.slice, st)
                        blk = _block_of(fa, st)
                        entry, size_expr, forms = size_forms(fa, st)
                        ins_nodes = fa.nodes(st)
                        ok = False
                        why = "no `%s += <size>` beside the insertion" % cm.counter
                        if size_expr is None:
                            why = "cannot see the size the inserted entry was built with"
                        else:
                            bt = BudgetTests(fa, cm, st, entry, size_expr, forms)
                            good = []
                            for s2 in fa.stmts((ast.AugAssign, ast.Assign)):
                                near = s2 in blk or not _in_loop(fa, st)
                                if isinstance(s2, ast.AugAssign) and self_attr(s2.target, cm.counter):
                                    if not isinstance(s2.op, ast.Add):
                                        if s2 in blk:
                                            why = "counter updated with %s at an insertion" % type(s2.op).__name__
                                    elif not (A.norm(s2.value) in forms or any(bt._is_size(s2.value, i) for i in fa.nodes(s2))):
                                        if near:
                                            why = "counter grows by `%s` but the entry records `%s`" % (A.norm(s2.value), A.norm(size_expr))
                                    elif isinstance(size_expr, ast.Name) and not all(
                                        fa.df.same_defs(size_expr.id, a, b)
                                        for a in fa.nodes(s2) for b in fa.nodes(fa.stmt_of(entry) or st)):
                                        if near:
                                            why = "the size is redefined between building the entry and accounting for it"
                                    else:
                                        good.append(s2)
                                elif isinstance(s2, ast.Assign) and any(self_attr(x, cm.counter) for x in s2.targets) and s2 in blk:
                                    why = "counter is overwritten (=) instead of incremented at an insertion"
                            in_blk = [s2 for s2 in good if s2 in blk]
                            if len(in_blk) == 1 and not [s2 for s2 in blk if isinstance(s2, ast.Assign) and any(self_attr(x, cm.counter) for x in s2.targets)]:
                                ok, why = True, ""
                            elif good and not _in_loop(fa, st) and every_path_through(fa, ins_nodes, fa.nodes_all(good)) and at_most_once(fa, fa.nodes_all(good)) \
                                    and not [s2 for s2 in fa.stmts(ast.Assign) if any(self_attr(x, cm.counter) for x in s2.targets)]:
                                ok, why = True, ""
                        ck.ob(R, fa.key(st, "ins-map"), ok, why or "insertion balanced by counter increment", fa.where(st))
                        app_all = [s2 for s2 in fa.stmts(ast.Expr) if isinstance(s2.value, ast.Call)
                                   and A.call_attr(s2.value) == "append" and self_attr(A.call_recv(s2.value), cm.queue)
                                   and s2.value.args and _xn(fa, s2.value.args[0], s2) == kx]
                        # the mark-used helper (R3 mark-used-shape: removes the key, then appends it at the right end on every path) queues the key as well
                        app_all += [s2 for s2 in fa.stmts(ast.Expr) if isinstance(s2.value, ast.Call) and cm.is_self_call(s2.value, cm.mark_used)
                                    and s2.value.args and _xn(fa, s2.value.args[0], s2) == kx and s2 not in app_all]
                        app = [s2 for s2 in app_all if s2 in blk]
                        okq = len(app) == 1 or (not app and not _in_loop(fa, st) and bool(app_all) and every_path_through(fa, ins_nodes, fa.nodes_all(app_all))
                                                and at_most_once(fa, fa.nodes_all(app_all)))
                        ck.ob(R, fa.key(st, "ins-queue"), okq,
                              "key appended (right end) to the recency queue once" if okq else
                              "the inserted key is appended to the recency queue %d times in the block" % len(app), fa.where(st))
                        # overwrite cannot leak: an eviction of the same key dominates the insertion
                        ev = [c for c in fa.calls(cm.evict.name) if cm.is_self_call(c, cm.evict) and c.args and _xn(fa, c.args[0], c) == kx]
                        # ... or the entry of that key is taken out of the map right here (each such statement is held to the
                        # accounting of a deletion above); a way round it on which the key is known not to be resident needs none
                        ev += [s2 for s2 in fa.stmts(ast.Delete) if any(isinstance(t2, ast.Subscript) and self_attr(t2.value, cm.map) and _xn(fa, t2.slice, s2) == kx
                                                                       for t2 in s2.targets)]
                        ev += [c for c in fa.calls("pop") if self_attr(A.call_recv(c), cm.map) and c.args and _xn(fa, c.args[0], c) == kx]
                        not_resident = branch_filter(fa, lambda t_, p_, kx=kx: not p_ and t_ in ("%s in self.%s" % (kx, cm.map), "%s in self.%s.keys()" % (kx, cm.map)))
                        dom = bool(ev) and all(fa.cfg.must_pass(fa.nodes_all(ev), n, edge_ok=not_resident) for n in ins_nodes)
                        ck.ob(R, fa.key(st, "ins-after-evict"), dom,
                              "an eviction of the same key dominates the insertion" if dom else
                              "the insertion is not dominated by an eviction of the same key: an overwrite leaks the old size",
                              fa.where(st))
                    elif self_attr(t, cm.counter) and name != "__init__":
                        # plain assignment to the counter: only `= 0` together with map.clear()
                        clears = slot_calls(fa, cm.map, ("clear",))
                        ok = isinstance(st.value, ast.Constant) and st.value.value == 0 and bool(clears)
                        ck.ob(R, fa.key(st, "counter-assign"), ok,
                              "counter reset together with map.clear()" if ok else
                              "counter assigned outside of a full clear", fa.where(st))
            if isinstance(st, ast.AugAssign) and self_attr(st.target, cm.counter):
                blk = _block_of(fa, st)
                paired = any(
                    (isinstance(s2, ast.Delete) and any(isinstance(t, ast.Subscript) and self_attr(t.value, cm.map) for t in s2.targets))
                    or (isinstance(s2, ast.Assign) and any(isinstance(t, ast.Subscript) and self_attr(t.value, cm.map) for t in s2.targets))
                    or any(A.call_attr(c) in ("pop", "popitem") and self_attr(A.call_recv(c), cm.map) for c in A.calls_in(s2)
                           if not isinstance(s2, (ast.If, ast.For, ast.While, ast.With, ast.Try)))
                    for s2 in blk)
                if not paired and not _in_loop(fa, st):
                    # not side by side: every path through the adjustment also changes the resident map
                    mut = [s2 for s2 in fa.stmts((ast.Delete, ast.Assign)) if any(isinstance(t, ast.Subscript) and self_attr(t.value, cm.map)
                                                                                     for t in (s2.targets if isinstance(s2, (ast.Delete, ast.Assign)) else []))]
                    mut += [c for c in fa.calls() if A.call_attr(c) in ("pop", "popitem") and self_attr(A.call_recv(c), cm.map)]
                    paired = bool(mut) and (every_path_through(fa, fa.nodes(st), fa.nodes_all(mut)) or _zero_unless_mutated(fa, cm, st, fa.nodes_all(mut)))
                ck.ob(R, fa.key(st, "counter-aug"), paired,
                      "counter adjustment sits beside a map mutation" if paired else
                      "counter adjusted without a map mutation in the same block", fa.where(st))
        # ---- clear
        for c in slot_calls(fa, cm.map, ("clear",)):
            if True:
                st = fa.stmt_of(c)
                zero = [s for s in fa.stmts(ast.Assign) if any(self_attr(t, cm.counter) for t in s.targets)
                        and isinstance(s.value, ast.Constant) and s.value.value == 0]
                qclear = slot_calls(fa, cm.queue, ("clear",))
                ck.ob(R, fa.key(st, "clear-counter"), bool(zero),
                      "map.clear() paired with counter = 0" if zero else "map.clear() without resetting the counter", fa.where(st))
                ck.ob(R, fa.key(st, "clear-queue"), bool(qclear),
                      "map.clear() paired with queue.clear()" if qclear else "map.clear() without clearing the recency queue", fa.where(st))
    # entry size is immutable
    for q, fi in ck.cg.funcs.items():
        for n in A.walk_body(fi.node):
            if isinstance(n, (ast.Assign, ast.AugAssign)):
                ts = n.targets if isinstance(n, ast.Assign) else [n.target]
                for t in ts:
                    if isinstance(t, ast.Attribute) and t.attr == "obj_size" and not (fi.cls and fi.cls.name == "_CacheEntry"):
                        ck.ob(R, "%s::%s" % (q, A.head(n)), False, "an entry's recorded size is modified after construction", A.loc(fi, n))
    ecls = ck.repo.cls("storage_base._CacheEntry")
    ce = ecls.methods.get("__init__")
    if ce is None:
        # a generated constructor (dataclass / NamedTuple) stores every declared field from the parameter of the same name
        gen = _generated_fields(ecls)
        ck.need(gen is not None, "_CacheEntry has neither an __init__ nor a generated constructor (dataclass / NamedTuple)")
        post = ecls.methods.get("__post_init__")
        rew = post is not None and any(isinstance(t, ast.Attribute) and t.attr == "obj_size" for n in ast.walk(post.node)
                                       for t in (n.targets if isinstance(n, ast.Assign) else [n.target] if isinstance(n, (ast.AugAssign, ast.AnnAssign)) else []))
        ok = "obj_size" in gen and not rew
        ck.ob(R, ecls.qual + ".__init__::obj_size", ok, "entry stores the size it was given" if ok else
              "_CacheEntry does not store its obj_size parameter", A.loc(ecls, ecls.node))
    else:
        stores = []
        for s_ in A.all_stmts(ce.node):
            for (t, v) in assign_pairs(s_):
                pairs = list(zip(t.elts, v.elts)) if isinstance(t, (ast.Tuple, ast.List)) and isinstance(v, (ast.Tuple, ast.List)) and len(t.elts) == len(v.elts) else [(t, v)]
                if any(self_attr(t2, "obj_size") and isinstance(v2, ast.Name) and v2.id == "obj_size" for (t2, v2) in pairs):
                    stores.append(s_)
        ck.ob(R, ce.qual + "::obj_size", bool(stores), "entry stores the size it was given" if stores else
              "_CacheEntry does not store its obj_size parameter", A.loc(ce, ce.node))


class BudgetTests:
    """What the branch tests of an inserting method establish about the budget, whatever their spelling.

    A comparison is brought to the linear form `k * (counter + size - budget) <op> 0` (room) or
    `k * (size - budget) <op> 0` (oversize): operands on either side, `>` / `<` / `>=` / `<=` / `not`,
    `budget - counter < size`, a temporary for the (immutable) budget or for a counter read that is still
    current all give the same facts.  A test of the recency queue (`len(q) > 0`, `q`, `not q`, `len(q) == 0`,
    `0 < len(q)`, ...) is evaluated on lengths to see which outcome means "empty".  An edge of a compound test
    establishes a fact when the truth table of its and / or / not structure says so."""

    def __init__(self, fa: FA, cm: CacheModel, ins, entry, size_expr, forms):
        self.fa, self.cm, self.ins, self.entry, self.size_expr, self.forms = fa, cm, ins, entry, size_expr, forms
        self.ins_nodes = fa.nodes(ins)
        self.entry_nodes = fa.nodes(entry) or self.ins_nodes
        self.unclassified = []  # leaves that read counter / queue / budget / size but have no recognised meaning
        self._writers = None

    # -- roles of the operands ---------------------------------------------------------------------
    def writers(self):
        """CFG nodes that may change the counter or the queue: a call on self / on a state slot, a store to self.*"""
        if self._writers is None:
            out = set()
            for n in self.fa.cfg.nodes:
                if n.ast is None or n.kind not in ("stmt", "test", "for", "with"):
                    continue
                root = n.ast.iter if n.kind == "for" else n.ast
                if n.kind == "with":
                    root = ast.Tuple(elts=[i.context_expr for i in n.ast.items], ctx=ast.Load())
                for x in A.walk_local(root):
                    if isinstance(x, ast.Call) and isinstance(x.func, ast.Attribute):
                        rv = x.func.value
                        if (isinstance(rv, ast.Name) and rv.id == "self") or self_attr(rv) in self.cm.mutable_slots:
                            out.add(n.id)
                    if isinstance(x, ast.Attribute) and isinstance(x.ctx, (ast.Store, ast.Del)) and self_attr(x):
                        out.add(n.id)
                    if isinstance(x, ast.Subscript) and isinstance(x.ctx, (ast.Store, ast.Del)) and self_attr(x.value):
                        out.add(n.id)
            self._writers = out
        return self._writers

    def _fresh(self, def_node, use_node) -> bool:
        """The value bound at `def_node` is still what the state holds at `use_node`: no writer in between."""
        cfg = self.fa.cfg
        r1 = cfg.reach([def_node], removed=[def_node], include_start=False)
        for w in self.writers() & r1:
            if w == use_node:
                continue
            if use_node in cfg.reach([w], removed=[def_node], include_start=False):
                return False
        return True

    def _through_local(self, t, nid):
        """`t` or, for a local with one reaching plain assignment, (the assigned value, its node)."""
        if isinstance(t, ast.Name):
            ds = self.fa.df.reaching(nid, t.id)
            if len(ds) == 1 and ds[0].kind == "assign" and ds[0].value is not None:
                return ds[0].value, ds[0].node
        return t, None

    def _is_size(self, t, nid) -> bool:
        fa = self.fa
        se = self.size_expr
        if isinstance(t, ast.Name):
            if isinstance(se, ast.Name) and se.id == t.id:
                return all(fa.df.same_defs(t.id, nid, i) for i in self.entry_nodes)
            v, dn = self._through_local(t, nid)
            if dn is not None and v is not t:
                return self._is_size(v, dn)
            return False
        if isinstance(t, ast.Attribute) and t.attr == "obj_size":
            v, dn = self._through_local(t.value, nid)
            if v is self.entry or (isinstance(self.ins.value, ast.Name) and isinstance(t.value, ast.Name) and t.value.id == self.ins.value.id
                                   and all(fa.df.same_defs(t.value.id, nid, i) for i in self.ins_nodes)):
                return True
            return False
        if not isinstance(se, ast.Name):
            try:
                return fa.xnorm(t, nid) == fa.xnorm(se, self.entry_nodes[0])
            except AnalysisError:
                return False
        return False

    def role(self, t, nid):
        cm = self.cm
        if self_attr(t, cm.budget):
            return "budget"
        if self_attr(t, cm.counter):
            return "counter"
        if isinstance(t, ast.Constant) and t.value == 0 and t.value is not False:
            return "zero"
        if self._is_size(t, nid):
            return "size"
        v, dn = self._through_local(t, nid)
        if dn is not None:
            if self_attr(v, cm.budget):
                return "budget"  # never reassigned after construction (C06.R1)
            if self_attr(v, cm.counter) and self._fresh(dn, nid):
                return "counter"
        return None

    # -- facts established by one leaf --------------------------------------------------------------
    def budget_fact(self, leaf, nid):
        """-> (kind, {True: fact, False: fact}) with kind 'room' | 'oversize' | 'counter-only', fact 'fits' | 'over' | None;
        None when the leaf is not a comparison of these quantities."""
        if not (isinstance(leaf, ast.Compare) and len(leaf.ops) == 1):
            return None
        op = type(leaf.ops[0])
        if op not in (ast.Gt, ast.Lt, ast.GtE, ast.LtE, ast.Eq, ast.NotEq):
            return None
        terms = [(s, t, nid) for (s, t) in linear_terms(leaf.left)] + [(-s, t, nid) for (s, t) in linear_terms(leaf.comparators[0])]
        vec = {"counter": 0, "size": 0, "budget": 0}
        budget_steps = 0
        while terms:
            (sg, t, at) = terms.pop()
            r = self.role(t, at)
            if r is None:
                # a local holding a sum / difference of these quantities (`needed = self.counter + size`), computed where it is still current
                v, dn = self._through_local(t, at)
                budget_steps += 1
                if dn is not None and isinstance(v, ast.BinOp) and isinstance(v.op, (ast.Add, ast.Sub)) and self._fresh(dn, at) and budget_steps < 12:
                    terms += [(sg * s2, t2, dn) for (s2, t2) in linear_terms(v)]
                    continue
                return None
            if r != "zero":
                vec[r] += sg
        v = (vec["counter"], vec["size"], vec["budget"])
        kinds = {(1, 1, -1): ("room", 1), (-1, -1, 1): ("room", -1), (0, 1, -1): ("oversize", 1), (0, -1, 1): ("oversize", -1),
                 (1, 0, -1): ("counter-only", 1), (-1, 0, 1): ("counter-only", -1)}
        if v not in kinds:
            # every operand is understood, but the comparison is not one of budget and accounts: it establishes nothing
            return "other", {True: None, False: None}
        kind, k = kinds[v]
        if k < 0:
            op = {ast.Gt: ast.Lt, ast.Lt: ast.Gt, ast.GtE: ast.LtE, ast.LtE: ast.GtE}.get(op, op)
        # excess <op> 0, where excess <= 0 means "fits"
        table = {ast.Gt: {True: "over", False: "fits"}, ast.LtE: {True: "fits", False: "over"},
                 ast.GtE: {True: None, False: "fits"}, ast.Lt: {True: "fits", False: None},
                 ast.Eq: {True: "fits", False: None}, ast.NotEq: {True: None, False: "fits"}}[op]
        if kind == "counter-only":
            if self._size_booked_before(nid):
                # the size of this insertion is on the counter already on every way here: the counter IS counter + size
                return "room", table
            table = {True: None, False: None}
        return kind, table

    def _size_booked_before(self, nid) -> bool:
        """every path from the entry to CFG node `nid` has added the size of this insertion to the usage counter (a put that books
        first and makes room afterwards)"""
        fa, cm = self.fa, self.cm
        books = [st for st in fa.stmts(ast.AugAssign) if isinstance(st.op, ast.Add) and self_attr(st.target, cm.counter)
                 and any(A.norm(st.value) in self.forms or self._is_size(st.value, i) for i in fa.nodes(st))]
        bn = fa.nodes_all(books)
        return bool(bn) and nid not in bn and fa.cfg.must_pass(bn, nid)

    def _is_queue_len(self, e, nid):
        v, dn = self._through_local(e, nid)
        if dn is not None and not self._fresh(dn, nid):
            return False
        return isinstance(v, ast.Call) and isinstance(v.func, ast.Name) and v.func.id == "len" and len(v.args) == 1 and bool(self_attr(v.args[0], self.cm.queue))

    def empty_fact(self, leaf, nid):
        """-> {True: fact, False: fact} with fact 'empty' | 'nonempty' | None; None when the leaf does not test the queue."""
        q = self.cm.queue
        v, dn = self._through_local(leaf, nid)
        if dn is not None and not self._fresh(dn, nid):
            return None
        if self_attr(v, q) or self._is_queue_len(v, nid) or (isinstance(v, ast.Call) and isinstance(v.func, ast.Name) and v.func.id == "bool"
                                                             and len(v.args) == 1 and (self_attr(v.args[0], q) or self._is_queue_len(v.args[0], nid))):
            return {True: "nonempty", False: "empty"}
        if isinstance(v, ast.Compare) and len(v.ops) == 1:
            l, r = v.left, v.comparators[0]
            opf = {ast.Gt: lambda a, b: a > b, ast.Lt: lambda a, b: a < b, ast.GtE: lambda a, b: a >= b, ast.LtE: lambda a, b: a <= b,
                   ast.Eq: lambda a, b: a == b, ast.NotEq: lambda a, b: a != b}.get(type(v.ops[0]))
            if opf is None:
                return None
            if self._is_queue_len(l, nid) and isinstance(r, ast.Constant) and isinstance(r.value, int):
                f = lambda n: opf(n, r.value)
                c = r.value
            elif self._is_queue_len(r, nid) and isinstance(l, ast.Constant) and isinstance(l.value, int):
                f = lambda n: opf(l.value, n)
                c = l.value
            else:
                return None
            dom = range(0, max(c, 0) + 4)
            true_set = {n for n in dom if f(n)}
            false_set = set(dom) - true_set
            return {True: "empty" if true_set == {0} else ("nonempty" if true_set and 0 not in true_set else None),
                    False: "empty" if false_set == {0} else ("nonempty" if false_set and 0 not in false_set else None)}
        return None

    def _flag_facts(self, leaf, nid, kind, _depth=0):
        """A boolean local used as (part of) a test -- `fits = size <= budget` ... `if not fits:` -- says what the comparison
        it was assigned says, provided what that comparison read is still current where the flag is tested.
        -> function(value) -> bool, or None when the leaf is not such a flag."""
        if not isinstance(leaf, ast.Name) or _depth > 3:
            return None
        v, dn = self._through_local(leaf, nid)
        if dn is None or not isinstance(v, (ast.Compare, ast.BoolOp, ast.UnaryOp)):
            return None
        if kind == "room" and not self._fresh(dn, nid):
            return None
        inner = {}
        v = self._inline_predicates(v)
        for lf in bool_leaves(v):
            bf = self.budget_fact(lf, dn)
            ef = self.empty_fact(lf, dn) if kind == "room" else None
            sub = self._flag_facts(lf, dn, kind, _depth + 1) if bf is None and ef is None else None
            inner[id(lf)] = (bf, ef, sub)

        def inner_fact(lf, value):
            bf, ef, sub = inner[id(lf)]
            return bool((bf is not None and bf[0] == kind and bf[1][value] == "fits") or (ef is not None and ef[value] == "empty")
                        or (sub is not None and sub(value)))

        return lambda value: edge_implies(v, value, inner_fact)

    # -- edges ------------------------------------------------------------------------------------------
    def establishing(self, kind):
        """Branch edges (test node id, 'T' | 'F') whose taking implies: kind 'oversize' -> size <= budget;
        kind 'room' -> counter + size <= budget, or the queue is empty."""
        out = set()
        cm = self.cm
        watched = {"attr:self." + cm.counter, "attr:self." + cm.queue, "attr:self." + cm.budget}
        if kind == "room":
            out |= self._empty_queue_exception_edges()
            out |= self._counted_loop_exhaustion_edges()
        for n in self.fa.cfg.nodes:
            if n.kind != "test" or n.ast is None:
                continue
            facts = {}
            test = self._inline_predicates(n.ast)
            for lf in bool_leaves(test):
                bf = self.budget_fact(lf, n.id)
                ef = self.empty_fact(lf, n.id) if kind == "room" else None
                sub = self._flag_facts(lf, n.id, kind) if bf is None and ef is None else None
                facts[id(lf)] = (bf, ef, sub)
                if bf is None and ef is None and sub is None and kind == "room" and isinstance(self.fa.pm.get(n.ast), ast.While):
                    try:
                        d = self.fa.df.deps(lf, n.id)
                    except Exception:
                        d = set()
                    if d & watched and lf not in [u for (u, _) in self.unclassified]:
                        self.unclassified.append((lf, n.id))

            def fact_of(lf, value, facts=facts):
                bf, ef, sub = facts[id(lf)]
                if bf is not None and bf[0] == kind and bf[1][value] == "fits":
                    return True
                if ef is not None and ef[value] == "empty":
                    return True
                if sub is not None and sub(value):
                    return True
                return False

            for label in ("T", "F"):
                if edge_implies(test, label == "T", fact_of):
                    out.add((n.id, label))
        return out

    def _inline_predicates(self, test):
        """`while self._needs_room(size):` -- a test that calls a method of the cache whose body is one `return <expression>`
        says what that expression says with the arguments put in (it is evaluated right there, so what it reads is current).
        -> the test itself, or a copy with such calls replaced by the helper's expression."""
        import copy
        cls = self.cm.cls

        def helper_expr(c):
            f = c.func
            if not (isinstance(f, ast.Attribute) and isinstance(f.value, ast.Name) and f.value.id in ("self", cls.name) and f.attr in cls.methods):
                return None
            m = cls.methods[f.attr]
            body = A.sig_stmts(m.node.body)
            if len(body) != 1 or not isinstance(body[0], ast.Return) or body[0].value is None:
                return None
            params = list(m.params) if m.is_static else list(m.params[1:])
            if any(isinstance(a, ast.Starred) for a in c.args) or any(k.arg is None for k in c.keywords) or len(c.args) > len(params):
                return None
            bind = dict(zip(params, c.args))
            for k in c.keywords:
                if k.arg not in params or k.arg in bind:
                    return None
                bind[k.arg] = k.value
            if set(bind) != set(params):
                return None
            me = None if m.is_static else m.params[0]

            class Sub(ast.NodeTransformer):
                def visit_Name(self, n):
                    if isinstance(n.ctx, ast.Load) and n.id in bind:
                        return copy.deepcopy(bind[n.id])
                    if me is not None and n.id == me and me != "self":
                        return ast.copy_location(ast.Name(id="self", ctx=n.ctx), n)
                    return n

            return Sub().visit(copy.deepcopy(body[0].value))

        if not any(isinstance(x, ast.Call) and helper_expr(x) is not None for x in ast.walk(test)):
            return test

        class Inl(ast.NodeTransformer):
            def visit_Call(self, c):
                self.generic_visit(c)
                e = helper_expr(c)
                return ast.copy_location(e, c) if e is not None else c

        out = Inl().visit(copy.deepcopy(test))
        ast.fix_missing_locations(out)
        return out

    def _counted_loop_exhaustion_edges(self):
        """(node, 'F') for `for _ in range(len(self.queue)):` loops in which every completed iteration takes at least one key
        out of the queue and nothing puts one in: when such a loop runs out, the queue is empty."""
        out = set()
        fa, cm = self.fa, self.cm
        cfg = fa.cfg
        for n in cfg.nodes:
            if n.kind != "for" or n.ast is None:
                continue
            it = n.ast.iter
            snapshot_var = queue_snapshot_loop_var(cm, n.ast)
            if snapshot_var is None and not (isinstance(it, ast.Call) and isinstance(it.func, ast.Name) and it.func.id == "range" and len(it.args) == 1
                                              and not it.keywords and self._is_queue_len(it.args[0], n.id)):
                continue
            starts = [d for (d, l) in cfg.succ[n.id] if l == "T"]
            region = {i for i in cfg.reach(starts, removed=[n.id]) if n.id in cfg.reach([i])}  # the loop body: can come round again
            takers, spoiled = set(), False
            for i in region:
                nd = cfg.node(i)
                if nd.ast is None or nd.kind not in ("stmt", "test", "for", "with"):
                    continue
                root = nd.ast.iter if nd.kind == "for" else nd.ast
                if nd.kind == "with":
                    root = ast.Tuple(elts=[w.context_expr for w in nd.ast.items], ctx=ast.Load())
                for x in A.walk_local(root):
                    if not isinstance(x, ast.Call):
                        continue
                    if self_attr(A.call_recv(x), cm.queue):
                        if A.call_attr(x) in ("popleft", "pop", "remove") and fa.unconditional(x):
                            if snapshot_var is None:
                                takers.add(i)
                        elif A.call_attr(x) not in ("popleft", "pop", "remove", "count", "index", "copy", "__len__", "__contains__"):
                            spoiled = True
                    elif cm.is_self_call(x, cm.evict) and x.args and fa.unconditional(x):
                        a0 = safe_expand(fa, x.args[0], x)
                        if snapshot_var is not None:
                            # a walk over a copy of the queue: the loop runs out with an empty queue when every key visited is evicted
                            if isinstance(a0, ast.Name) and a0.id == snapshot_var and _only_loop_def(fa, a0, i, n.ast):
                                takers.add(i)
                        elif isinstance(a0, ast.Subscript) and self_attr(a0.value, cm.queue):
                            takers.add(i)  # the evict role takes the evicted key out of the queue (C06.R1 del-queue)
                    elif isinstance(x.func, ast.Attribute) and isinstance(x.func.value, ast.Name) and x.func.value.id == "self" \
                            and not cm.is_self_call(x, cm.evict):
                        spoiled = True  # another method of the cache may queue a key
            if spoiled or not takers:
                continue
            # a completed iteration: from the body's start back to the loop head
            if n.id not in cfg.reach(starts, removed=takers):
                out.add((n.id, "F"))
        return out

    def _empty_queue_exception_edges(self):
        """(node, 'exc') for statements whose only way to fail is taking the left / right end of the EMPTY recency queue
        (`v = self.queue.popleft()`, `self.queue[0]`) inside a try that catches IndexError: leaving by that edge means the
        queue is empty."""
        out = set()
        fa, cm = self.fa, self.cm
        cfg = fa.cfg
        for n in cfg.nodes:
            if n.kind != "stmt" or n.ast is None or not isinstance(n.ast, (ast.Assign, ast.Expr, ast.AnnAssign)):
                continue
            v = n.ast.value
            takes = (isinstance(v, ast.Call) and A.call_attr(v) in ("popleft", "pop") and not v.args and self_attr(A.call_recv(v), cm.queue)) or \
                (isinstance(v, ast.Subscript) and self_attr(v.value, cm.queue) and isinstance(v.slice, ast.Constant) and v.slice.value in (0, -1))
            if not takes:
                continue
            if isinstance(n.ast, ast.Assign) and not all(isinstance(t, ast.Name) for t in n.ast.targets):
                continue
            for (d, l) in cfg.succ[n.id]:
                dn = cfg.node(d)
                if l == "exc" and dn.kind == "except" and dn.ast is not None and dn.ast.type is not None:
                    t = dn.ast.type
                    names = [A.norm(x) for x in (t.elts if isinstance(t, ast.Tuple) else [t])]
                    if all(x in ("IndexError", "LookupError") for x in names):
                        out.add((n.id, "exc"))
        return out


def queue_snapshot_loop_var(cm, loop):
    """`for v in list(self.queue):` / tuple(...) / deque(...) / self.queue.copy() -- a walk over a copy of the recency queue, oldest
    key first.  -> the loop variable's name, or None"""
    if not isinstance(loop, ast.For) or not isinstance(loop.target, ast.Name):
        return None
    it = loop.iter
    if isinstance(it, ast.Call) and isinstance(it.func, ast.Name) and it.func.id in ("list", "tuple", "deque") and len(it.args) == 1 and not it.keywords \
            and self_attr(it.args[0], cm.queue):
        return loop.target.id
    if isinstance(it, ast.Call) and A.call_attr(it) == "copy" and not it.args and self_attr(A.call_recv(it), cm.queue):
        return loop.target.id
    return None


def _only_loop_def(fa: FA, name, nid, loop) -> bool:
    ds = fa.df.reaching(nid, name.id)
    return len(ds) == 1 and ds[0].kind == "for" and ds[0].stmt is loop


def _without(edges):
    return lambda s, d, l: (s, l) not in edges


def check_budget(ck, cm: CacheModel):
    R = "C06.R2"
    ck.rule(R, "budget: the insertion is dominated by the oversize guard and by an evict-until-fits loop whose "
               "negated test implies counter + size <= budget (or the queue is empty), with no write to "
               "counter/size/budget in between", 3)
    for m in cm.inserts:
        fa = FA(ck, m)
        sites = [s for s in fa.stmts(ast.Assign) if any(isinstance(t, ast.Subscript) and self_attr(t.value, cm.map) for t in s.targets)]
        for ins in sites:
            _check_budget_site(ck, cm, R, fa, ins)


def _check_budget_site(ck, cm, R, fa, ins):
    ins_nodes = fa.some(fa.nodes(ins), "reachable insertion node")
    entry, size_expr, forms = size_forms(fa, ins)
    ck.need(entry is not None, "%s: inserted value is not a _CacheEntry(...)" % fa.qual)
    ck.need(size_expr is not None, "%s: cannot see the size the entry is built with" % fa.qual)
    size = size_expr.id if isinstance(size_expr, ast.Name) else None
    size_txt = A.norm(size_expr)
    cfg = fa.cfg
    bt = BudgetTests(fa, cm, ins, entry, size_expr, forms)
    # (a) oversize guard: every way to the insertion takes a branch edge that implies size <= budget
    est_over = bt.establishing("oversize")
    okg = not (set(ins_nodes) & cfg.reach([cfg.entry], edge_ok=_without(est_over)))
    ck.ob(R, fa.key(ins, "oversize-guard"), okg,
          "`%s > %s` exits before the insertion on every path" % (size_txt, cm.budget) if okg else
          "no dominating `%s > self.%s` guard whose true-branch avoids the insertion: an oversize result can become resident" % (size_txt, cm.budget),
          fa.where(ins))
    # (b) evict-until-fits: every way to the insertion takes a branch edge that implies
    #     counter + size <= budget or an empty queue, and nothing is written afterwards
    est_room = bt.establishing("room")
    g_room = _without(est_room)
    okl = not (set(ins_nodes) & cfg.reach([cfg.entry], edge_ok=g_room))
    if not okl and bt.unclassified and not any(bt.budget_fact(lf, nid) for (lf, nid) in bt.unclassified):
        # a loop test over counter / queue / budget in a form whose meaning is not decided here
        raise AnalysisError("%s: the test `%s` of the eviction loop reads the cache accounts in a form this rule cannot interpret"
                            % (fa.qual, A.short(bt.unclassified[0][0], 60)))
    ck.ob(R, fa.key(ins, "room-loop"), okl,
          "evict-until-fits loop `while ... %s + %s > %s` dominates the insertion" % (cm.counter, size_txt, cm.budget) if okl else
          "no dominating loop on `self.%s + %s > self.%s`: the budget can be exceeded" % (cm.counter, size_txt, cm.budget),
          fa.where(ins))
    # the loops that make room: While statements that evict and lead to the insertion
    loops = []
    for wst in fa.stmts((ast.While, ast.For)):
        evs = [c for c in A.calls_in(wst) if cm.is_self_call(c, cm.evict)]
        heads = fa.nodes(wst.test) if isinstance(wst, ast.While) else fa.cfg.nodes_of(wst)
        if evs and heads and any(set(ins_nodes) & cfg.reach([h]) for h in heads):
            loops.append((wst, evs, heads))
    for (wst, evs, heads) in loops:
        ok_other = not (set(ins_nodes) & cfg.reach(heads, edge_ok=g_room))
        ck.ob(R, fa.key(wst, "loop-test"), ok_other,
              "loop stops only when it fits or nothing is left to evict" if ok_other else
              "the eviction loop can be left (%s) without `self.%s + %s <= self.%s` or an empty queue: it may stop before the new entry fits"
              % (", ".join(sorted({"`%s`" % A.short(cfg.node(s).ast, 50) for (s, l) in _loop_exits(fa, wst) if not isinstance(cfg.node(s).ast, ast.Constant)
                                   and (s, "T") not in est_room and (s, "F") not in est_room})) or "extra exit",
                 cm.counter, size_txt, cm.budget),
              fa.where(wst))
        # loop body evicts the left end of the queue
        left = []
        for c in evs:
            if not c.args:
                continue
            a0 = safe_expand(fa, c.args[0], c)
            if isinstance(a0, ast.Call) and A.call_attr(a0) == "popleft" and self_attr(A.call_recv(a0), cm.queue):
                left.append(c)
            elif isinstance(a0, ast.Subscript) and self_attr(a0.value, cm.queue) and isinstance(a0.slice, ast.Constant) and a0.slice.value == 0 \
                    and a0.slice.value is not False:
                left.append(c)  # the evict role takes the key out of the queue itself (C06.R1 del-queue)
            elif isinstance(a0, ast.Call) and isinstance(a0.func, ast.Name) and a0.func.id == "next" and len(a0.args) == 1 \
                    and isinstance(a0.args[0], ast.Call) and isinstance(a0.args[0].func, ast.Name) and a0.args[0].func.id == "iter" \
                    and len(a0.args[0].args) == 1 and self_attr(a0.args[0].args[0], cm.queue):
                left.append(c)
            elif isinstance(a0, ast.Name) and isinstance(wst, ast.For) and queue_snapshot_loop_var(cm, wst) == a0.id \
                    and all(_only_loop_def(fa, a0, i, wst) for i in fa.nodes(c)) and (h0 := [h for h in heads if cfg.node(h).kind == "for"]) \
                    and (wst_starts := [d for h in h0 for (d, l) in cfg.succ[h] if l == "T"]) \
                    and not (set(h0) & cfg.reach(wst_starts, removed=fa.nodes(c))):
                # a walk over a copy of the queue, oldest first, in which every key visited is evicted before the next one is
                # looked at: the key in hand is always the least recently used one still queued
                left.append(c)
        ck.ob("C06.R3", fa.key(wst, "evict-lru-end"), bool(left),
              "the loop evicts queue.popleft() (least recently used end)" if left else
              "the loop does not evict the left (least recently used) end of the queue", fa.where(wst))
    if okl:
        # nothing between the establishing edge and the insertion touches counter / size / budget
        bad = []
        for n in cfg.nodes:
            if n.ast is None:
                continue
            w = False
            for d in fa.df.gen.get(n.id, []):
                if d.name in ((size,) if size else ()) + ("self." + cm.counter, "self." + cm.budget):
                    w = True
            if n.kind == "stmt":
                for c in A.calls_in(n.ast):
                    if cm.is_self_call(c, cm.evict) or any(cm.is_self_call(c, mi) for mi in cm.inserts):
                        w = True
            if n.kind == "stmt" and isinstance(n.ast, ast.AugAssign) and isinstance(n.ast.op, ast.Add) and self_attr(n.ast.target, cm.counter) \
                    and (A.norm(n.ast.value) in forms or bt._is_size(n.ast.value, n.id)) and not any(cm.is_self_call(c, cm.evict) for c in A.calls_in(n.ast)):
                w = False  # the account of this very insertion, written just ahead of it (held to exactly-once by C06.R1 ins-map)
            if w and n.id not in ins_nodes and set(ins_nodes) & cfg.reach([n.id], edge_ok=g_room, include_start=False):
                bad.append(n)
        ck.ob(R, fa.key(ins, "no-write-after-loop"), not bad,
              "no write to counter/size/budget between loop exit and insertion" if not bad else
              "counter/size/budget written between the loop exit and the insertion: %s" % [A.head(n.ast) for n in bad],
              fa.where(ins))
    # the size variable is the estimate of the very object that is stored
    def _is_est(v):
        return v is not None and isinstance(v, ast.Call) and "estimate" in (A.call_attr(v) or "")
    if size is not None:
        size_defs = []
        for i in ins_nodes:
            size_defs += fa.df.reaching(i, size)
        ok_est = bool(size_defs) and all(_is_est(d.value) for d in size_defs)
    else:
        ok_est = _is_est(size_expr)
    ck.ob(R, fa.key(ins, "size-is-estimate"), ok_est,
          "the accounted size is the estimate computed for this put" if ok_est else
          "the accounted size does not come from the size estimator", fa.where(ins))


def _loop_exits(fa, wst):
    """Branch edges (node, label) of tests inside the loop `wst` (its own test included)."""
    out = []
    for n in fa.cfg.nodes:
        if n.kind == "test" and n.ast is not None and (n.ast is getattr(wst, "test", None) or fa.inside(n.ast, wst)):
            out += [(n.id, "T"), (n.id, "F")]
    return out


def _has_sub(e) -> bool:
    return any((isinstance(x, ast.BinOp) and isinstance(x.op, ast.Sub)) or (isinstance(x, ast.UnaryOp) and isinstance(x.op, ast.USub)) for x in ast.walk(e))


def _bounds_below(text, pol, xs) -> bool:
    """does the branch literal (text, polarity) say `X >= M` / `X > M` for a subtraction-free M, X being one of the texts `xs`?"""
    try:
        e = ast.parse(text, mode="eval").body
    except SyntaxError:
        return False
    if not (isinstance(e, ast.Compare) and len(e.ops) == 1):
        return False
    op = type(e.ops[0])
    l, r = e.left, e.comparators[0]
    mirror = {ast.Gt: ast.Lt, ast.Lt: ast.Gt, ast.GtE: ast.LtE, ast.LtE: ast.GtE}
    negate = {ast.Gt: ast.LtE, ast.LtE: ast.Gt, ast.Lt: ast.GtE, ast.GtE: ast.Lt}
    if op not in mirror:
        return False
    if A.norm(l) in xs:
        other = r
    elif A.norm(r) in xs:
        other, op = l, mirror[op]
    else:
        return False
    if not pol:
        op = negate[op]
    return op in (ast.Gt, ast.GtE) and not _has_sub(other)


def check_estimates_bounded_below(ck, cm, R):
    """The accounts are only honest if a recorded size cannot be negative: an estimator that
    extrapolates (a difference of two measurements scaled up) must bound its result below by something
    that was measured.  Every value a size estimator of the cache returns that involves a subtraction is
    either `max(<extrapolation>, <measured size>)` or is returned only on paths that have compared it with a
    measured size and found it at least as large (`x if x > m else m`, `if x < m: return m` ... `return x`)."""
    n = 0
    for name, m in cm.cls.methods.items():
        if "mem_usage" not in name and "estimate" not in name and "size" not in name:
            continue
        fa = FA(ck, m)
        for r in fa.returns():
            if r.value is None or not fa.nodes(r):
                continue
            bad = None
            seen = False
            conds = None
            for (v_, at_) in value_sources(fa, r):
                # a conditional expression hands out one of two values, each under its own condition
                alts = [(v_, [[]])]
                k = 0
                while k < len(alts) and len(alts) < 16:
                    (x, cs) = alts[k]
                    if isinstance(x, ast.IfExp):
                        try:
                            t_alts, f_alts = fa._alts(x.test, at_, True), fa._alts(x.test, at_, False)
                        except AnalysisError:
                            t_alts, f_alts = [[]], [[]]
                        alts[k:k + 1] = [(x.body, [c + t for c in cs for t in t_alts]), (x.orelse, [c + f for c in cs for f in f_alts])]
                    else:
                        k += 1
                for (x, cs) in alts:
                    try:
                        e = fa.expand(x, at_)
                    except AnalysisError:
                        e = x
                    if not _has_sub(e):
                        continue
                    seen = True
                    if isinstance(e, ast.Call) and isinstance(e.func, ast.Name) and e.func.id == "max" and len(e.args) >= 2 \
                            and any(not _has_sub(a) for a in e.args):
                        continue
                    xs = {A.norm(e), A.norm(x)}
                    try:
                        xs.add(fa.xnorm(x, at_))
                    except AnalysisError:
                        pass
                    if conds is None:
                        conds = fa.conditions(r) or set()
                    # every way of handing this value out has found it at least as large as a measured one
                    ways = [list(pc) + c for pc in (conds or [frozenset()]) for c in cs]
                    if ways and all(any(_bounds_below(t_, p_, xs) for (t_, p_) in w) for w in ways):
                        continue
                    bad = bad or x
            if not seen:
                continue
            n += 1
            ok = bad is None
            ck.ob(R, fa.key(r, "estimate-bounded-below"), ok,
                  "the extrapolated size is bounded below by a measured one" if ok else
                  "`%s` extrapolates from a difference of two sample measurements and can come out negative (heavy rows in the small sample): the entry "
                  "is then resident with a negative size, memory_usage goes down on insertion and the budget is exceeded" % A.short(bad, 60), fa.where(r))
    ck.ob(R, CACHE_CLASS + "::estimate-bounded-below::scan", True, "%d extrapolating size estimates" % n, "")


def check_queue_unbounded(ck, cm, R):
    ini = FA(ck, cm.init)
    for st in ini.stmts((ast.Assign, ast.AnnAssign)):
        qv = [v for (t, v) in assign_pairs(st) if self_attr(t, cm.queue) and isinstance(v, ast.Call)]
        if qv:
            # only a bound makes the queue drop keys: deque(), deque([]), deque(maxlen=None) are all unbounded
            bound = A.arg_or_kw(qv[0], 1, "maxlen")
            ok = (bound is None or A.is_none(bound)) and not any(k.arg is None for k in qv[0].keywords) \
                and not any(isinstance(a, ast.Starred) for a in qv[0].args)
            ck.ob(R, ini.key(None, "queue-unbounded"), ok, "the recency queue never drops keys on its own" if ok else
                  "the recency queue is constructed as `%s`: once full it silently drops the oldest key while its entry stays resident, so that entry "
                  "can never be evicted and the budget is exceeded" % A.norm(qv[0]), ini.where(st))


def _answers_presence(f2: FA, r) -> bool:
    """Can this return hand out a positive presence answer: the constant True, a membership test, or a local that may hold one?"""
    def yes(e, depth=0):
        for x in ast.walk(e):
            if isinstance(x, ast.Constant) and x.value is True:
                return True
            if isinstance(x, ast.Compare) and any(isinstance(o, (ast.In, ast.NotIn)) for o in x.ops):
                return True
            if isinstance(x, ast.Name) and isinstance(x.ctx, ast.Load) and depth < 3:
                for i in f2.nodes(r):
                    for d in f2.df.reaching(i, x.id):
                        if d.kind == "assign" and d.value is not None and yes(d.value, depth + 1):
                            return True
        return False
    return yes(r.value)


def _weak_lookups(cm, e):
    """Keyed lookups in the weak-reference table inside expression `e`: [(lookup node, key expression)] for
    `self.refs[k]`, `self.refs.get(k ...)` / pop / setdefault / __getitem__ / __contains__ and `k in self.refs`."""
    out = []
    if not cm.refs:
        return out
    for x in ast.walk(e):
        if isinstance(x, ast.Subscript) and isinstance(x.ctx, ast.Load) and self_attr(x.value, cm.refs):
            out.append((x, x.slice))
        elif isinstance(x, ast.Call) and A.call_attr(x) in ("get", "pop", "setdefault", "__getitem__", "__contains__") \
                and self_attr(A.call_recv(x), cm.refs) and x.args:
            out.append((x, x.args[0]))
        elif isinstance(x, ast.Compare) and len(x.ops) == 1 and isinstance(x.ops[0], (ast.In, ast.NotIn)) and self_attr(x.comparators[0], cm.refs):
            out.append((x, x.left))
    return out


def _not_resident_edges(fa: FA, cm, kx):
    """An `edge_ok` that refuses every edge whose taking establishes that key `kx` (name-independent text) has no
    entry in the resident map: a branch edge implying `kx not in self.map` / `self.map.get(kx) is None` / an empty map
    (any polarity, nesting, temporaries -- see branch_filter), and the exception edge from a statement that
    subscripts `self.map[kx]` into a handler catching KeyError."""
    m = "self." + cm.map
    present = {"%s in %s" % (kx, m), "%s in %s.keys()" % (kx, m), "%s.__contains__(%s)" % (m, kx), "%s.get(%s)" % (m, kx),
               "%s.get(%s, None)" % (m, kx), m, "len(%s)" % m, "len(%s) > 0" % m, "bool(%s)" % m}
    absent = {"%s.get(%s) is None" % (m, kx), "%s.get(%s, None) is None" % (m, kx), "0 == len(%s)" % m, "len(%s) == 0" % m}
    def sentinel_miss(text) -> bool:
        # `self.map.get(k, D) is D` for a named default D (None, a module-level sentinel object): true exactly when there is no entry
        try:
            e = ast.parse(text, mode="eval").body
        except SyntaxError:
            return False
        if not (isinstance(e, ast.Compare) and len(e.ops) == 1 and isinstance(e.ops[0], ast.Is)):
            return False
        for (g, d) in ((e.left, e.comparators[0]), (e.comparators[0], e.left)):
            if isinstance(g, ast.Call) and A.call_attr(g) == "get" and isinstance(g.func, ast.Attribute) and A.norm(g.func.value) == m and len(g.args) == 2 \
                    and not g.keywords and A.norm(g.args[0]) == kx and (A.dotted(d) is not None or A.is_none(d)) and A.norm(g.args[1]) == A.norm(d):
                return True
        return False

    branches = branch_filter(fa, lambda t_, p_: (p_ and (t_ in absent or sentinel_miss(t_))) or (not p_ and t_ in present))
    memo = {}

    def subscripts_key(s):
        if s not in memo:
            nd = fa.cfg.node(s)
            hit = False
            if nd.ast is not None and nd.kind in ("stmt", "test"):
                for x in A.walk_local(nd.ast):
                    if isinstance(x, ast.Subscript) and isinstance(x.ctx, ast.Load) and self_attr(x.value, cm.map):
                        try:
                            hit = hit or fa.xnorm(x.slice, s) == kx
                        except AnalysisError:
                            pass
            memo[s] = hit
        return memo[s]

    def catches_key_error(d):
        nd = fa.cfg.node(d)
        if nd.kind != "except":
            return False
        t = nd.ast.type
        names = [A.norm(x) for x in (t.elts if isinstance(t, ast.Tuple) else [t])] if t is not None else [None]
        return any(n_ in (None, "KeyError", "LookupError", "Exception", "BaseException") for n_ in names)

    def edge_ok(s, d, l):
        if l == "exc":
            return not (catches_key_error(d) and subscripts_key(s))
        return branches(s, d, l)

    return edge_ok


def _marks_of_key(fa: FA, cm, kx):
    """CFG nodes of `fa` that refresh the recency of key `kx`."""
    def same(c):
        try:
            return bool(c.args) and _xn(fa, c.args[0], c) == kx
        except AnalysisError:
            return False
    out = []
    if cm.mark_used is not None:
        out += fa.nodes_all([c for c in fa.calls(cm.mark_used.name) if cm.is_self_call(c, cm.mark_used) and same(c)])
    rem = [c for c in fa.calls("remove") if self_attr(A.call_recv(c), cm.queue) and same(c)]
    if rem:
        out += fa.nodes_all([c for c in fa.calls("append") if self_attr(A.call_recv(c), cm.queue) and same(c)])
    return out


def check_weak_fallback(ck, cm: CacheModel, R):
    """Recency on read, weak-table side.  The weak-reference table also holds the values of RESIDENT entries (the entry
    keeps its value alive), so an answer taken from that table is an answer about a possibly resident entry unless the
    code has established that the key is not resident.  Clause: on every path on which a reader hands out a value looked
    up in the weak table, or reports presence because the key is in the weak table, either the path has taken an edge
    that says "this key is not in the resident map", or it refreshes the recency of that key.  Otherwise a read of a
    resident entry leaves its queue position untouched and the entry is evicted as if it had not been read."""
    if not cm.refs:
        return
    n_sites = 0
    for name, m in cm.cls.methods.items():
        if m in (cm.evict, cm.mark_used) or m in cm.inserts or name.startswith("__"):
            continue
        f2 = FA(ck, m)
        for r in f2.returns():
            if r.value is None or not f2.nodes(r):
                continue
            # (a) a value / presence answer computed from a keyed lookup in the weak table
            bad = None
            seen = False
            for (v_, at_) in value_sources(f2, r):
                for (lk, key) in _weak_lookups(cm, v_):
                    n_sites += 1
                    seen = True
                    try:
                        kx = f2.xnorm(key, at_)
                    except AnalysisError:
                        kx = A.norm(key)
                    if not every_path_through(f2, [at_], _marks_of_key(f2, cm, kx), edge_ok=_not_resident_edges(f2, cm, kx)):
                        bad = bad or lk
            if seen:
                ck.ob(R, f2.key(r, "weak-only-when-not-resident"), bad is None,
                      "the weak-reference table answers only for keys known not to be resident (or the recency is refreshed)" if bad is None else
                      "`%s` is served from the weak-reference table on a path that has neither established that the key is not resident nor "
                      "refreshed its recency: a resident entry (its value is always in the weak table) is read without moving to the "
                      "most-recently-used end, so it is evicted as if it had not been read" % A.short(bad, 50), f2.where(r))
        # (b) a positive answer returned BECAUSE a branch found the key in the weak table
        m_refs = "self." + cm.refs
        for n in f2.cfg.nodes:
            if n.kind != "test" or n.ast is None or isinstance(f2.pm.get(n.ast), ast.While):
                continue
            for label in ("T", "F"):
                try:
                    atoms = f2._atoms(n.ast, n.id, label == "T")
                except AnalysisError:
                    continue
                keys = []
                for (t_, p_) in atoms:
                    if p_ and t_.endswith(" in " + m_refs):
                        keys.append(t_[:-len(" in " + m_refs)])
                    elif not p_ and t_.startswith(m_refs + ".get(") and t_.endswith(") is None"):
                        keys.append(t_[len(m_refs + ".get("):-len(") is None")])
                for kx in keys:
                    if kx.endswith(", None"):
                        kx = kx[:-len(", None")]
                    marks = set(_marks_of_key(f2, cm, kx))
                    edge_ok = _not_resident_edges(f2, cm, kx)
                    if n.id in marks or n.id not in f2.cfg.reach([f2.cfg.entry], removed=marks, edge_ok=edge_ok):
                        continue
                    starts = [d for (d, l) in f2.cfg.succ[n.id] if l == label and d not in marks and edge_ok(n.id, d, l)]
                    after = f2.cfg.reach(starts, removed=marks, edge_ok=edge_ok)
                    for r in f2.returns():
                        if r.value is None or not _answers_presence(f2, r) or any(_weak_lookups(cm, v_) for (v_, _a) in value_sources(f2, r)):
                            continue
                        rn = [i for i in f2.nodes(r) if i in after]
                        if not rn:
                            continue
                        n_sites += 1
                        # the answer may still refresh the recency after this point (on every way out)
                        ok = all(f2.cfg.exit not in f2.cfg.reach([i], removed=marks, edge_ok=edge_ok, include_start=False) for i in rn)
                        ck.ob(R, f2.key(r, "weak-presence-only-when-not-resident"), ok,
                              "presence found in the weak-reference table is reported only for keys known not to be resident" if ok else
                              "presence is reported because the key is in the weak-reference table, on a path that has neither established that "
                              "the key is not resident nor refreshed its recency: a resident entry is reported without moving to the "
                              "most-recently-used end", f2.where(r))
    ck.ob(R, CACHE_CLASS + "::weak-only-when-not-resident::scan", True, "%d answers taken from the weak-reference table" % n_sites, "")


def check_lru(ck, cm: CacheModel):
    R = "C06.R3"
    ck.rule(R, "LRU discipline: mark-used = remove then append (right end); eviction takes the left end; every "
               "path that serves a resident entry passes mark-used", 4)
    if cm.mark_used is not None:
        fa = FA(ck, cm.mark_used)
        key = cm.mark_used.params[1]
        rem = [c for c in fa.calls("remove") if self_attr(A.call_recv(c), cm.queue)]
        app = [c for c in fa.calls("append") if self_attr(A.call_recv(c), cm.queue)]
        ok = False
        if rem and app:
            appn = fa.nodes_all(app)
            # append post-dominates entry: every path to exit passes an append of the key
            ok = fa.cfg.must_pass(appn, fa.cfg.exit) and all(c.args and A.norm(c.args[0]) == key for c in app + rem)
        ok = ok and not fa.calls("appendleft")
        ck.ob(R, fa.key(None, "mark-used-shape"), ok,
              "mark-used removes the key and appends it at the right end on every path" if ok else
              "mark-used does not re-append the key at the right end on every path", fa.where())
    else:
        # inline form: in every method that removes a key from the queue without deleting it from the map, every
        # path from the removal to the exit re-appends that key at the right end
        n_inline = 0
        for name, m in cm.cls.methods.items():
            if m is cm.evict or m in cm.inserts or name.startswith("__") or name.startswith("forget"):
                continue
            f2 = FA(ck, m)
            for rc in [c for c in f2.calls("remove") if self_attr(A.call_recv(c), cm.queue) and c.args]:
                apps = f2.nodes_all([c for c in f2.calls("append") if self_attr(A.call_recv(c), cm.queue) and c.args and A.norm(c.args[0]) == A.norm(rc.args[0])])
                ok = bool(apps) and all(f2.cfg.exit not in f2.cfg.reach([i], removed=apps, include_start=False,
                                                                         edge_ok=lambda s_, d_, l_: l_ != "exc" or True) for i in f2.nodes(rc)) and not f2.calls("appendleft")
                n_inline += 1
                ck.ob(R, f2.key(rc, "mark-used-shape"), ok,
                      "a key taken out of the recency queue is appended again at the right end on every path" if ok else
                      "a key is removed from the recency queue and not re-appended at the right end on every path", f2.where(rc))
        ck.need(n_inline >= 1, "MemoryCache: no mark-used helper and no inline remove-then-append found")
    # hits pass mark-used
    for name, m in cm.cls.methods.items():
        if m in (cm.evict, cm.insert, cm.mark_used) or name.startswith("__"):
            continue
        f2 = FA(ck, m)
        marks = cm.mark_nodes(f2)
        # (1) returns whose value is read out of the resident map
        for r in f2.returns():
            if r.value is None:
                continue
            # where the served value is read out of the resident map: in the return itself, or into a result variable
            reads = []
            for (v_, at_) in value_sources(f2, r):
                deps = f2.df.deps(v_, at_)
                if any(d == "attr:self.%s" % cm.map for d in deps) and "getattr:value" in deps:
                    reads.append(at_)
            if reads:
                # every path that reads a resident value refreshes the key's recency (before or after the read)
                ok = every_path_through(f2, reads, marks)
                ck.ob(R, f2.key(r, "hit-marks-used"), ok,
                      "a served value is marked used" if ok else
                      "a resident value is returned without refreshing its recency", f2.where(r))
        # (2) a presence answer: on the branch edge that says "the key is resident" (`k in self.map`, `self.map.get(k) is not None`,
        # either polarity / nesting / through a temporary), every path to a return that can answer "present" refreshes the recency
        for n in f2.cfg.nodes:
            if n.kind != "test" or n.ast is None or isinstance(f2.pm.get(n.ast), ast.While):
                continue
            for label in ("T", "F"):
                try:
                    atoms = f2._atoms(n.ast, n.id, label == "T")
                except AnalysisError:
                    continue
                present = any(p_ and t_.endswith(" in self.%s" % cm.map) for (t_, p_) in atoms)
                if not present:
                    continue
                starts = [d for (d, l) in f2.cfg.succ[n.id] if l == label]
                for r in f2.returns():
                    if r.value is None or not _answers_presence(f2, r):
                        continue
                    rn = [i for i in f2.nodes(r) if i in f2.cfg.reach(starts)]
                    if not rn:
                        continue
                    if any(d == "attr:self.%s" % cm.map for i in rn for d in f2.df.deps(r.value, i)) and "getattr:value" in set().union(*[f2.df.deps(r.value, i) for i in rn]):
                        continue  # a served value: obligation (1)
                    ok = all(i in marks or (i not in f2.cfg.reach(starts, removed=marks)) for i in rn)
                    ck.ob(R, f2.key(r, "present-marks-used"), ok,
                          "a positive presence answer refreshes recency" if ok else
                          "presence of a resident entry is reported without refreshing its recency", f2.where(r))


def check_replace_on_put(ck, cm: CacheModel, rule="C06.R4"):
    ck.rule(rule, "replace-on-put: every path through put that exits normally without inserting has evicted the "
                  "previous entry for that key", 1)
    fa = FA(ck, cm.insert)
    ins = [s for s in fa.stmts(ast.Assign) if any(isinstance(t, ast.Subscript) and self_attr(t.value, cm.map) for t in s.targets)]
    ins = fa.one(ins, "insertion into the resident map")
    k = _xn(fa, [t for t in ins.targets if isinstance(t, ast.Subscript)][0].slice, ins)
    ev = [c for c in fa.calls(cm.evict.name) if cm.is_self_call(c, cm.evict) and c.args and _xn(fa, c.args[0], c) == k]
    removed = set(fa.nodes(ins)) | set(fa.nodes_all(ev))
    p = fa.cfg.path(fa.cfg.entry, fa.cfg.exit, removed)
    ck.paths_enumerated += 1
    if p is None:
        ck.ob(rule, fa.key(None, "exit-without-evict"), True, "every non-inserting exit has evicted the old entry", fa.where())
    else:
        # name the offending exit
        last = [i for i in p if fa.cfg.node(i).kind == "stmt" and isinstance(fa.cfg.node(i).ast, ast.Return)]
        at = fa.cfg.node(last[-1]).ast if last else fa.node
        ck.ob(rule, fa.key(at if last else None, "exit-without-evict"), False,
              "put() can return without inserting and without evicting the previous entry for the key "
              "(path %s): a later read is served the stale value" % fa.cfg.describe_path(p), fa.where(at))


def _evicts_every_resident_key(fa: FA, cm) -> bool:
    """forget_everything written as a loop: on every path it runs a loop that hands every key of the resident map (or of
    the recency queue, a superset) to the evict role, with no condition deciding which keys are evicted."""
    evs = [c for c in fa.calls() if cm.is_self_call(c, cm.evict) and c.args]
    if not evs:
        return False
    sc = ForgetScope(fa, cm)
    loops = []
    for c in evs:
        loop = fa.enclosing(c, (ast.For,))
        if loop is None or _comprehension_env(fa, c.args[0]):
            return False
        loops.append(loop)
        for i in fa.nodes(c):
            sc.trace(c.args[0], i, {})
            # conditions inside the loop (those outside it are covered by the must-pass query below)
            for conj in (fa.conditions(i) or []):
                for (t_, p_) in conj:
                    sc.filters.append((t_, i, set()))
    if sc.other or sc.filters or not (set(sc.fields) & {cm.map, cm.queue}) or set(sc.fields) - {cm.map, cm.queue}:
        return False
    heads = fa.nodes_all(loops)
    return bool(heads) and fa.cfg.must_pass(heads, fa.cfg.exit)


def _loops_surely_passing(fa: FA, events) -> list:
    """CFG nodes of `for` loops over a literal, non-empty collection (`for k in [key]:`, `for t in (a, b):`, named directly or
    through a local) in which every way through the first iteration passes one of the CFG nodes `events`: reaching such a
    loop is as good as reaching the event."""
    out = []
    cfg = fa.cfg
    events = set(events)
    for n in cfg.nodes:
        if n.kind != "for" or n.ast is None or n.id not in cfg.reachable_nodes():
            continue
        it = safe_expand(fa, n.ast.iter, n.ast)
        if not (isinstance(it, (ast.List, ast.Tuple, ast.Set)) and it.elts and not isinstance(it.elts[0], ast.Starred)):
            continue
        starts = [d for (d, l) in cfg.succ[n.id] if l == "T"]
        r = cfg.reach(starts, removed=events)
        if starts and n.id not in r and cfg.exit not in r:
            out.append(n.id)
    return out


def check_forget(ck, cm: CacheModel, rule="C06.R5"):
    ck.rule(rule, "forget operations of the cache evict through the evict role (so accounts are updated) and drop weak refs", 3)
    for name in ("forget_call", "forget_function", "forget_everything"):
        m = cm.cls.methods.get(name)
        ck.need(m is not None, "MemoryCache.%s not found" % name)
        fa = FA(ck, m)
        if name == "forget_everything":
            clears = slot_calls(fa, cm.map, ("clear",))
            ev = fa.nodes_all(clears)
            for c in clears:
                # a loop over a literal, non-empty tuple of slots runs its body at least once
                loop = fa.enclosing(c, (ast.For,))
                if loop is not None and isinstance(loop.iter, (ast.Tuple, ast.List)) and loop.iter.elts and fa.stmt_of(c) in loop.body:
                    ev += fa.nodes(loop)
            ok = bool(clears) and fa.cfg.must_pass(ev, fa.cfg.exit)
            if not clears:
                ok = _evicts_every_resident_key(fa, cm)
            if cm.refs:
                ok = ok and bool(slot_calls(fa, cm.refs, ("clear",)))
            ck.ob(rule, fa.key(None, "clears"), ok, "forget_everything clears map and weak refs on every path" if ok else
                  "forget_everything does not clear the resident map / weak refs on every path", fa.where())
        else:
            ev = [c for c in fa.calls(cm.evict.name) if cm.is_self_call(c, cm.evict)]
            own_del = [c for c in fa.calls() if A.call_attr(c) in ("pop", "popitem") and self_attr(A.call_recv(c), cm.map)] + \
                [d for d in fa.stmts(ast.Delete) if any(isinstance(t, ast.Subscript) and self_attr(t.value, cm.map) for t in d.targets)]
            ok = bool(ev) or bool(own_del)  # own deletion sites are held to the accounting rule R1
            if name == "forget_call" and ev:
                evn = fa.nodes_all(ev)
                ok = fa.cfg.must_pass(evn + _loops_surely_passing(fa, evn), fa.cfg.exit)
            ck.ob(rule, fa.key(None, "evicts"), ok, "%s evicts through the accounting helper" % name if ok else
                  "%s does not evict through the accounting helper on every path" % name, fa.where())
            if cm.refs:
                refs_drop = [n for n in A.walk_body(m.node) if (isinstance(n, ast.Call) and A.call_attr(n) in ("pop", "clear") and self_attr(A.call_recv(n), cm.refs))
                             or (isinstance(n, ast.Delete) and any(isinstance(t, ast.Subscript) and self_attr(t.value, cm.refs) for t in n.targets))]
                ck.ob(rule, fa.key(None, "drops-refs"), bool(refs_drop), "%s drops weak references" % name if refs_drop else
                      "%s leaves the weak reference: a forgotten result can still be served" % name, fa.where())


# ---- C06.R5 (scope): forget_function empties the function's share of the resident map ------------------------
#
# "The usage counter returns to zero once everything has been forgotten, by whatever sequence of forget
# operations" needs forget_function to evict EVERY resident entry of the function.  Two clauses decide that
# from the code alone:
#   (1) the keys it evicts are enumerated from the resident map itself (or from the recency queue, which C06.R1
#       keeps a superset of it), and which of them are evicted depends on the key and the function reference only,
#       not on other cache state (weak table, entry contents, an index);
#   (2) if they are enumerated from another table of the cache (a per-function index), that table lists every
#       resident key: each insertion into the resident map records its key in the table as the table holds it at
#       that moment (not in a bucket looked up before a call that can drop the bucket), and nothing leaves the
#       table while its entry stays resident.

_WRAP_FUNCS = {"list", "set", "tuple", "sorted", "frozenset", "iter", "reversed", "deque"}
_ELEMENT_GETTERS = {"get", "setdefault", "__getitem__"}
_REMOVERS = {"pop", "popitem", "clear", "remove", "discard", "__delitem__"}
_ADDERS = {"add", "append", "appendleft", "setdefault", "__setitem__"}


class Rooted:
    """An expression that designates a table of the cache or something held inside it: `self.T` (depth 0),
    `self.T[q]` / `self.T.get(q)` / `self.T.setdefault(q, ...)` (depth 1), ... directly or through locals."""

    def __init__(self, field, depth, keys, hops, orphan):
        self.field = field      # attribute of self
        self.depth = depth      # number of element look-ups below the table
        self.keys = keys        # [(key expression, CFG node where it is evaluated)] per look-up
        self.hops = hops        # [(CFG node where a local alias was bound, depth of what it names)]
        self.orphan = orphan    # a look-up may have produced a fresh default object that the table does not hold


def rooted(fa: FA, e, at, _n=0):
    if e is None or _n > 8:
        return None
    f = self_attr(e)
    if f:
        return Rooted(f, 0, [], [], False)
    if isinstance(e, ast.Name):
        ds = fa.df.reaching(at, e.id)
        if len(ds) == 1 and ds[0].kind == "assign" and ds[0].value is not None and ds[0].node >= 0:
            r = rooted(fa, ds[0].value, ds[0].node, _n + 1)
            if r is not None:
                return Rooted(r.field, r.depth, r.keys, r.hops + [(ds[0].node, r.depth)], r.orphan)
        if len(ds) == 1 and ds[0].kind == "for" and ds[0].value is not None:
            # `for bucket in self.T.values():`
            it = ds[0].value
            if isinstance(it, ast.Call) and A.call_attr(it) == "values" and not it.args:
                r = rooted(fa, A.call_recv(it), ds[0].node, _n + 1)
                if r is not None:
                    return Rooted(r.field, r.depth + 1, r.keys + [(None, ds[0].node)], r.hops + [(ds[0].node, r.depth + 1)], r.orphan)
        return None
    if isinstance(e, ast.Subscript):
        r = rooted(fa, e.value, at, _n + 1)
        if r is not None:
            return Rooted(r.field, r.depth + 1, r.keys + [(e.slice, at)], r.hops, r.orphan)
        return None
    if isinstance(e, ast.Call) and A.call_attr(e) in _ELEMENT_GETTERS and e.args and isinstance(e.func, ast.Attribute):
        r = rooted(fa, e.func.value, at, _n + 1)
        if r is not None:
            fresh_default = A.call_attr(e) == "get" and len(e.args) > 1 and not A.is_none(e.args[1])
            return Rooted(r.field, r.depth + 1, r.keys + [(e.args[0], at)], r.hops, r.orphan or fresh_default)
    return None


def _xkey(fa: FA, e, at) -> str:
    try:
        return fa.xnorm(e, at)
    except AnalysisError:
        return A.norm(e)


class TableUse:
    """Additions to and removals from one table of the cache inside one method, by CFG node."""

    def __init__(self, fa: FA, table: str):
        self.fa, self.table = fa, table
        self.adds = []      # (Rooted receiver, key expr, CFG node, ast)
        self.removals = []  # (depth at which something is removed, key expr or None, CFG node, ast, kind)
        cfg = fa.cfg
        for n in cfg.nodes:
            if n.ast is None or n.kind not in ("stmt", "test", "for", "with") or n.id not in cfg.reachable_nodes():
                continue
            root = n.ast.iter if n.kind == "for" else n.ast
            if n.kind == "with":
                root = ast.Tuple(elts=[i.context_expr for i in n.ast.items], ctx=ast.Load())
            for x in A.walk_local(root):
                if isinstance(x, ast.Call) and isinstance(x.func, ast.Attribute):
                    r = rooted(fa, x.func.value, n.id)
                    if r is None or r.field != table:
                        continue
                    nm = x.func.attr
                    if nm in _REMOVERS:
                        whole = nm in ("clear", "popitem")
                        self.removals.append((r.depth - 1 if whole else r.depth, None if whole else (x.args[0] if x.args else None), n.id, x,
                                              "clear" if whole else "key", r))
                    elif nm in _ADDERS and x.args:
                        self.adds.append((r, x.args[0], n.id, x))
                elif isinstance(x, ast.Subscript) and isinstance(x.ctx, (ast.Store, ast.Del)):
                    r = rooted(fa, x.value, n.id)
                    if r is None or r.field != table:
                        continue
                    if isinstance(x.ctx, ast.Del):
                        self.removals.append((r.depth, x.slice, n.id, x, "key", r))
                    else:
                        self.adds.append((r, x.slice, n.id, x))
                elif isinstance(x, ast.Attribute) and isinstance(x.ctx, (ast.Store, ast.Del)) and self_attr(x) == table:
                    self.removals.append((-1, None, n.id, x, "rebind", None))

    def min_removal_depth(self):
        return min([d for (d, *_r) in self.removals], default=None)


class IndexMirror:
    """Is table `T` of the cache a complete list of the resident keys?  (clause (2) above)"""

    def __init__(self, ck, cm: CacheModel, table: str):
        self.ck, self.cm, self.table = ck, cm, table
        self.uses = {}
        for name, m in cm.cls.methods.items():
            if name == "__init__" or m.is_static:
                continue
            fa = FA(ck, m)
            self.uses[name] = TableUse(fa, table)
        # transitive: the shallowest level at which a call of the method can take something out of the table
        self.drop_depth = {name: u.min_removal_depth() for name, u in self.uses.items()}
        changed = True
        while changed:
            changed = False
            for name, u in self.uses.items():
                for c in u.fa.calls():
                    callee = self._self_callee(c)
                    if callee is None or self.drop_depth.get(callee) is None:
                        continue
                    d = self.drop_depth[callee]
                    if self.drop_depth[name] is None or d < self.drop_depth[name]:
                        self.drop_depth[name] = d
                        changed = True

    def _self_callee(self, c):
        if isinstance(c.func, ast.Attribute) and isinstance(c.func.value, ast.Name) and c.func.value.id == "self" and c.func.attr in self.uses:
            return c.func.attr
        return None

    def detaching_nodes(self, name, below_depth):
        """CFG nodes of method `name` that can take out of the table something at a level above `below_depth`
        (so that an alias of an element at `below_depth` may no longer be what the table holds)."""
        u = self.uses[name]
        out = {nid for (d, _k, nid, _x, _kind, _r) in u.removals if d < below_depth}
        for c in u.fa.calls():
            callee = self._self_callee(c)
            if callee is not None and self.drop_depth.get(callee) is not None and self.drop_depth[callee] < below_depth:
                out |= set(u.fa.nodes(c))
        return out

    def stale_by(self, name, r: Rooted, use_node):
        """the CFG node (or None) that can detach what `r` names between the look-up and its use at `use_node`"""
        cfg = self.uses[name].fa.cfg
        for (dn, depth) in r.hops:
            if depth < 1:
                continue
            after_def = cfg.reach([dn], removed=[dn], include_start=False)
            for w in sorted(self.detaching_nodes(name, depth) & after_def):
                if w == use_node:
                    continue
                if use_node in cfg.reach([w], removed=[dn], include_start=False):
                    return w
        return None

    def check(self, rule, scope_roots=()):
        ck, cm, T = self.ck, self.cm, self.table
        add_depths = set()
        n_ins = 0
        # (M) every insertion into the resident map is recorded in the table, in what the table holds at that moment
        for m in cm.inserts:
            u = self.uses[m.name]
            fa = u.fa
            for st in fa.stmts(ast.Assign):
                for t in st.targets:
                    if not (isinstance(t, ast.Subscript) and self_attr(t.value, cm.map)):
                        continue
                    ins_nodes = fa.nodes(st)
                    if not ins_nodes:
                        continue
                    n_ins += 1
                    kx = _xkey(fa, t.slice, ins_nodes[0])
                    same = [(r, k, nid, x) for (r, k, nid, x) in u.adds if _xkey(fa, k, nid) == kx]
                    live, stale, orphan = [], [], []
                    for (r, k, nid, x) in same:
                        add_depths.add(r.depth)
                        w = self.stale_by(m.name, r, nid)
                        if w is not None:
                            stale.append((x, w))
                        elif r.orphan:
                            orphan.append(x)
                        else:
                            live.append(nid)
                    ok = bool(live) and every_path_through(fa, ins_nodes, live)
                    if ok:
                        why = "the inserted key is recorded in self.%s" % T
                        at = st
                    elif stale and every_path_through(fa, ins_nodes, live + fa.nodes_all([x for (x, _w) in stale])):
                        x, w = stale[0]
                        at = x
                        why = ("`%s` records the inserted key in a part of self.%s that was looked up before `%s`, which can drop that part from the "
                               "table: the key then lands in an object the table no longer holds, forget_function (which takes its keys from self.%s) "
                               "misses the resident entry -- it stays served and %s never returns to zero"
                               % (A.short(fa.stmt_of(x) or x, 50), T, A.short(fa.cfg.node(w).ast, 40), T, cm.counter))
                    elif orphan:
                        at = orphan[0]
                        why = ("`%s` records the inserted key in a default object that self.%s does not hold when the function has no entry yet: "
                               "forget_function (which takes its keys from self.%s) misses the resident entry" % (A.short(fa.stmt_of(at) or at, 50), T, T))
                    else:
                        at = st
                        why = ("`%s` makes an entry resident without recording its key in self.%s on every path: forget_function takes its keys from "
                               "that table only, so the entry survives forgetting its function and %s never returns to zero" % (A.short(st, 50), T, cm.counter))
                    ck.ob(rule, fa.key(None, "index-records-insertion:" + T + ("#%d" % n_ins if n_ins > 1 else "")), ok, why, fa.where(at))
        # (R) nothing leaves the table while its entry stays resident
        leaf = max(add_depths) if add_depths else 0
        for name, u in sorted(self.uses.items()):
            fa = u.fa
            map_clear = fa.nodes_all([c for c in fa.calls("clear") if self_attr(A.call_recv(c), cm.map)])
            for (d, k, nid, x, kind, r) in u.removals:
                st = fa.stmt_of(x) or x
                if x in scope_roots or any(x is y for root in scope_roots for y in ast.walk(root)):
                    continue  # what is taken out here is what forget_function goes on to evict
                if kind == "key" and d == leaf and k is not None:
                    kx = _xkey(fa, k, nid)
                    gone = []
                    for s2 in fa.stmts(ast.Delete):
                        for t in s2.targets:
                            if isinstance(t, ast.Subscript) and self_attr(t.value, cm.map) and any(_xkey(fa, t.slice, i) == kx for i in fa.nodes(s2)):
                                gone += fa.nodes(s2)
                    for c in fa.calls():
                        if ((A.call_attr(c) == "pop" and self_attr(A.call_recv(c), cm.map)) or cm.is_self_call(c, cm.evict)) and c.args \
                                and any(_xkey(fa, c.args[0], i) == kx for i in fa.nodes(c)):
                            gone += fa.nodes(c)
                    ok = bool(gone) and every_path_through(fa, [nid], gone)
                    ck.ob(rule, fa.key(st, "index-removal-with-eviction:" + T), ok,
                          "a key leaves self.%s only together with its resident entry" % T if ok else
                          "`%s` takes a key out of self.%s on a path that does not remove its entry from the resident map: forget_function (which takes "
                          "its keys from self.%s) then misses a resident entry" % (A.short(st, 50), T, T), fa.where(st))
                elif d < leaf or kind in ("clear", "rebind"):
                    if d < 0:
                        ok = bool(map_clear) and every_path_through(fa, [nid], map_clear)
                        why = "self.%s is emptied together with the resident map" % T
                    else:
                        ok = self._only_when_empty(fa, st, nid, d, k)
                        why = "a part of self.%s is dropped only once it lists no key" % T
                    ck.ob(rule, fa.key(st, "index-part-dropped-when-empty:" + T), ok, why if ok else
                          "`%s` drops a whole part of self.%s that may still list resident keys: forget_function (which takes its keys from self.%s) "
                          "then misses them" % (A.short(st, 50), T, T), fa.where(st))
        return n_ins

    def _only_when_empty(self, fa: FA, st, nid, depth, key) -> bool:
        """every way to the removal has taken a branch edge saying that the part removed (an element of the table at
        `depth` + 1, under the same key) is empty"""
        conds = fa.conditions(nid)
        if not conds:
            return False
        kx = _xkey(fa, key, nid) if key is not None else None

        def part(e):
            # literal texts are fully expanded: only self-rooted chains are left
            try:
                r = rooted(fa, e, nid)
            except Exception:
                r = None
            if r is None or r.field != self.table or r.depth != depth + 1:
                return False
            if kx is None or not r.keys or r.keys[-1][0] is None:
                return True
            return A.norm(r.keys[-1][0]) == kx

        def says_empty(text, pol):
            try:
                e = ast.parse(text, mode="eval").body
            except SyntaxError:
                return False
            if part(e):
                return not pol
            if isinstance(e, ast.Call) and isinstance(e.func, ast.Name) and e.func.id in ("len", "bool") and len(e.args) == 1 and part(e.args[0]):
                return not pol
            if isinstance(e, ast.Compare) and len(e.ops) == 1:
                l, r_ = e.left, e.comparators[0]
                is_len = lambda v: isinstance(v, ast.Call) and isinstance(v.func, ast.Name) and v.func.id == "len" and len(v.args) == 1 and part(v.args[0])
                cnum = lambda v: v.value if isinstance(v, ast.Constant) and isinstance(v.value, int) and not isinstance(v.value, bool) else None
                opf = {ast.Gt: lambda a, b: a > b, ast.Lt: lambda a, b: a < b, ast.GtE: lambda a, b: a >= b, ast.LtE: lambda a, b: a <= b,
                       ast.Eq: lambda a, b: a == b, ast.NotEq: lambda a, b: a != b}.get(type(e.ops[0]))
                if opf is None:
                    return False
                if is_len(l) and cnum(r_) is not None:
                    f = lambda n: opf(n, cnum(r_))
                elif is_len(r_) and cnum(l) is not None:
                    f = lambda n: opf(cnum(l), n)
                else:
                    return False
                sat = {n for n in range(0, 6) if f(n) == pol}
                return sat == {0}
            return False

        return all(any(says_empty(t_, p_) for (t_, p_) in conj) for conj in conds)


class ForgetScope:
    """Where the keys that a forget operation evicts come from, and what decides which of them are evicted."""

    def __init__(self, fa: FA, cm: CacheModel):
        self.fa, self.cm = fa, cm
        self.fields = {}     # self attribute enumerated -> an expression that reads it
        self.root_exprs = []  # the look-up expressions inside tables that are enumerated
        self.filters = []    # (condition expression, CFG node, names bound by a comprehension)
        self.other = []      # sources that are not cache state (parameters, unknown forms)
        self.partial = []    # selections by position out of a local collection of keys (`keys[0]`, `keys[:n]`, `keys[i]` for some i)
        self._seen = set()

    def trace(self, e, at, env=None, _n=0):
        fa = self.fa
        env = env or {}
        if e is None or _n > 14:
            self.other.append(e)
            return
        if isinstance(e, ast.Name):
            if e.id in env:
                return self.trace(env[e.id], at, {k: v for k, v in env.items() if k != e.id}, _n + 1)
            ds = fa.df.reaching(at, e.id)
            if not ds:
                self.other.append(e)
                return
            for d in ds:
                if (d.node, d.name) in self._seen:
                    continue
                self._seen.add((d.node, d.name))
                if d.kind in ("assign", "for", "aug") and d.value is not None and d.node >= 0:
                    if d.kind == "for" and isinstance(getattr(d.stmt, "target", None), (ast.Tuple, ast.List)):
                        tg = d.stmt.target
                        if len(tg.elts) == 2 and isinstance(tg.elts[1], ast.Name) and tg.elts[1].id == e.id and isinstance(d.value, ast.Call) \
                                and isinstance(d.value.func, ast.Name) and d.value.func.id == "enumerate" and len(d.value.args) == 1 and not d.value.keywords:
                            # `for i, k in enumerate(keys)`: k runs over the elements of `keys`
                            self.trace(d.value.args[0], d.node, None, _n + 1)
                            continue
                        if not (tg.elts and isinstance(tg.elts[0], ast.Name) and tg.elts[0].id == e.id):
                            self.other.append(e)
                            continue
                    self.trace(d.value, d.node, None, _n + 1)
                else:
                    self.other.append(e)
            # a collection filled element by element: `acc.append(k)` / `acc.add(k)` / `acc.extend(ks)`
            for c in fa.calls():
                if A.call_attr(c) in ("append", "add", "extend", "update", "appendleft") and isinstance(A.call_recv(c), ast.Name) and A.call_recv(c).id == e.id and c.args:
                    for i in fa.nodes(c):
                        if (i, "fill:" + e.id) in self._seen:
                            continue
                        self._seen.add((i, "fill:" + e.id))
                        self.trace(c.args[0], i, None, _n + 1)
                        self.path_filters(i)
            return
        f = self_attr(e)
        if f:
            self.fields.setdefault(f, e)
            return
        if isinstance(e, ast.Call):
            nm = A.call_attr(e)
            if isinstance(e.func, ast.Name) and nm in _WRAP_FUNCS and e.args:
                return self.trace(e.args[0], at, env, _n + 1)
            if isinstance(e.func, ast.Name) and nm == "filter" and len(e.args) == 2:
                self.filters.append((e.args[0], at, set(env)))
                return self.trace(e.args[1], at, env, _n + 1)
            if nm == "next" and isinstance(e.func, ast.Name) and e.args:
                return self.trace(e.args[0], at, env, _n + 1)
            if nm in ("chain", "union") and (e.args or isinstance(e.func, ast.Attribute)):
                if isinstance(e.func, ast.Attribute) and nm == "union":
                    self.trace(e.func.value, at, env, _n + 1)
                for a in e.args:
                    self.trace(a.value if isinstance(a, ast.Starred) else a, at, env, _n + 1)
                return
            if isinstance(e.func, ast.Attribute):
                if nm in ("keys", "copy", "items", "values") and not e.args:
                    return self.trace(e.func.value, at, env, _n + 1)
                if nm in ("intersection", "difference"):
                    for a in e.args:
                        self.filters.append((a, at, set(env)))
                    return self.trace(e.func.value, at, env, _n + 1)
                if nm in ("get", "pop", "setdefault", "__getitem__") and e.args:
                    r = rooted(fa, e.func.value, at)
                    if r is not None:
                        self.fields.setdefault(r.field, e)
                        self.root_exprs.append(e)
                        return
                if nm in ("pop", "popleft") and isinstance(e.func.value, ast.Name) and e.func.value.id not in env \
                        and rooted(fa, e.func.value, at) is None and self._drained_by(e):
                    # `while keys: ... keys.pop()`: every element of the local collection, one by one
                    return self.trace(e.func.value, at, env, _n + 1)
            self.other.append(e)
            return
        if isinstance(e, ast.Subscript):
            r = rooted(fa, e.value, at)
            if r is not None:
                self.fields.setdefault(r.field, e)
                self.root_exprs.append(e)
                return
            if isinstance(e.slice, ast.Slice) and e.slice.lower is None and e.slice.upper is None:
                return self.trace(e.value, at, env, _n + 1)  # `keys[:]`, `keys[::-1]`: all of them
            if isinstance(e.value, ast.Name) and e.value.id not in env:
                if self._index_sweeps(e.value.id, e.slice, at) or self._head_of_drained(e):
                    # `keys[i]` under `for i in range(len(keys))`: every element of the local collection, one by one
                    return self.trace(e.value, at, env, _n + 1)
                if fa.df.reaching(at, e.value.id):
                    # a position / a slice picked out of a local collection of keys: where the keys come from is still decided,
                    # but not all of them are handed on
                    self.partial.append(e)
                    return self.trace(e.value, at, env, _n + 1)
            self.other.append(e)
            return
        if isinstance(e, (ast.ListComp, ast.SetComp, ast.GeneratorExp)):
            nb = dict(env)
            for g in e.generators:
                tg = g.target
                if isinstance(tg, ast.Name):
                    nb[tg.id] = g.iter
                elif isinstance(tg, (ast.Tuple, ast.List)) and tg.elts and isinstance(tg.elts[0], ast.Name):
                    nb[tg.elts[0].id] = g.iter
                for c in g.ifs:
                    self.filters.append((c, at, {n_.id for g2 in e.generators for n_ in ast.walk(g2.target) if isinstance(n_, ast.Name)}))
            if isinstance(e.elt, ast.Name) and e.elt.id in nb:
                return self.trace(e.elt, at, nb, _n + 1)
            self.other.append(e)
            return
        if isinstance(e, ast.BinOp) and isinstance(e.op, (ast.BitOr, ast.Add)):
            self.trace(e.left, at, env, _n + 1)
            self.trace(e.right, at, env, _n + 1)
            return
        if isinstance(e, ast.BinOp) and isinstance(e.op, (ast.BitAnd, ast.Sub)):
            self.filters.append((e.right, at, set(env)))
            return self.trace(e.left, at, env, _n + 1)
        if isinstance(e, ast.IfExp):
            self.filters.append((e.test, at, set(env)))
            self.trace(e.body, at, env, _n + 1)
            self.trace(e.orelse, at, env, _n + 1)
            return
        if isinstance(e, (ast.List, ast.Tuple, ast.Set)):
            for x in e.elts:
                if isinstance(x, ast.Starred):
                    self.trace(x.value, at, env, _n + 1)
                elif not isinstance(x, ast.Constant):
                    self.other.append(x)
            return
        if isinstance(e, ast.Starred):
            return self.trace(e.value, at, env, _n + 1)
        self.other.append(e)

    def _index_sweeps(self, coll: str, idx, at) -> bool:
        """is `idx` a loop variable that runs over every position of the local collection `coll` -- bound (only) by
        `for idx in range(len(coll))` / `range(0, len(coll))` / `reversed(range(len(coll)))`?"""
        if not isinstance(idx, ast.Name):
            return False
        ds = self.fa.df.reaching(at, idx.id)
        if not ds:
            return False

        def full_range(it):
            if isinstance(it, ast.Call) and isinstance(it.func, ast.Name) and it.func.id == "reversed" and len(it.args) == 1 and not it.keywords:
                it = it.args[0]
            if not (isinstance(it, ast.Call) and isinstance(it.func, ast.Name) and it.func.id == "range" and not it.keywords):
                return False
            a = it.args
            if len(a) == 2 and isinstance(a[0], ast.Constant) and a[0].value == 0 and a[0].value is not False:
                a = a[1:]
            return len(a) == 1 and isinstance(a[0], ast.Call) and isinstance(a[0].func, ast.Name) and a[0].func.id == "len" \
                and len(a[0].args) == 1 and isinstance(a[0].args[0], ast.Name) and a[0].args[0].id == coll

        return all(d.kind == "for" and isinstance(getattr(d.stmt, "target", None), ast.Name) and full_range(d.value) for d in ds)

    def _head_of_drained(self, sub) -> bool:
        """`coll[0]` / `coll[-1]` inside `while coll:` -- the loop goes on until the collection is used up"""
        fake = ast.Call(func=ast.Attribute(value=sub.value, attr="pop", ctx=ast.Load()), args=[sub.slice], keywords=[])
        w = self.fa.enclosing(sub, (ast.While,))
        return w is not None and self._drained_by(fake, w, self.fa.unconditional(sub))

    def _drained_by(self, call, w=None, uncond=None) -> bool:
        """does `call` (`coll.pop()` / `coll.pop(0)` / `coll.pop(-1)` / `coll.popleft()`) sit in a `while` loop that goes on for as
        long as the local collection has elements (`while coll:`, `while len(coll) > 0:` ...)?"""
        coll = call.func.value.id
        a = call.args
        end = not a or (len(a) == 1 and ((isinstance(a[0], ast.Constant) and a[0].value in (0, -1) and a[0].value is not False)
                                         or (isinstance(a[0], ast.UnaryOp) and isinstance(a[0].op, ast.USub) and isinstance(a[0].operand, ast.Constant)
                                             and a[0].operand.value == 1)))
        if call.keywords or not end:
            return False
        w = w if w is not None else self.fa.enclosing(call, (ast.While,))
        uncond = self.fa.unconditional(call) if uncond is None else uncond
        if w is None or not uncond:
            return False
        t = w.test

        def is_len(x):
            return isinstance(x, ast.Call) and isinstance(x.func, ast.Name) and x.func.id == "len" and len(x.args) == 1 \
                and isinstance(x.args[0], ast.Name) and x.args[0].id == coll

        def zero(x):
            return isinstance(x, ast.Constant) and x.value == 0 and x.value is not False

        if (isinstance(t, ast.Name) and t.id == coll) or is_len(t):
            return True
        if isinstance(t, ast.Compare) and len(t.ops) == 1:
            l, r, op = t.left, t.comparators[0], t.ops[0]
            if is_len(l) and zero(r) and isinstance(op, (ast.Gt, ast.NotEq)):
                return True
            if zero(l) and is_len(r) and isinstance(op, (ast.Lt, ast.NotEq)):
                return True
        return False

    def path_filters(self, nid, key=None):
        """the branch literals under which CFG node `nid` is reached (a test whether the key itself was found -- `k is None`,
        `not k` -- says nothing about cache state beyond what the enumeration of `k` already does)"""
        conds = self.fa.conditions(nid)
        own = set()
        if key is not None and not isinstance(key, ast.Starred):
            kx = _xkey(self.fa, key, nid)
            own = {kx, kx + " is None"}
        for conj in (conds or []):
            for (t_, p_) in conj:
                if t_ not in own:
                    self.filters.append((t_, nid, set()))

    def state_in_filter(self, flt):
        """-> names of the attributes of self on which a selection condition depends, other than a test whether the key is
        resident / queued"""
        (c, at, bound) = flt
        cm = self.cm
        if isinstance(c, str):
            try:
                e = ast.parse(c, mode="eval").body
            except SyntaxError:
                return {"?"} if "self." in c else set()
        else:
            e = c
            if not isinstance(e, ast.Lambda):
                try:
                    ex = self.fa.expand(e, at)
                    e = ex
                except Exception:
                    pass
        out = set()

        def harmless(x, parent):
            # `k in self.map`, `k in self.queue`, `self.map.get(k) is None`, truth / length of the map
            f = self_attr(x)
            if f not in (cm.map, cm.queue):
                return False
            if isinstance(parent, ast.Compare) and len(parent.ops) == 1 and isinstance(parent.ops[0], (ast.In, ast.NotIn)) and parent.comparators[0] is x:
                return True
            return False

        pm = {ch: p for p in ast.walk(e) for ch in ast.iter_child_nodes(p)}
        for x in ast.walk(e):
            f = self_attr(x)
            if f and not harmless(x, pm.get(x)):
                # the bare map / queue as a truth value or under len(): "is anything resident at all"
                p = pm.get(x)
                if f in (cm.map, cm.queue) and (p is None or isinstance(p, (ast.UnaryOp, ast.BoolOp)) or
                                                 (isinstance(p, ast.Call) and isinstance(p.func, ast.Name) and p.func.id in ("len", "bool"))):
                    continue
                if isinstance(p, ast.Attribute) and isinstance(pm.get(p), ast.Call) and pm.get(p).func is p:
                    # a method of self: private key builders read no state
                    if p.attr.startswith("_cache_key"):
                        continue
                out.add(f)
        return out


def _comprehension_env(fa: FA, node):
    """comprehension variables visible at `node`: name -> iterable"""
    env = {}
    p = fa.pm.get(node)
    while p is not None and not isinstance(p, ast.stmt):
        if isinstance(p, (ast.ListComp, ast.SetComp, ast.GeneratorExp, ast.DictComp)):
            for g in p.generators:
                tg = g.target
                if isinstance(tg, ast.Name):
                    env.setdefault(tg.id, g.iter)
                elif isinstance(tg, (ast.Tuple, ast.List)) and tg.elts and isinstance(tg.elts[0], ast.Name):
                    env.setdefault(tg.elts[0].id, g.iter)
        p = fa.pm.get(p)
    return env


def check_forget_scope(ck, cm: CacheModel, rule="C06.R5"):
    m = cm.cls.methods.get("forget_function")
    ck.need(m is not None, "MemoryCache.forget_function not found")
    fa = FA(ck, m)
    # eviction events: (key expression, CFG node, ast for the report)
    events = []
    for c in fa.calls():
        if cm.is_self_call(c, cm.evict) and c.args:
            events.append((c.args[0], c))
        elif A.call_attr(c) == "pop" and self_attr(A.call_recv(c), cm.map) and c.args:
            events.append((c.args[0], c))
        elif isinstance(c.func, ast.Name) and c.func.id == "map" and len(c.args) == 2 and isinstance(c.args[0], ast.Attribute) \
                and self_attr(c.args[0]) == cm.evict.name:
            events.append((ast.Starred(value=c.args[1], ctx=ast.Load()), c))
    for d in fa.stmts(ast.Delete):
        for t in d.targets:
            if isinstance(t, ast.Subscript) and self_attr(t.value, cm.map):
                events.append((t.slice, d))
    if not events:
        return  # reported by the "evicts" obligation
    sc = ForgetScope(fa, cm)
    for (k, site) in events:
        for i in fa.nodes(site):
            env = _comprehension_env(fa, k) if not isinstance(k, ast.Starred) else {}
            # conditions of an enclosing comprehension
            q = site
            while q is not None and not isinstance(q, ast.stmt):
                if isinstance(q, (ast.ListComp, ast.SetComp, ast.GeneratorExp, ast.DictComp)):
                    for g in q.generators:
                        for cnd in g.ifs:
                            sc.filters.append((cnd, i, set(env)))
                q = fa.pm.get(q)
            sc.trace(k, i, env)
            sc.path_filters(i, k)
    aux = sorted(f for f in sc.fields if f not in (cm.map, cm.queue, cm.refs, cm.counter, cm.budget))
    from_map = [f for f in sc.fields if f in (cm.map, cm.queue)]
    at = events[0][1]
    if not sc.fields and sc.other:
        # a form of enumeration this rule does not follow: decide on what the evicted key depends on
        deps = set()
        for (k, site) in events:
            try:
                deps |= fa.deps(k.value if isinstance(k, ast.Starred) else k)
            except AnalysisError:
                pass
        flds = {d_.split(".")[1] for d_ in deps if d_.startswith("attr:self.") and len(d_.split(".")) > 1}
        from_map = [f for f in flds if f in (cm.map, cm.queue)]
        aux = sorted(f for f in flds if f not in (cm.map, cm.queue, cm.refs, cm.counter, cm.budget) and not f.startswith("_cache_key"))
        if cm.refs in flds and not from_map and not aux:
            sc.fields[cm.refs] = None
    ok_src = bool(from_map) or bool(aux)
    why = "the keys forget_function evicts are enumerated from the resident map" if from_map else \
        "the keys forget_function evicts are enumerated from self.%s (held to list every resident key)" % ", self.".join(aux)
    if not ok_src:
        src = "the weak-reference table, which lists only results that are still alive elsewhere" if cm.refs in sc.fields else \
            ("`%s`" % A.short(sc.other[0], 50) if sc.other and sc.other[0] is not None else "something else")
        why = ("forget_function takes the keys it evicts from %s, not from the resident map: resident entries of the function that are not listed "
               "there stay resident and served after the function was forgotten, and %s never returns to zero" % (src, cm.counter))
    ck.ob(rule, fa.key(None, "scope-enumerates-resident-map"), ok_src, why, fa.where(at))
    # what decides which of the enumerated keys are evicted
    bad = {}
    for flt in sc.filters:
        for f in sc.state_in_filter(flt):
            if f in aux:
                continue  # held to be a complete list below
            bad.setdefault(f, flt)
    okf = not bad
    if bad:
        f0 = sorted(bad)[0]
        c0 = bad[f0][0]
        whyf = ("whether forget_function evicts a resident key of the function depends on self.%s (`%s`): entries for which that test fails stay "
                "resident and served after the function was forgotten, and %s never returns to zero"
                % (f0, c0 if isinstance(c0, str) else A.short(c0, 60), cm.counter))
    else:
        whyf = "which keys are evicted depends on the key and the function reference only"
    ck.ob(rule, fa.key(None, "scope-not-narrowed-by-state"), okf, whyf, fa.where(at))
    # all of the selected keys are handed to the eviction, not some of them picked by position
    okp = not sc.partial
    ck.ob(rule, fa.key(None, "scope-covers-every-selected-key"), okp,
          "every key selected for the function is evicted" if okp else
          "forget_function evicts only `%s` -- some of the keys it selected, picked by position: the other resident entries of the function stay "
          "resident and served after the function was forgotten, and %s never returns to zero" % (A.short(sc.partial[0], 50), cm.counter),
          fa.where(sc.partial[0] if sc.partial else at))
    # an index instead of a scan: the index must list every resident key
    if ok_src and not from_map:
        for T in aux:
            IndexMirror(ck, cm, T).check(rule, scope_roots=sc.root_exprs)
    elif aux:
        # the map is enumerated and an index only narrows the selection: same obligations
        for T in aux:
            if any(T in sc.state_in_filter(flt) for flt in sc.filters) or T in sc.fields:
                IndexMirror(ck, cm, T).check(rule, scope_roots=sc.root_exprs)


# ---- C06.R7: the insertion is all-or-nothing ---------------------------------------------------------------------

_PURE_BUILTINS = ("len", "isinstance", "issubclass", "id", "type", "bool", "callable", "hasattr")


class FailureModel:
    """What may leave by an exception in the middle of a cache operation.  Plain field reads, operations on the cache's OWN
    containers (whether those succeed is what R1-R3 decide), building the entry record, a few side-effect free builtins and
    logging are taken as not failing; so is a method of the cache class all of whose statements are of that kind (decided
    recursively on its own graph, handlers included).  Everything else -- a call into the cached value, an estimator, a
    store, an explicit raise / assert -- may fail."""

    def __init__(self, ck, cm: CacheModel):
        self.ck, self.cm = ck, cm
        self.slots = {cm.map, cm.queue} | set(cm.aux_maps) | ({cm.refs} if cm.refs else set())
        self._memo = {}

    def _own_slot(self, e) -> bool:
        return bool(self_attr(e)) and self_attr(e) in self.slots

    def _record_class(self, call):
        """the repository class a call constructs, when its constructor only stores what it is given"""
        d = (A.dotted(call.func) or "").split(".")[-1]
        if not d:
            return False
        for m in self.ck.repo.modules.values():
            for n in m.tree.body:
                if isinstance(n, ast.ClassDef) and n.name == d:
                    for f in n.body:
                        if isinstance(f, A.FUNC_TYPES) and f.name in ("__init__", "__post_init__", "__new__"):
                            if any(isinstance(x, (ast.Call, ast.Raise, ast.Assert, ast.Subscript)) for x in ast.walk(f)):
                                return False
                    bases_ok = all((A.dotted(b) or "").split(".")[-1] in ("object", "NamedTuple") for b in n.bases)
                    return bases_ok
        return False

    def _method(self, call):
        f = call.func
        if isinstance(f, ast.Attribute) and isinstance(f.value, ast.Name) and f.value.id in ("self", "cls", self.cm.cls.name):
            return self.cm.cls.methods.get(f.attr)
        return None

    def method_cannot_fail(self, m, depth=0) -> bool:
        k = m.qual
        if k not in self._memo:
            self._memo[k] = False  # a recursive helper is not presumed safe
            if depth <= 3 and not any(isinstance(n, (ast.Yield, ast.YieldFrom, ast.Await)) for n in ast.walk(m.node)):
                from ..cfg import CFG
                pm = A.parent_map(m.node)
                g = CFG(m.node, "all", nonraising=lambda n, d=depth: self.nonraising(n, d + 1, pm))
                self._memo[k] = g.raise_exit not in g.reach([g.entry])
        return self._memo[k]

    @staticmethod
    def _caught(n, pm, names) -> bool:
        """`n` sits in the body of a `try` one of whose handlers takes an exception of one of the classes `names` (or everything)"""
        c, p = n, (pm or {}).get(n)
        while p is not None:
            if isinstance(p, ast.Try) and c in p.body:
                for h in p.handlers:
                    ts = [h.type] if h.type is not None and not isinstance(h.type, ast.Tuple) else list(h.type.elts) if h.type is not None else [None]
                    if any(t is None or (A.dotted(t) or "").split(".")[-1] in tuple(names) + ("Exception", "BaseException") for t in ts):
                        return True
            if isinstance(p, A.FUNC_TYPES):
                break
            c, p = p, pm.get(p)
        return False

    def nonraising(self, n, depth=0, pm=None) -> bool:
        from ..fa import log_call
        if isinstance(n, ast.Attribute):
            return True
        if isinstance(n, ast.Subscript):
            if self.cm.refs and self_attr(n.value, self.cm.refs) and isinstance(n.ctx, ast.Store):
                # a weak table refuses values that cannot be weakly referenced
                return self._caught(n, pm, ("TypeError",))
            return self._own_slot(n.value)
        if isinstance(n, ast.Call):
            if log_call(n):
                return True
            f = n.func
            if isinstance(f, ast.Attribute) and self._own_slot(f.value):
                return True
            if isinstance(f, ast.Name) and f.id in _PURE_BUILTINS:
                return True
            m = self._method(n)
            if m is not None:
                return self.method_cannot_fail(m, depth)
            if isinstance(f, (ast.Name, ast.Attribute)) and self._record_class(n):
                return True
        return False


def check_insertion_atomic(ck, cm: CacheModel, R="C06.R7"):
    ck.rule(R, "all-or-nothing insertion: between booking the size on the usage counter, storing the entry in the resident map and "
               "queueing its key, no statement can fail (unless every way on from the failure completes the insertion or evicts the "
               "key again): a failure in between leaves bytes booked that no resident entry accounts for, or an entry nobody counts", 1)
    from ..cfg import CFG
    fm = FailureModel(ck, cm)
    for m in cm.inserts:
        fa = FA(ck, m)
        g = CFG(m.node, "all", nonraising=lambda n, pm=fa.pm: fm.nonraising(n, 0, pm))
        live = g.reach([g.entry])
        nodes = lambda sts: [i for s in sts for i in g.nodes_of(s) if i in live]
        stores = [st for st in fa.stmts(ast.Assign) if any(isinstance(t, ast.Subscript) and self_attr(t.value, cm.map) for t in st.targets)]
        if not stores:
            continue
        keys = {_xn(fa, t.slice, st) for st in stores for t in st.targets if isinstance(t, ast.Subscript) and self_attr(t.value, cm.map)}
        books = [st for st in fa.stmts(ast.AugAssign) if isinstance(st.op, ast.Add) and self_attr(st.target, cm.counter)]
        queued = [fa.stmt_of(c) for c in fa.calls() if A.call_attr(c) in ("append", "appendleft") and self_attr(A.call_recv(c), cm.queue)
                  and c.args and _xn(fa, c.args[0], c) in keys]
        queued += [fa.stmt_of(c) for c in fa.calls() if cm.is_self_call(c, cm.mark_used) and c.args and _xn(fa, c.args[0], c) in keys]
        undo = [fa.stmt_of(c) for c in fa.calls(cm.evict.name) if cm.is_self_call(c, cm.evict) and c.args and _xn(fa, c.args[0], c) in keys]
        parts = [("the entry is stored in the resident map", stores), ("its size is booked on %s" % cm.counter, books),
                 ("its key is put on the recency queue", queued)]
        undo_n = set(nodes(undo))
        for (what_a, sts_a) in parts:
            for st in sts_a:
                bad = None
                for (what_b, sts_b) in parts:
                    if sts_b is sts_a or not sts_b:
                        continue
                    bn = set(nodes(sts_b))
                    for gnode in nodes([st]):
                        if gnode in bn or gnode not in g.reach([g.entry], removed=bn):
                            continue  # that half has happened by the time this one does
                        # what runs after this half and before the other one (a failure of this statement itself leaves nothing behind)
                        seen, hit, stack = set(), set(), [d for (d, l) in g.succ[gnode] if l != "exc"]
                        while stack:
                            x = stack.pop()
                            if x in seen or x in undo_n:
                                continue
                            if x in bn:
                                hit.add(x)
                                continue
                            seen.add(x)
                            stack += [d for (d, l) in g.succ[x] if l != "exc"]
                        for x in sorted(seen | hit):
                            thrown = [d for (d, l) in g.succ[x] if l == "exc"]
                            if not thrown:
                                continue
                            after = g.reach(thrown, removed=bn | undo_n)
                            if g.exit in after or g.raise_exit in after:
                                bad = (x, what_b)
                                break
                        if bad:
                            break
                    if bad:
                        break
                if bad:
                    nd = g.node(bad[0])
                    msg = "once %s, `%s` (line %s) may fail before %s, and nothing on the way out completes the insertion or evicts the key again: " \
                          "the usage counter no longer equals what the resident entries account for" % (
                              what_a, A.head(nd.ast) if nd.ast is not None else "?", getattr(nd.ast, "lineno", "?"), bad[1])
                else:
                    msg = "nothing can fail between this half of the insertion and the others"
                ck.ob(R, fa.key(st, "ins-atomic"), bad is None, msg, fa.where(st))


def check(ck):
    from .memo import check_new_memo_tables
    ck.run(check_new_memo_tables, ck, "C06.M1", ('storage_base',))
    cm = CacheModel(ck)
    ck.run(check_accounting, ck, cm)
    ck.run(check_budget, ck, cm)
    ck.run(check_lru, ck, cm)
    ck.run(check_weak_fallback, ck, cm, "C06.R3")
    ck.run(check_queue_unbounded, ck, cm, "C06.R3")
    ck.run(check_estimates_bounded_below, ck, cm, "C06.R1")
    ck.run(check_insertion_atomic, ck, cm, "C06.R7")
    ck.run(check_replace_on_put, ck, cm, "C06.R4")
    ck.run(check_forget, ck, cm, "C06.R5")
    ck.run(check_forget_scope, ck, cm, "C06.R5")
    # the accounts are only honest if each public operation updates map, queue and counter in ONE critical
    # section of the cache lock (shared with C09.R3): a put split over two sections lets another put
    # of the same key in between, and the size is counted twice / the budget exceeded
    from .c09 import check_cache_guarded
    ck.run(check_cache_guarded, ck, cm, "C06.R6")
