"""C11 — the JSON metadata codec round-trips and keeps its cross-language wire format (structural).

Decides: encode/decode key-set agreement for every pair (R1); constructor-field coverage (R2); the
frozen wire-format table and argument tags (R3); last-'#' split of versioned keys (R4); dispatch
order in encode_arg (R5).  Value-level round trips (datetime zones, NaN, non-ASCII) are not decided.
"""
import ast

from .. import astutil as A
from ..fa import FA
from .valeq import check_typed_identity, check_json_bytes, check_enum_distinct
from .ladders import extract_ladder, check_ladder_order, repo_subclass_pairs

MC = "serialization.MementoCodec"

# encode/decode pairs and the class the decoder rebuilds
PAIRS = [
    ("memento", "metadata.Memento"),
    ("invocation_metadata", "metadata.InvocationMetadata"),
    ("fn_reference_with_args", "reference.FunctionReferenceWithArguments"),
    ("fn_reference_with_arg_hash", "reference.FunctionReferenceWithArgHash"),
    ("resource_handle", "resource.ResourceHandle"),
    ("recursive_context", "context.RecursiveContext"),
    ("fn_reference", None),  # rebuilt through from_qualified_name
]

# The cross-language contract (other implementations read these names): NOT a copy of the source
# to be regenerated, renaming a wire field is exactly the breakage the property names.
WIRE_FIELDS = {
    "time", "invocationMetadata", "functionDependencies", "runner", "correlationId", "contentKey",
    "fnReferenceWithArgs", "invocations", "resources", "runtimeSeconds", "resultType",
    "fnReference", "args", "kwargs", "contextArgs", "argHash",
    "resourceType", "url", "version",
    "qualifiedName", "partialArgs", "partialKwargs", "parameterNames",
    "retryOnRemoteCall", "preventFurtherCalls",
    "type", "value",
}
FN_REF_TAG = "twosigma.memento.FunctionReference"


def _ret_dict(fa: FA):
    for r in fa.returns():
        if isinstance(r.value, ast.Dict):
            return r.value
    return None


def _state_keys(fa: FA, var="state"):
    out = set()
    for n in A.walk_body(fa.node):
        if isinstance(n, ast.Subscript) and A.norm(n.value) == var and A.const_str(n.slice):
            out.add(A.const_str(n.slice))
    return out


def _ctor_params(ck, cls_qual):
    cls = ck.repo.cls(cls_qual)
    init = ck.repo.find_method(cls, "__init__")
    ck.need(init is not None, "%s.__init__ not found" % cls_qual)
    return [p for p in init.params if p != "self"]


def check_versioned_key_codec(ck, R4):
    ev = FA(ck, MC + ".encode_versioned_data_source_key")
    dv = FA(ck, MC + ".decode_versioned_data_source_key")
    tm = [A.str_template(r.value) for r in ev.returns() if r.value is not None and not A.is_none(r.value)]
    tm = [t for t in tm if t is not None]
    ok4 = len(tm) == 1 and tm[0][0] == "{}#{}" and [A.norm(a) for a in tm[0][1]] == ["content_key.key", "content_key.version"]
    ck.ob(R4, ev.key(None, "join"), ok4, "key#version" if ok4 else "versioned keys are not written as '{}#{}'.format(key, version)", ev.where())
    rf = [c for c in dv.calls("rfind")]
    ok5 = len(rf) == 1 and A.const_str(rf[0].args[0]) == "#" and not dv.calls("find") and not dv.calls("split")
    ctor = [c for c in dv.calls("VersionedDataSourceKey")]
    ok5 = ok5 and len(ctor) == 1 and A.kwarg(ctor[0], "key") is not None and A.kwarg(ctor[0], "version") is not None \
        and dv.xnorm(A.kwarg(ctor[0], "key"), dv.nodes(ctor[0])[0]) in ("state[0:state.rfind('#')]", "state[:state.rfind('#')]") \
        and dv.xnorm(A.kwarg(ctor[0], "version"), dv.nodes(ctor[0])[0]) == "state[state.rfind('#') + 1:]"
    ck.ob(R4, dv.key(None, "split-last"), ok5, "split at the last '#': the key part may itself contain '#' (versions in qualified names)" if ok5 else
          "versioned keys are not split at the last '#': a key containing '#' is cut in the wrong place", dv.where())
    none_ok = any(A.norm(i.test) == "content_key is None" for i in ev.stmts(ast.If)) and any(A.norm(i.test) == "state is None" for i in dv.stmts(ast.If))
    ck.ob(R4, ev.key(None, "none"), none_ok, "a missing content key round-trips as null" if none_ok else "None content keys are not passed through", ev.where())



def check_reference_resolved_afresh(ck, R):
    """A stored function reference is resolved against the current code on every decode: every
    return of decode_fn_reference is preceded by a from_qualified_name(...) call built from the
    state (a reference remembered from an earlier decode may designate a function that has been
    edited or removed since, or one decoded with other partial arguments)."""
    from .fresh import every_return_through
    df = FA(ck, MC + ".decode_fn_reference")
    every_return_through(
        ck, R, df, lambda c: A.call_attr(c) == "from_qualified_name", "resolved-afresh",
        "every decoded reference is resolved by from_qualified_name on this very call",
        "decode_fn_reference can return a reference without resolving it through from_qualified_name on this call: a reference "
        "remembered from an earlier decode keeps designating the function as it was then (edited / removed callees stay "
        "'local' at their old version; partial arguments of the first decode are reused)")
    for c in df.calls("from_qualified_name"):
        want = {"qualified_name": "qualifiedName", "partial_args": "partialArgs", "partial_kwargs": "partialKwargs", "parameter_names": "parameterNames"}
        for kw, field in want.items():
            v = A.kwarg(c, kw)
            ok = v is not None and (field in A.strings_in(v) or ("const:%r" % field) in df.deps(v))
            ck.ob(R, df.key(c, "state-field:" + field), ok, "%s is taken from state['%s']" % (kw, field) if ok else
                  "from_qualified_name is not given %s from state['%s']" % (kw, field), df.where(c))


def check_decoders_pure(ck, R):
    """Every decoder is a function of the encoded state alone (cls, state): a decoder that can be
    handed a pre-resolved value lets a caller substitute something that the state does not say."""
    cls = ck.repo.cls(MC)
    for name, m in cls.methods.items():
        if name.startswith("decode_"):
            ps = [p for p in m.params if p not in ("cls", "self")]
            ok = len(ps) == 1
            ck.ob(R, m.qual + "::signature", ok, "%s(state)" % name if ok else
                  "%s takes %s: a value decoded elsewhere can be substituted for what the encoded state designates (e.g. one resolved function "
                  "reference reused for invocations with different partial arguments)" % (name, ps), A.loc(m, m.node))
    check_reference_resolved_afresh(ck, R)
    di = FA(ck, MC + ".decode_invocation_metadata")
    comps = [n for n in A.walk_body(di.node) if isinstance(n, ast.ListComp) and "invocations" in A.norm(n.generators[0].iter)]
    ok = len(comps) == 1 and A.norm(comps[0].elt) == "cls.decode_fn_reference_with_args(%s)" % A.norm(comps[0].generators[0].target)
    ck.ob(R, di.key(None, "invocations-one-by-one"), ok, "each recorded invocation is decoded from its own state" if ok else
          "recorded invocations are not decoded one by one with decode_fn_reference_with_args(<element>)", di.where())


def check(ck):
    from .memo import check_new_memo_tables
    ck.run(check_new_memo_tables, ck, "C11.M1", ('serialization', 'reference', 'metadata'))
    R1, R2, R3, R4, R5 = ("C11.R%d" % i for i in range(1, 6))
    ck.rule(R1, "pairwise key agreement: for each encode/decode pair the keys of the emitted object equal the keys the decoder reads", 7)
    ck.rule(R2, "field coverage: for each rebuilt class, constructor parameters == keyword arguments the decoder passes, "
                "and every parameter is fed from an encoded field read off the object", 12)
    ck.rule(R3, "wire format: the union of emitted field names equals the frozen cross-language table; arguments are "
                "{type, value} objects whose type is a ResultType name or the function-reference tag; emitted tags == decoded tags", 4)
    ck.rule(R4, "versioned keys are joined with '#' and split at the last '#'", 2)
    ck.rule(R5, "encode_arg tests subclasses before superclasses (bool before number, timestamp before date)", 2)
    emitted = set()
    for (name, cls_qual) in PAIRS:
        enc = FA(ck, "%s.encode_%s" % (MC, name))
        dec = FA(ck, "%s.decode_%s" % (MC, name))
        d = _ret_dict(enc)
        ck.need(d is not None, "encode_%s does not return a dict literal" % name)
        ekeys = {A.const_str(k) for k in d.keys}
        dkeys = _state_keys(dec)
        emitted |= ekeys
        ok = ekeys == dkeys
        ck.ob(R1, enc.key(None, "keys"), ok, "%d fields agree" % len(ekeys) if ok else
              "encode_%s writes %s but decode_%s reads %s" % (name, sorted(ekeys - dkeys), name, sorted(dkeys - ekeys)), enc.where())
        # R2
        if cls_qual is not None:
            params = _ctor_params(ck, cls_qual)
            ctor_name = cls_qual.split(".")[-1]
            ctor = [c for c in dec.calls(ctor_name)]
            if len(ctor) != 1:
                ck.ob(R2, dec.key(None, "ctor"), False, "decode_%s does not rebuild a %s" % (name, ctor_name), dec.where())
                continue
            kws = [k.arg for k in ctor[0].keywords]
            ok2 = sorted(kws) == sorted(params) and not ctor[0].args
            ck.ob(R2, dec.key(ctor[0], "ctor-params"), ok2, "%s(%s) is rebuilt with every constructor parameter" % (ctor_name, ", ".join(params)) if ok2 else
                  "%s takes (%s) but the decoder passes (%s): a field is lost or not restored" % (ctor_name, ", ".join(params), ", ".join(kws)), dec.where(ctor[0]))
            # every param is fed from a distinct state key; every key is consumed
            used = set()
            for k in ctor[0].keywords:
                ks = {A.const_str(n.slice) for n in ast.walk(k.value) if isinstance(n, ast.Subscript) and A.norm(n.value) == "state" and A.const_str(n.slice)}
                used |= ks
                ck.ob(R2, dec.key(ctor[0], "fed:" + (k.arg or "?")), len(ks) == 1, "%s is restored from %s" % (k.arg, sorted(ks)) if len(ks) == 1 else
                      "%s is not restored from exactly one encoded field (%s)" % (k.arg, sorted(ks)), dec.where(ctor[0]))
            ck.ob(R2, dec.key(ctor[0], "all-keys-consumed"), used == dkeys, "every encoded field is consumed" if used == dkeys else
                  "encoded fields %s are read but not passed to the constructor" % sorted(dkeys - used), dec.where(ctor[0]))
            # the encoder reads one attribute of the object per field
            attrs = set()
            obj = enc.fi.params[1] if len(enc.fi.params) > 1 else "obj"
            for v in d.values:
                for n in ast.walk(v):
                    if isinstance(n, ast.Attribute) and isinstance(n.value, ast.Name) and n.value.id == obj:
                        attrs.add(n.attr)
            ok3 = len(attrs) == len(params)
            ck.ob(R2, enc.key(None, "reads-all-fields"), ok3, "the encoder reads %d attributes for %d constructor fields" % (len(attrs), len(params)) if ok3 else
                  "the encoder reads attributes %s but %s has fields %s" % (sorted(attrs), ctor_name, params), enc.where())
        else:
            fq = [c for c in dec.calls("from_qualified_name")]
            okq = len(fq) == 1 and sorted(k.arg for k in fq[0].keywords) == ["parameter_names", "partial_args", "partial_kwargs", "qualified_name"]
            ck.ob(R2, dec.key(None, "from-qualified-name"), okq, "the reference is rebuilt from its qualified name, partials and parameter names" if okq else
                  "decode_fn_reference does not pass (qualified_name, partial_args, partial_kwargs, parameter_names)", dec.where())
    # memento time instant / enum by name
    em = FA(ck, MC + ".encode_memento")
    dm = FA(ck, MC + ".decode_memento")
    okt = "encode_datetime(memento.time)" in A.norm(em.node) and "decode_datetime(state['time'])" in A.norm(dm.node)
    ck.ob(R1, em.key(None, "time-codec"), okt, "time goes through the datetime codec both ways" if okt else "memento.time is not encoded/decoded with the datetime codec", em.where())
    ei = FA(ck, MC + ".encode_invocation_metadata")
    di = FA(ck, MC + ".decode_invocation_metadata")
    okr = "obj.result_type.name" in A.norm(ei.node) and "ResultType[state['resultType']]" in A.norm(di.node) \
        and "obj.runtime.total_seconds()" in A.norm(ei.node) and "timedelta(seconds=state['runtimeSeconds'])" in A.norm(di.node)
    ck.ob(R1, ei.key(None, "enum-and-runtime"), okr, "result type travels by name, runtime as seconds" if okr else
          "result type / runtime are not encoded as (name, seconds) and decoded the same way", ei.where())

    # datetimes are written as they are: no zone / precision conversion before isoformat()
    ed = FA(ck, MC + ".encode_datetime")
    for r in ed.returns():
        d = ed.deps(r.value)
        only_param = all(x.kind == "param" for i in ed.nodes(r) for x in ed.df.reaching(i, "obj"))
        conv = sorted({x[5:] for x in d if x.startswith("call:") and x[5:] in ("astimezone", "utcfromtimestamp", "fromtimestamp", "timestamp", "date", "time", "combine", "normalize", "tz_convert", "tz_localize")})
        ok = "call:isoformat" in d and "param:obj" in d and only_param and not conv
        ck.ob(R1, ed.key(r, "datetime-as-is"), ok, "the datetime is written as obj.isoformat() (zone and precision untouched)" if ok else
              "encode_datetime converts the value before writing it (%s): the decoded datetime has another offset, so the argument hash "
              "recomputed from the decoded arguments differs from the stored one" % (conv or "obj is reassigned"), ed.where(r))
    # ---- R3
    ea = FA(ck, MC + ".encode_arg")
    da = FA(ck, MC + ".decode_arg")
    tags_out = set()
    shapes_ok = True
    for dd in [n for n in A.walk_body(ea.node) if isinstance(n, ast.Dict)]:
        ks = [A.const_str(k) for k in dd.keys]
        if "type" in ks:
            emitted |= set(ks)
            if not set(ks) <= {"type", "value"}:
                shapes_ok = False
            tv = dd.values[ks.index("type")]
            t = A.norm(tv)
            if t.startswith("ResultType.") and t.endswith(".name"):
                tags_out.add(t.split(".")[1])
            elif A.const_str(tv):
                tags_out.add(A.const_str(tv))
            elif isinstance(tv, ast.Name):
                for s in ea.stmts(ast.Assign):
                    if any(isinstance(x, ast.Name) and x.id == tv.id for x in s.targets):
                        tt = A.norm(s.value)
                        if tt.startswith("ResultType.") and tt.endswith(".name"):
                            tags_out.add(tt.split(".")[1])
    tags_in = set()
    for n in A.walk_body(da.node):
        if isinstance(n, ast.Compare) and isinstance(n.ops[0], ast.Eq) and da.nodes(n) and da.xnorm(n.left, da.nodes(n)[0]) == "state['type']":
            t = A.norm(n.comparators[0])
            if t.startswith("ResultType.") and t.endswith(".name"):
                tags_in.add(t.split(".")[1])
            elif A.const_str(n.comparators[0]):
                tags_in.add(A.const_str(n.comparators[0]))
    ck.ob(R3, ea.key(None, "arg-shape"), shapes_ok, "arguments are {type, value} objects" if shapes_ok else
          "an argument encoding has fields other than type/value", ea.where())
    ck.ob(R3, da.key(None, "tags"), tags_out == tags_in and FN_REF_TAG in tags_out, "%d argument tags agree (incl. the function-reference tag)" % len(tags_out) if tags_out == tags_in and FN_REF_TAG in tags_out else
          "argument tags differ: emitted only %s, decoded only %s" % (sorted(tags_out - tags_in), sorted(tags_in - tags_out)), da.where())
    rt = ck.repo.cls("metadata.ResultType")
    members = {t.id for st in rt.node.body if isinstance(st, ast.Assign) for t in st.targets if isinstance(t, ast.Name)}
    okm = (tags_out - {FN_REF_TAG}) <= members
    ck.ob(R3, ea.key(None, "tags-are-result-types"), okm, "every tag is a ResultType member name" if okm else
          "tags %s are not ResultType members" % sorted(tags_out - {FN_REF_TAG} - members), ea.where())
    ck.ob(R3, MC + "::wire-fields", emitted == WIRE_FIELDS, "the %d emitted field names equal the cross-language table" % len(emitted) if emitted == WIRE_FIELDS else
          "wire format changed: new/renamed %s, missing %s" % (sorted(emitted - WIRE_FIELDS), sorted(WIRE_FIELDS - emitted)), "twosigma/memento/serialization.py")
    # nested arguments go through encode_arg / decode_arg
    for fa, fn in ((FA(ck, MC + ".encode_fn_reference_with_args"), "encode_arg"), (FA(ck, MC + ".decode_fn_reference_with_args"), "decode_arg"),
                   (FA(ck, MC + ".encode_fn_reference"), "encode_arg"), (FA(ck, MC + ".decode_fn_reference"), "decode_arg")):
        n = len(fa.calls(fn))
        want = 3 if "with_args" in fa.qual else 2
        ck.ob(R3, fa.key(None, "typed-args"), n == want, "all %d argument collections use %s" % (want, fn) if n == want else
              "%s uses %s for %d of %d argument collections" % (fa.fi.name, fn, n, want), fa.where())

    ck.run(check_versioned_key_codec, ck, R4)
    # a decoded reference is rebuilt by parsing its qualified name: the parser's delimiter discipline
    # (shared with C12.R1) is part of the round trip
    ck.rule("C11.R7", "qualified names are parsed back into the parts they were built from (version cut at the first '#', "
                      "cluster at the first '::', module at the first ':')", 5)
    from .c12 import check_parser
    ck.run(check_parser, ck, "C11.R7")

    # ---- R5
    pairs = repo_subclass_pairs(ck)
    lad = extract_ladder(ea.node)
    n = check_ladder_order(ck, R5, ea, lad, pairs, "wire-encode")
    ck.need(n >= 2, "encode_arg ladder: bool/int and datetime/date not comparable (%d)" % n)
    ck.run(check_typed_identity, ck, "C11.R6", ("serialization", "reference"))
    ck.run(check_enum_distinct, ck, "C11.R3")
    ck.run(check_json_bytes, ck, "C11.R3", ["storage_base.DataSourceMetadataSource.put_memento", "storage_base.DefaultCodec.JsonExceptionStrategy.encode"])
    ck.run(check_decoders_pure, ck, "C11.R2")
