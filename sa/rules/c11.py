"""C11 — the JSON metadata codec round-trips and keeps its cross-language wire format (structural).

Decides: encode/decode key-set agreement for every pair (R1); constructor-field coverage (R2); the
frozen wire-format table and argument tags (R3); last-'#' split of versioned keys (R4); dispatch
order in encode_arg (R5).  Value-level round trips (datetime zones, NaN, non-ASCII) are not decided.

The rules follow VALUES, not spellings: "the field a constructor parameter is restored from" is the set
of state keys in the value flow of the argument (through temporaries, inlined helper results, results
built by a loop), "the tags an encoder emits" are the values the `type` entry can hold, and so on.
"""
import ast

from .. import astutil as A
from ..fa import FA
from ..loader import AnalysisError
from .valeq import check_typed_identity, check_json_bytes, check_enum_distinct, VALUE_PARAMS
from .ladders import extract_ladder, check_ladder_order, repo_subclass_pairs, dispatch_model
from .fresh import flow_nodes, alternatives, value_cases, param_rooted, return_cases, at_of, attr_writes, guarded_cases, static_value as _static

MC = "serialization.MementoCodec"

# encode/decode pairs and the class the decoder rebuilds
PAIRS = [
    ("memento", "metadata.Memento"),
    ("invocation_metadata", "metadata.InvocationMetadata"),
    ("fn_reference_with_args", "reference.FunctionReferenceWithArguments"),
    ("fn_reference_with_arg_hash", "reference.FunctionReferenceWithArgHash"),
    ("resource_handle", "resource.ResourceHandle"),
    ("recursive_context", "context.RecursiveContext"),
    ("fn_reference", None),  # rebuilt through from_qualified_name
]

# The cross-language contract (other implementations read these names): NOT a copy of the source
# to be regenerated, renaming a wire field is exactly the breakage the property names.
WIRE_FIELDS = {
    "time", "invocationMetadata", "functionDependencies", "runner", "correlationId", "contentKey",
    "fnReferenceWithArgs", "invocations", "resources", "runtimeSeconds", "resultType",
    "fnReference", "args", "kwargs", "contextArgs", "argHash",
    "resourceType", "url", "version",
    "qualifiedName", "partialArgs", "partialKwargs", "parameterNames",
    "retryOnRemoteCall", "preventFurtherCalls",
    "type", "value",
}
FN_REF_TAG = "twosigma.memento.FunctionReference"


def _first_param(fa: FA, default: str) -> str:
    ps = [p for p in fa.fi.params if p not in ("cls", "self")]
    return ps[0] if ps else default


def _dict_items(node):
    """[(key text or None, value)] of a dict literal / dict(k=v, ...) call; None for anything else."""
    if isinstance(node, ast.Dict):
        return [(A.const_str(k) if k is not None else None, v) for k, v in zip(node.keys, node.values)]
    if isinstance(node, ast.Call) and isinstance(node.func, ast.Name) and node.func.id == "dict" and not node.args:
        return [(k.arg, k.value) for k in node.keywords]
    return None


def _emitted(fa: FA):
    """{wire field: [(value expr, cfg node)]} for the object an encoder returns: a dict literal (returned
    directly, through a result variable, or as the arms of a conditional), plus `result['k'] = v` stores
    into a returned result variable.  None when the function does not return such an object."""
    out = {}
    found = False
    for r in fa.returns():
        if r.value is None or not fa.nodes(r):
            continue
        at = fa.nodes(r)[0]
        todo = list(alternatives(fa, r.value, at))
        budget = 40
        while todo:
            budget -= 1
            if budget < 0:
                return None
            (alt, a_) = todo.pop()
            items = _dict_items(alt)
            if items is None:
                if A.is_none(alt):
                    continue
                return None
            found = True
            for i, (k, v) in enumerate(items):
                if k is None:
                    # {**base, 'k': v}: the entries of the spliced dict(s) are emitted too
                    if isinstance(alt, ast.Dict) and alt.keys[i] is None:
                        todo += alternatives(fa, v, a_)
                        continue
                    return None
                out.setdefault(k, []).append((v, a_))
        if isinstance(r.value, ast.Name):
            for (k, v, a_) in _entries_put_into(fa, r.value.id):
                out.setdefault(k, []).append((v, a_))
    return out if found else None


def _entries_put_into(fa: FA, name: str):
    """[(key, value expr, cfg node)]: entries statements put into the dict held by local `name` after it was bound:
    `name['k'] = v`, `name.update({'k': v})`, `name.update(k=v)`, `name |= {'k': v}`, `name.setdefault('k', v)`."""
    out = []
    for st in fa.stmts((ast.Assign, ast.AugAssign, ast.Expr)):
        if not fa.nodes(st):
            continue
        at = fa.nodes(st)[0]
        if isinstance(st, ast.Assign):
            for t in st.targets:
                if isinstance(t, ast.Subscript) and isinstance(t.value, ast.Name) and t.value.id == name and A.const_str(t.slice):
                    out.append((A.const_str(t.slice), st.value, at))
        elif isinstance(st, ast.AugAssign):
            if isinstance(st.target, ast.Name) and st.target.id == name and isinstance(st.op, ast.BitOr):
                for (alt, a_) in alternatives(fa, st.value, at):
                    for (k, v) in (_dict_items(alt) or []):
                        if k is not None:
                            out.append((k, v, a_))
        elif isinstance(st.value, ast.Call) and isinstance(st.value.func, ast.Attribute) and isinstance(st.value.func.value, ast.Name) \
                and st.value.func.value.id == name:
            c = st.value
            if c.func.attr == "update":
                for a in c.args:
                    for (alt, a_) in alternatives(fa, a, at):
                        for (k, v) in (_dict_items(alt) or []):
                            if k is not None:
                                out.append((k, v, a_))
                out += [(k.arg, k.value, at) for k in c.keywords if k.arg is not None]
            elif c.func.attr == "setdefault" and len(c.args) == 2 and A.const_str(c.args[0]):
                out.append((A.const_str(c.args[0]), c.args[1], at))
    return out


def _state_key_of(fa: FA, n, at, param):
    """The wire field read by `state['k']` / `state.get('k')` (state: the decoder's parameter or a plain alias)."""
    base = key = None
    if isinstance(n, ast.Subscript) and A.const_str(n.slice):
        base, key = n.value, A.const_str(n.slice)
    elif isinstance(n, ast.Call) and A.call_attr(n) in ("get", "__getitem__") and n.args and A.const_str(n.args[0]) and isinstance(n.func, ast.Attribute):
        base, key = n.func.value, A.const_str(n.args[0])
    if key is None and isinstance(n, ast.Call) and isinstance(n.func, ast.Name) and at is not None and len(n.args) >= 1 and A.const_str(n.args[0]) \
            and fa.df.is_local(n.func.id):
        # read = state.__getitem__ / state.get ... read('k')
        acc = fa.expand(n.func, at)
        if isinstance(acc, ast.Attribute) and acc.attr in ("get", "__getitem__"):
            base, key = acc.value, A.const_str(n.args[0])
    if key is None or not isinstance(base, ast.Name):
        return None
    if base.id == param or (at is not None and param_rooted(fa, base, at, param)):
        return key
    return None


def _state_keys(fa: FA):
    param = _first_param(fa, "state")
    out = set()
    for n in A.walk_body(fa.node):
        if isinstance(n, (ast.Subscript, ast.Call)):
            ids = fa.nodes(n) if not (isinstance(n, ast.Subscript) and isinstance(n.value, ast.Name) and n.value.id == param) else [None]
            k = _state_key_of(fa, n, ids[0] if ids else None, param)
            if k:
                out.add(k)
    return out


def _keys_in_flow(fa: FA, expr, at):
    """State keys the VALUE of expr is computed from."""
    param = _first_param(fa, "state")
    out = set()
    for (n, a_) in flow_nodes(fa, expr, at):
        k = _state_key_of(fa, n, a_, param)
        if k:
            out.add(k)
    return out


def _attrs_in_flow(fa: FA, expr, at, param):
    out = set()
    for (n, a_) in flow_nodes(fa, expr, at):
        if isinstance(n, ast.Attribute) and isinstance(n.value, ast.Name) and (n.value.id == param or param_rooted(fa, n.value, a_, param)):
            out.add(n.attr)
        elif isinstance(n, ast.Call) and isinstance(n.func, ast.Name) and n.func.id == "getattr" and 2 <= len(n.args) <= 3 and A.const_str(n.args[1]) \
                and isinstance(n.args[0], ast.Name) and (n.args[0].id == param or param_rooted(fa, n.args[0], a_, param)):
            out.add(A.const_str(n.args[1]))
    return out


def _mapped_over(n, name):
    """`map(<...>.name, xs)` -> xs : the function is applied to every element of ONE iterable; else None."""
    if isinstance(n, ast.Call) and isinstance(n.func, ast.Name) and n.func.id == "map" and len(n.args) == 2 and not n.keywords:
        f = n.args[0]
        if (isinstance(f, ast.Attribute) and f.attr == name) or (isinstance(f, ast.Name) and f.id == name):
            return n.args[1]
    return None


def _calls_in_flow(fa: FA, expr, at, name):
    """Applications of the function `name` the value is computed from: direct calls and map(name, xs)."""
    return [n for (n, a_) in flow_nodes(fa, expr, at) if isinstance(n, ast.Call) and (A.call_attr(n) == name or _mapped_over(n, name) is not None)]


def _ctor_params(ck, cls_qual):
    cls = ck.repo.cls(cls_qual)
    init = ck.repo.find_method(cls, "__init__")
    if init is None:
        # a class whose constructor is generated from its annotated fields (@dataclass, typing.NamedTuple)
        generated = any("dataclass" in A.norm(d) for d in cls.node.decorator_list) or any(A.norm(b).split(".")[-1] == "NamedTuple" for b in cls.node.bases)
        fields = [st.target.id for st in cls.node.body if isinstance(st, ast.AnnAssign) and isinstance(st.target, ast.Name)
                  and "ClassVar" not in A.norm(st.annotation)]
        if generated and fields:
            return fields
    ck.need(init is not None, "%s.__init__ not found" % cls_qual)
    return [p for p in init.params if p != "self"]


def _call_args(call, params):
    """{parameter: value expr} of a call, positional arguments mapped through the callee's parameter list;
    None when it cannot be told (*args / **kwargs)."""
    out = {}
    if any(isinstance(a, ast.Starred) for a in call.args) or any(k.arg is None for k in call.keywords) or len(call.args) > len(params):
        return None
    for i, a in enumerate(call.args):
        out[params[i]] = a
    for k in call.keywords:
        out[k.arg] = k.value
    return out


def _bound_args(fa: FA, call, params):
    """{callee parameter: (value expr, cfg node where it is evaluated)} of a call: positional arguments mapped through
    the callee's parameter list, keywords, and a `**fields` whose value is ONE dict built in this function (a literal /
    dict(...) call, plus the entries stored into it afterwards).  None when the binding cannot be told."""
    at = at_of(fa, call)
    plain = ast.Call(func=call.func, args=call.args, keywords=[k for k in call.keywords if k.arg is not None])
    base = _call_args(plain, params)
    if base is None:
        return None
    out = {p: (v, at) for p, v in base.items()}
    for k in call.keywords:
        if k.arg is not None:
            continue
        alts = alternatives(fa, k.value, at)
        items = _dict_items(alts[0][0]) if len(alts) == 1 else None
        if items is None or any(key is None for key, _ in items):
            return None
        for key, v in items:
            out[key] = (v, alts[0][1])
        if isinstance(k.value, ast.Name):
            for (key, v, a_) in _entries_put_into(fa, k.value.id):
                out[key] = (v, a_)
    return out


def _is_chain(fa: FA, e, at, param, attrs) -> bool:
    """e is <param>.<attrs...> (param possibly through an alias)."""
    for a in reversed(attrs):
        if not (isinstance(e, ast.Attribute) and e.attr == a):
            return False
        e = e.value
    return isinstance(e, ast.Name) and (e.id == param or param_rooted(fa, e, at, param))


def _check_field_correspondence(ck, R, enc: FA, emitted, dec: FA, site, fed_from, what):
    """A wire field carries ONE attribute of the object; the decoder hands the field back to the constructor parameter of
    that very attribute.  (Each side may be complete on its own — every field written, every parameter fed from exactly
    one field — and the pair still not round-trip: `kwargs` restored from the field `contextArgs` was written from.)"""
    obj = _first_param(enc, "obj")
    attrs_of = {}
    for k, vals in emitted.items():
        for (v, a_) in vals:
            attrs_of.setdefault(k, set()).update(_attrs_in_flow(enc, v, a_, obj))
    for p, ks in sorted(fed_from.items()):
        if p is None or len(ks) != 1:
            continue
        k = next(iter(ks))
        attrs = attrs_of.get(k) or set()
        if not attrs:
            continue  # (the encoder's reads are accounted for by reads-all-fields)
        ok = any(a.lstrip("_") == p.lstrip("_") for a in attrs)
        ck.ob(R, dec.key(site, "field-matches:" + p), ok, "%s comes back from the field %r it was written to" % (p, k) if ok else
              "%s is rebuilt with %s taken from the field %r, but %s writes %s there: after a round trip %s holds another "
              "attribute's value (the decoded memento is not equivalent, its argument hash differs)"
              % (what, p, k, enc.fi.name, "/".join("%s.%s" % (obj, a) for a in sorted(attrs)), p), dec.where(site))


# ---- versioned content keys -----------------------------------------------------------------------------
def _none_cases(fa: FA, what):
    """(conditions under which the function returns None, the other (value, at) cases) — or None."""
    cases = return_cases(fa)
    if cases is None:
        raise AnalysisError("%s: too many paths to tell when %s is None" % (fa.qual, what))
    none_conds, others = set(), []
    for (v, at, conds) in cases:
        if v is None or A.is_none(v):
            none_conds |= conds
        else:
            others.append((v, at))
    from .fresh import _simplify
    return _simplify(none_conds), others


def _template(e):
    """A.str_template, also for `'<sep>'.join((a, b, ...))` over a literal sequence and str(x) wrappers of the parts."""
    if isinstance(e, ast.Call) and A.call_attr(e) == "join" and isinstance(e.func, ast.Attribute) and A.const_str(e.func.value) is not None \
            and len(e.args) == 1 and not e.keywords and isinstance(e.args[0], (ast.List, ast.Tuple)) and e.args[0].elts \
            and not any(isinstance(x, ast.Starred) for x in e.args[0].elts):
        sep = A.const_str(e.func.value).replace("{", "{{").replace("}", "}}")
        return sep.join("{}" for _ in e.args[0].elts), list(e.args[0].elts)
    return A.str_template(e)


def _int_const(n):
    """The integer a constant expression denotes: a literal, or len('<literal>')."""
    if isinstance(n, ast.Constant) and isinstance(n.value, int) and not isinstance(n.value, bool):
        return n.value
    if isinstance(n, ast.Call) and isinstance(n.func, ast.Name) and n.func.id == "len" and len(n.args) == 1 and A.const_str(n.args[0]) is not None:
        return len(A.const_str(n.args[0]))
    return None


def _once(c):
    """Is the split call limited to ONE cut: rsplit(sep, 1) / rsplit(sep, maxsplit=1)?"""
    mx = c.args[1] if len(c.args) == 2 else A.kwarg(c, "maxsplit") if len(c.args) == 1 else None
    return mx is not None and _int_const(mx) == 1


def _last_cut(dv: FA, e, at, param, sep):
    """Which side of the LAST `sep` of the parameter string does `e` denote: 'before' / 'after' / None."""
    x = dv.expand(e, at)

    def is_state(n):
        return isinstance(n, ast.Name) and n.id == param

    def is_rfind(n):
        return isinstance(n, ast.Call) and A.call_attr(n) in ("rfind", "rindex") and isinstance(n.func, ast.Attribute) and is_state(n.func.value) \
            and len(n.args) == 1 and A.const_str(n.args[0]) == sep

    def affine(n):
        """(k, c) with n == k * <position of the last sep> + c, through + / - of integer constants; else None"""
        if is_rfind(n):
            return (1, 0)
        ic = _int_const(n)
        if ic is not None:
            return (0, ic)
        if isinstance(n, ast.BinOp) and isinstance(n.op, (ast.Add, ast.Sub)):
            a_, b_ = affine(n.left), affine(n.right)
            if a_ is None or b_ is None:
                return None
            sg = 1 if isinstance(n.op, ast.Add) else -1
            return (a_[0] + sg * b_[0], a_[1] + sg * b_[1])
        return None

    if isinstance(x, ast.Subscript) and is_state(x.value) and isinstance(x.slice, ast.Slice) and x.slice.step is None:
        lo, up = x.slice.lower, x.slice.upper
        if (lo is None or _int_const(lo) == 0) and up is not None and affine(up) == (1, 0):
            return "before"
        if up is None and lo is not None and affine(lo) == (1, len(sep)):
            return "after"
        if up is None and isinstance(lo, ast.BinOp) and isinstance(lo.op, ast.Add):
            a_, b_ = lo.left, lo.right
            n = len(sep)
            if (is_rfind(a_) and _int_const(b_) == n) or (is_rfind(b_) and _int_const(a_) == n):
                return "after"
    # state.rpartition(sep)[0] / [2] ; state.rsplit(sep, 1)[0] / [1]
    if isinstance(x, ast.Subscript) and isinstance(x.value, ast.Call) and isinstance(x.value.func, ast.Attribute) and is_state(x.value.func.value) \
            and x.value.args and A.const_str(x.value.args[0]) == sep and isinstance(x.slice, ast.Constant):
        c = x.value
        if c.func.attr == "rpartition" and len(c.args) == 1:
            return {0: "before", 2: "after", -1: "after"}.get(x.slice.value)
        if c.func.attr == "rsplit" and _once(c):
            return {0: "before", 1: "after", -1: "after"}.get(x.slice.value)
    # key, _, version = state.rpartition(sep)
    if isinstance(e, ast.Name):
        ds = dv.df.reaching(at, e.id)
        if len(ds) == 1 and ds[0].kind == "unpack" and isinstance(ds[0].stmt, ast.Assign) and isinstance(ds[0].stmt.targets[0], (ast.Tuple, ast.List)):
            c = dv.expand(ds[0].value, ds[0].node)
            names = [A.norm(t) for t in ds[0].stmt.targets[0].elts]
            if isinstance(c, ast.Call) and isinstance(c.func, ast.Attribute) and is_state(c.func.value) and c.args and A.const_str(c.args[0]) == sep and e.id in names:
                i = names.index(e.id)
                if c.func.attr == "rpartition" and len(c.args) == 1 and len(names) == 3:
                    return {0: "before", 2: "after"}.get(i)
                if c.func.attr == "rsplit" and _once(c) and len(names) == 2:
                    return {0: "before", 1: "after"}.get(i)
    return None


def check_versioned_key_codec(ck, R4):
    ev = FA(ck, MC + ".encode_versioned_data_source_key")
    dv = FA(ck, MC + ".decode_versioned_data_source_key")
    ep = _first_param(ev, "content_key")
    dp = _first_param(dv, "state")
    e_none, e_vals = _none_cases(ev, "the encoded key")
    d_none, d_vals = _none_cases(dv, "the decoded key")
    # join: every non-None result is <key> '#' <version> of the parameter
    ok4 = bool(e_vals)
    for (v, at) in e_vals:
        tm = _template(ev.expand(v, at))
        ok4 = ok4 and tm is not None and tm[0] == "{}#{}" and len(tm[1]) == 2 and _is_chain(ev, tm[1][0], at, ep, ["key"]) and _is_chain(ev, tm[1][1], at, ep, ["version"])
    ck.ob(R4, ev.key(None, "join"), ok4, "key#version" if ok4 else "versioned keys are not written as '{}#{}'.format(key, version)", ev.where())
    # split: every non-None result is VersionedDataSourceKey(key=<before the last '#'>, version=<after it>)
    ok5 = bool(d_vals) and not [c for c in dv.calls() if A.call_attr(c) in ("find", "index", "partition", "split") and c.args and A.const_str(c.args[0]) == "#"]
    for (v, at) in d_vals:
        if not (isinstance(v, ast.Call) and A.call_attr(v) == "VersionedDataSourceKey"):
            ok5 = False
            continue
        args = _call_args(v, ["key", "version"])
        ok5 = ok5 and args is not None and set(args) == {"key", "version"} \
            and _last_cut(dv, args["key"], at, dp, "#") == "before" and _last_cut(dv, args["version"], at, dp, "#") == "after"
    ck.ob(R4, dv.key(None, "split-last"), ok5, "split at the last '#': the key part may itself contain '#' (versions in qualified names)" if ok5 else
          "versioned keys are not split at the last '#': a key containing '#' is cut in the wrong place", dv.where())
    # None passes through both ways: the result is None exactly when the parameter is
    none_ok = e_none == {frozenset({("%s is None" % ep, True)})} and d_none == {frozenset({("%s is None" % dp, True)})}
    ck.ob(R4, ev.key(None, "none"), none_ok, "a missing content key round-trips as null" if none_ok else "None content keys are not passed through", ev.where())


def check_reference_resolved_afresh(ck, R):
    """A stored function reference is resolved against the current code on every decode: every
    return of decode_fn_reference is preceded by a from_qualified_name(...) call built from the
    state (a reference remembered from an earlier decode may designate a function that has been
    edited or removed since, or one decoded with other partial arguments)."""
    from .fresh import every_return_through
    df = FA(ck, MC + ".decode_fn_reference")
    every_return_through(
        ck, R, df, lambda c: A.call_attr(c) == "from_qualified_name", "resolved-afresh",
        "every decoded reference is resolved by from_qualified_name on this very call",
        "decode_fn_reference can return a reference without resolving it through from_qualified_name on this call: a reference "
        "remembered from an earlier decode keeps designating the function as it was then (edited / removed callees stay "
        "'local' at their old version; partial arguments of the first decode are reused)")
    callee = ck.repo.try_func("reference.FunctionReference.from_qualified_name")
    cparams = [p for p in callee.params if p not in ("self", "cls")] if callee is not None else []
    for c in df.calls("from_qualified_name"):
        want = {"qualified_name": "qualifiedName", "partial_args": "partialArgs", "partial_kwargs": "partialKwargs", "parameter_names": "parameterNames"}
        given = _bound_args(df, c, cparams) or {k.arg: (k.value, at_of(df, c)) for k in c.keywords if k.arg}
        for kw, field in want.items():
            v, at = given.get(kw, (None, None))
            ok = v is not None and field in _keys_in_flow(df, v, at)
            ck.ob(R, df.key(c, "state-field:" + field), ok, "%s is taken from state['%s']" % (kw, field) if ok else
                  "from_qualified_name is not given %s from state['%s']" % (kw, field), df.where(c))


def check_decoders_pure(ck, R):
    """Every decoder is a function of the encoded state alone (cls, state): a decoder that can be
    handed a pre-resolved value lets a caller substitute something that the state does not say."""
    cls = ck.repo.cls(MC)
    for name, m in cls.methods.items():
        if name.startswith("decode_"):
            ps = [p for p in m.params if p not in ("cls", "self")]
            ok = len(ps) == 1
            ck.ob(R, m.qual + "::signature", ok, "%s(state)" % name if ok else
                  "%s takes %s: a value decoded elsewhere can be substituted for what the encoded state designates (e.g. one resolved function "
                  "reference reused for invocations with different partial arguments)" % (name, ps), A.loc(m, m.node))
    check_reference_resolved_afresh(ck, R)
    # each recorded invocation is decoded from its own element of state['invocations']: the value handed to the
    # constructor flows from decode_fn_reference_with_args(<element>) calls only
    di = FA(ck, MC + ".decode_invocation_metadata")
    ok = False
    ctor = di.calls("InvocationMetadata")
    if len(ctor) == 1:
        args = _call_args(ctor[0], _ctor_params(ck, "metadata.InvocationMetadata")) or {}
        v = args.get("invocations")
        if v is not None:
            at = at_of(di, ctor[0])
            calls = _calls_in_flow(di, v, at, "decode_fn_reference_with_args")
            ok = bool(calls)
            for c in calls:
                xs = _mapped_over(c, "decode_fn_reference_with_args")
                if xs is not None:
                    ok = ok and "invocations" in _keys_in_flow(di, xs, at_of(di, c))
                    continue
                elem = c.args[0] if len(c.args) == 1 and not c.keywords else None
                per_element = False
                if isinstance(elem, ast.Name):
                    comp = di.enclosing(c, (ast.ListComp, ast.GeneratorExp, ast.SetComp))
                    if comp is not None and any(elem.id in A.names_in(g.target) and "invocations" in _keys_in_flow(di, g.iter, at_of(di, c)) for g in comp.generators):
                        per_element = True
                    else:
                        ds = di.df.reaching(at_of(di, c), elem.id) if di.nodes(c) else []
                        per_element = bool(ds) and all(d.kind in ("for", "unpack") and d.value is not None and "invocations" in _keys_in_flow(di, d.value, d.node) for d in ds)
                ok = ok and per_element
    ck.ob(R, di.key(None, "invocations-one-by-one"), ok, "each recorded invocation is decoded from its own state" if ok else
          "recorded invocations are not decoded one by one with decode_fn_reference_with_args(<element>)", di.where())


# ---- what the decoder supplies reaches the rebuilt reference ------------------------------------------------
def _site_args(fa: FA, call, params):
    """{callee parameter: value expr} of a construction site; a `**opts` whose value is one dict literal is
    opened up.  None when the binding cannot be told."""
    plain = ast.Call(func=call.func, args=call.args, keywords=[k for k in call.keywords if k.arg is not None])
    out = _call_args(plain, params)
    if out is None:
        return None
    for k in call.keywords:
        if k.arg is None:
            alts = alternatives(fa, k.value, at_of(fa, call))
            items = _dict_items(alts[0][0]) if len(alts) == 1 else None
            if items is None or any(key is None for key, _ in items):
                return None
            for key, v in items:
                out[key] = v
    return out


def _carried(fa: FA, value, at, param):
    """Does the value handed on at a site carry what the function received as `param`: on every path to the site the
    value it holds there is computed from the parameter, except stand-ins used only where the parameter is absent
    (None / empty) — whether the stand-in is chosen by a conditional expression, `param or default`, an if/else, or a
    default assigned first and overridden where the parameter is present.
    -> (ok, the offending case or None)"""
    from .fresh import path_cases
    absent = {("%s is None" % param, True), (param, False), ("len(%s) == 0" % param, True), ("0 == len(%s)" % param, True)}
    cases = path_cases(fa, value, at, also=(param,))
    if cases is None:
        raise AnalysisError("%s: too many paths to tell what `%s` holds" % (fa.qual, A.short(value, 40)))
    derived = 0
    for (v, a_, conds) in cases:
        if (isinstance(v, ast.Name) and v.id == param and all(d.kind == "param" for d in fa.df.reaching(a_, v.id))) \
                or ("param:" + param) in fa.df.deps(v, a_):
            derived += 1
            continue
        if conds and all(c & absent for c in conds):
            continue
        return False, v
    return derived > 0, None


PART_KEYS = {"cluster_name": "cluster", "module_name": "module", "function_name": "function", "version": "version"}
CARRIED = ("partial_args", "partial_kwargs", "parameter_names")


def check_reference_fields_carried(ck, R):
    """A decoded reference is rebuilt from what the decoder read off the encoded state: its name parts, partial
    arguments and parameter names.  Whichever way from_qualified_name builds the reference — the function found
    locally, or the external stand-in (asked for, or fallen back to when the lookup fails) — the values it was
    handed reach the constructed object: at every construction site, and through the stand-in's own constructor
    down to the fields of the reference."""
    fq = _unrolled(FA(ck, "reference.FunctionReference.from_qualified_name"))
    own = [p for p in fq.fi.params if p not in ("self", "cls")]
    ck.need(all(p in own for p in CARRIED), "from_qualified_name no longer takes %s" % (CARRIED,))
    stub_params = _ctor_params(ck, "external.UnboundExternalMementoFunction")
    ref_params = _ctor_params(ck, "reference.FunctionReference")

    def site(fa, call, params, carried, parts, what):
        given = _site_args(fa, call, params)
        if given is None:
            raise AnalysisError("%s: cannot tell which arguments `%s` receives" % (fa.qual, A.short(call, 50)))
        at = at_of(fa, call)
        for p in carried:
            if p not in given:
                ck.ob(R, fa.key(call, "carried:" + p), False, "%s is built without %s: the %s read off the encoded state is lost" % (what, p, p), fa.where(call))
                continue
            ok, bad = _carried(fa, given[p], at, carried[p])
            ck.ob(R, fa.key(call, "carried:" + p), ok, "%s receives the %s it was handed" % (what, p) if ok else
                  "%s is built with %s=`%s`, not with the %s that %s was handed: a decoded reference taking this path loses the "
                  "value stored in the encoded state (positional arguments can no longer be bound / the argument hash of a "
                  "function-valued argument changes)" % (what, p, A.short(bad, 40) if bad is not None else A.short(given[p], 40), carried[p], fa.fi.name), fa.where(call))
        for p, key in parts.items():
            v = given.get(p)
            fl = flow_nodes(fa, v, at) if v is not None else []
            keys = {n.value for (n, a_) in fl if isinstance(n, ast.Constant) and n.value in PART_KEYS.values()}
            parsed = any(isinstance(n, ast.Call) and A.call_attr(n) == "parse_qualified_name" for (n, a_) in fl)
            if key in keys and len(keys) > 1:
                raise AnalysisError("%s: cannot tell which part of the parsed name `%s` is" % (fa.qual, A.short(v, 40)))
            ok = parsed and keys == {key}
            ck.ob(R, fa.key(call, "part:" + p), ok, "%s is the %r part of the parsed name" % (p, key) if ok else
                  "%s is built with %s=`%s`, not with the %r part of the qualified name that was decoded" % (what, p, A.short(v, 40) if v is not None else "<default>", key), fa.where(call))

    stubs = fq.calls("UnboundExternalMementoFunction")
    for c in stubs:
        site(fq, c, stub_params, {p: p for p in CARRIED}, PART_KEYS, "the external stand-in")
    refs = [c for c in fq.calls("FunctionReference") if isinstance(c.func, ast.Name)]
    for c in refs:
        site(fq, c, ref_params, {p: p for p in CARRIED[:2]}, {"cluster_name": "cluster", "version": "version"}, "the local reference")
    ck.need(stubs and refs, "from_qualified_name: no construction site of a stand-in / a local reference found")
    # the stand-in hands everything on to the reference it creates for itself
    ue = FA(ck, "external.UnboundExternalMementoFunction.__init__")
    inner = [c for c in ue.calls("FunctionReference") if isinstance(c.func, ast.Name)]
    ck.need(inner, "UnboundExternalMementoFunction.__init__ no longer builds its FunctionReference")
    passed = [p for p in list(PART_KEYS) + list(CARRIED) if p in stub_params and p in ref_params]
    for c in inner:
        site(ue, c, ref_params, {p: p for p in passed}, {}, "the stand-in's own reference")
    # ... which keeps them in its fields
    fi = FA(ck, "reference.FunctionReference.__init__")
    for (field, p) in (("self._partial_args", "partial_args"), ("self._partial_kwargs", "partial_kwargs"), ("self.parameter_names", "parameter_names")):
        ws = [(st, v) for (st, v, _aug) in attr_writes(fi, field) if fi.nodes(st)]
        bad = None
        n_ok = 0
        for (st, v) in ws:
            ok, b = _carried(fi, v, fi.nodes(st)[0], p)
            if ok:
                n_ok += 1
            elif b is not None:
                bad = (st, b)
        okf = bool(ws) and n_ok > 0 and bad is None
        ck.ob(R, fi.key(None, "kept:" + p), okf, "%s keeps the %s the reference was built with" % (field, p) if okf else
              "%s does not keep the %s handed to the constructor%s" % (field, p, " (it can hold `%s` although %s was given)" % (A.short(bad[1], 40), p) if bad else ""),
              fi.where(bad[0]) if bad else fi.where())


# ---- argument tags ----------------------------------------------------------------------------------------
def _elements(fa: FA, e, at):
    """Members of a literal collection (keys for a dict, also through .keys()); None when it is not one."""
    if isinstance(e, ast.Call) and A.call_attr(e) == "keys" and not e.args and isinstance(e.func, ast.Attribute):
        e = e.func.value
    x = _static(fa, e, at)
    if isinstance(x, (ast.Tuple, ast.List, ast.Set)):
        return list(x.elts)
    if isinstance(x, ast.Dict) and all(k is not None for k in x.keys):
        return list(x.keys)
    return None


def _table_values(fa: FA, e, at):
    """TABLE[k] / TABLE.get(k[, default]) on a literal dict -> the value expressions it may yield; else None."""
    if isinstance(e, ast.Subscript):
        x = _static(fa, e.value, at)
        if isinstance(x, ast.Dict) and x is not e.value:
            return list(x.values)
    if isinstance(e, ast.Call) and A.call_attr(e) == "get" and isinstance(e.func, ast.Attribute) and 1 <= len(e.args) <= 2:
        x = _static(fa, e.func.value, at)
        if isinstance(x, ast.Dict) and x is not e.func.value:
            return list(x.values) + [a for a in e.args[1:] if not A.is_none(a)]
    return None


def _literal_rows(fa: FA, it, at):
    """Rows of a literal table a loop walks: ((a, b), (c, d)) / [..] / {k: v}.items() / a module-level NAME
    holding one of those.  -> list of lists of exprs, or None."""
    if isinstance(it, ast.Call) and A.call_attr(it) == "items" and not it.args and isinstance(it.func, ast.Attribute):
        d = _static(fa, it.func.value, at)
        if isinstance(d, ast.Dict) and all(k is not None for k in d.keys):
            return [[k, v] for k, v in zip(d.keys, d.values)]
        return None
    it = _static(fa, it, at)
    if isinstance(it, (ast.Tuple, ast.List)):
        rows = []
        for e in it.elts:
            if not isinstance(e, (ast.Tuple, ast.List)):
                return None
            rows.append(list(e.elts))
        return rows
    return None


def _name_values(fa: FA, name: ast.Name, at):
    """[(expr, at)] the local may hold: assigned values, or its column of a literal table a loop walks."""
    if not fa.df.is_local(name.id):
        v = fa.fi.module.assigns.get(name.id)
        if v is None:
            raise AnalysisError("%s: cannot tell what `%s` holds" % (fa.qual, name.id))
        return [(v, at)]
    out = []
    ds = fa.df.reaching(at, name.id)
    if not ds:
        raise AnalysisError("%s: `%s` has no reaching definition" % (fa.qual, name.id))
    for d in ds:
        if d.kind == "assign" and d.value is not None:
            out.append((d.value, d.node))
        elif d.kind in ("for", "unpack") and isinstance(d.stmt, (ast.For, ast.AsyncFor)):
            tg = d.stmt.target
            rows = _literal_rows(fa, d.stmt.iter, d.node)
            if rows is None:
                raise AnalysisError("%s: `%s` is bound by a loop over something other than a literal table" % (fa.qual, name.id))
            if isinstance(tg, ast.Name):
                raise AnalysisError("%s: `%s` holds whole rows of a table" % (fa.qual, name.id))
            idx = [i for i, t in enumerate(tg.elts) if isinstance(t, ast.Name) and t.id == name.id]
            if len(idx) != 1 or any(len(r) != len(tg.elts) for r in rows):
                raise AnalysisError("%s: cannot match `%s` with a column of the table" % (fa.qual, name.id))
            out += [(r[idx[0]], d.node) for r in rows]
        elif d.kind == "unpack" and isinstance(d.stmt, ast.Assign) and d.value is not None:
            # `tag, value = <pair>` / `tag, value = describe(obj)`: the name's position in the pair(s) the right side may be
            tgs = [t for t in d.stmt.targets if isinstance(t, (ast.Tuple, ast.List)) and any(isinstance(x, ast.Name) and x.id == name.id for x in t.elts)]
            idx = [i for i, x in enumerate(tgs[0].elts) if isinstance(x, ast.Name) and x.id == name.id] if len(tgs) == 1 else []
            pairs = _pairs_of(fa, d.value, d.node) if len(idx) == 1 and not any(isinstance(x, ast.Starred) for x in tgs[0].elts) else None
            if not pairs or any(len(p_.elts) != len(tgs[0].elts) or any(isinstance(x, ast.Starred) for x in p_.elts) for (_f, p_, _a) in pairs):
                raise AnalysisError("%s: cannot tell what `%s` holds (%s binding)" % (fa.qual, name.id, d.kind))
            for (f2, p_, a2) in pairs:
                if f2 is not fa:
                    out.append((_Foreign(f2, p_.elts[idx[0]], a2), d.node))
                else:
                    out.append((p_.elts[idx[0]], a2))
        else:
            raise AnalysisError("%s: cannot tell what `%s` holds (%s binding)" % (fa.qual, name.id, d.kind))
    return out


class _Foreign(ast.expr):
    """An expression that lives in another function than the one being evaluated (what a helper / a table-held encoder
    returns): evaluated there."""
    _fields = ()

    def __init__(self, fa, expr, at):
        super().__init__()
        self.fa, self.expr, self.at = fa, expr, at


def _subst_names(e, env):
    import copy
    if not env:
        return e

    class T(ast.NodeTransformer):
        def visit_Name(self, n):
            if isinstance(n.ctx, ast.Load) and n.id in env:
                return ast.copy_location(copy.deepcopy(env[n.id]), n)
            return n

    return T().visit(copy.deepcopy(e))


def _callable_results(fa: FA, f, at, depth=0):
    """[(FA, returned expr, cfg node)] of calling what the expression `f` denotes: a function of this repository (by name,
    `cls.helper`), a lambda, the function a factory of this repository returns (`_encoded_as(ResultType.boolean)`: the
    nested function it defines, with the factory's parameters written out as the arguments given), or a local that
    holds one of those — assigned, or a column of a literal table a loop walks.  None when it cannot be told."""
    if depth > 6:
        return None
    if isinstance(f, ast.Lambda):
        return [(fa, f.body, at)]
    if isinstance(f, ast.Name) and fa.df.is_local(f.id) and at is not None:
        out = []
        try:
            vals = _name_values(fa, f, at)
        except AnalysisError:
            return None
        for (v, a_) in vals:
            r = _callable_results(fa, v, a_, depth + 1)
            if r is None:
                return None
            out += r
        return out
    if isinstance(f, (ast.Name, ast.Attribute)):
        probe = ast.copy_location(ast.Call(func=f, args=[], keywords=[]), f)
        hr = _helper_results(fa, probe)
        if hr is None and isinstance(f, ast.Name) and f.id in fa.fi.module.functions:
            h = FA(fa.ck, fa.fi.module.functions[f.id])
            hr = (h, [(r.value, h.nodes(r)[0]) for r in h.returns() if r.value is not None and h.nodes(r)])
        if hr is None or not hr[1]:
            return None
        return [(hr[0], v, a_) for (v, a_) in hr[1]]
    if isinstance(f, ast.Call):
        # a factory: every value it returns is a function it defines (or a lambda); its parameters stand for the arguments
        hr = _helper_results(fa, f)
        if hr is None:
            return None
        g = hr[0]
        params = [p_ for p_ in g.fi.params if p_ not in ("self", "cls")]
        given = _call_args(f, params)
        if given is None:
            return None
        env = {}
        a_ = g.fi.node.args
        pos = a_.posonlyargs + a_.args
        for p_, dflt in list(zip([x.arg for x in pos[len(pos) - len(a_.defaults):]], a_.defaults)) + \
                [(x.arg, dv) for x, dv in zip(a_.kwonlyargs, a_.kw_defaults) if dv is not None]:
            env[p_] = dflt
        env.update(given)
        out = []
        for (v, a2) in hr[1]:
            inner = None
            if isinstance(v, ast.Lambda):
                inner = [(g, v.body, a2)]
            elif isinstance(v, ast.Name) and v.id in g.fi.nested:
                h = FA(fa.ck, g.fi.nested[v.id])
                inner = [(h, r.value, h.nodes(r)[0]) for r in h.returns() if r.value is not None and h.nodes(r)]
            if not inner:
                return None
            for (h, rv, a3) in inner:
                own = set(h.fi.params) if h is not g else set()
                out.append((h, _subst_names(rv, {k: v_ for k, v_ in env.items() if k not in own and not h.df.is_local(k)} if h is not g else env), a3))
        return out
    return None


def _pairs_of(fa: FA, e, at, depth=0):
    """[(FA, tuple literal, cfg node)] the expression may evaluate to: a tuple written in place, the arms of a conditional
    expression, what a local holds, what the called function / table-held encoder returns.  None when it cannot be told."""
    if depth > 6:
        return None
    if isinstance(e, (ast.Tuple, ast.List)):
        return [(fa, e, at)]
    if isinstance(e, ast.IfExp):
        a, b = _pairs_of(fa, e.body, at, depth + 1), _pairs_of(fa, e.orelse, at, depth + 1)
        return None if a is None or b is None else a + b
    if isinstance(e, ast.Name) and fa.df.is_local(e.id) and at is not None:
        ds = fa.df.reaching(at, e.id)
        if not ds or not all(d.kind == "assign" and d.value is not None for d in ds):
            return None
        out = []
        for d in ds:
            r = _pairs_of(fa, d.value, d.node, depth + 1)
            if r is None:
                return None
            out += r
        return out
    if isinstance(e, ast.Call):
        res = _callable_results(fa, e.func, at, depth + 1)
        if res is None:
            return None
        out = []
        for (h, v, a_) in res:
            r = _pairs_of(h, v, a_, depth + 1)
            if r is None:
                return None
            out += r
        return out
    return None


def _helper_results(fa: FA, e):
    """(FA of the helper, [(returned expr, cfg node)]) when `e` is a call of ONE function of this repository that
    could not be written out at the call site (say, because it returns from inside a loop): what the call may
    evaluate to is what the helper returns.  None for anything else."""
    if not isinstance(e, ast.Call):
        return None
    try:
        cands, how = fa.ck.cg.resolve(e, fa.fi)
    except Exception:  # noqa
        return None
    if how not in ("typed", "module", "nested") or len(cands) != 1 or cands[0] is fa.fi:
        return None
    h = FA(fa.ck, cands[0])
    out = [(r.value, h.nodes(r)[0]) for r in h.returns() if r.value is not None and h.nodes(r)]
    return (h, out) if out else None


def _unrolled(fa: FA) -> FA:
    """The function with every loop over a LITERAL table written out row by row (`for typ, kind in ((bool, B), (str, S)): if
    isinstance(obj, typ): return ...` becomes the if-chain it stands for), so that a table-driven dispatch is decided like
    the ladder it replaces.  A loop is written out when its rows are known, its variables are not reassigned in the body
    and it leaves early only by `return` / `raise` — or its body is one `if <test>: ...; break`, which becomes an elif chain.
    Returns `fa` itself when there is nothing to write out."""
    import copy
    from ..loader import FuncInfo
    changed = [False]

    def own_jumps(stmts):
        out = []
        for st in stmts:
            for n in ast.walk(st) if not isinstance(st, (ast.For, ast.While, ast.AsyncFor)) else []:
                if isinstance(n, (ast.Break, ast.Continue)):
                    out.append(n)
        return out

    def rows_of(loop):
        ids = fa.nodes(loop.iter) or fa.nodes(loop)
        if not ids or loop.orelse:
            return None
        tg = loop.target
        if isinstance(tg, ast.Name):
            it = _static(fa, loop.iter, ids[0])
            if isinstance(it, (ast.Tuple, ast.List)) and it is not None and not any(isinstance(x, ast.Starred) for x in it.elts):
                return [tg.id], [[x] for x in it.elts]
            if isinstance(it, ast.Constant) and isinstance(it.value, str):
                # a loop over the characters of a literal string
                return [tg.id], [[ast.Constant(value=ch)] for ch in it.value]
            return None
        if not (isinstance(tg, (ast.Tuple, ast.List)) and all(isinstance(t, ast.Name) for t in tg.elts)):
            return None
        rows = _literal_rows(fa, loop.iter, ids[0])
        if rows is None or any(len(r) != len(tg.elts) for r in rows):
            return None
        return [t.id for t in tg.elts], rows

    def subst(stmts, names, row):
        env = dict(zip(names, row))

        class T(ast.NodeTransformer):
            def visit_Name(self, n):
                if isinstance(n.ctx, ast.Load) and n.id in env:
                    return ast.copy_location(copy.deepcopy(env[n.id]), n)
                return n

        return [T().visit(copy.deepcopy(st)) for st in stmts]

    def block(stmts):
        out = []
        for st in stmts:
            for fld in ("body", "orelse", "finalbody"):
                if isinstance(getattr(st, fld, None), list) and not isinstance(st, (ast.FunctionDef, ast.AsyncFunctionDef, ast.ClassDef, ast.Lambda)):
                    setattr(st, fld, block(getattr(st, fld)))
            for h in getattr(st, "handlers", []) or []:
                h.body = block(h.body)
            done = False
            if isinstance(st, ast.For):
                orig = origin.get(id(st))
                rr = rows_of(orig) if orig is not None else None
                if rr is not None and 0 < len(rr[1]) <= 40:
                    names, rows = rr
                    stores = {n.id for b in st.body for n in ast.walk(b) if isinstance(n, ast.Name) and isinstance(n.ctx, (ast.Store, ast.Del))}
                    jumps = own_jumps(st.body)
                    if not (stores & set(names)):
                        if not jumps:
                            for row in rows:
                                out += subst(st.body, names, row)
                            done = True
                        elif len(st.body) == 1 and isinstance(st.body[0], ast.If) and not st.body[0].orelse and len(jumps) == 1 \
                                and isinstance(jumps[0], ast.Break) and st.body[0].body[-1] is jumps[0]:
                            chain = None
                            for row in reversed(rows):
                                (rung,) = subst(st.body, names, row)
                                rung.body = rung.body[:-1] or [ast.copy_location(ast.Pass(), rung)]
                                rung.orelse = [chain] if chain is not None else []
                                chain = rung
                            out.append(chain)
                            done = True
            if done:
                changed[0] = True
            else:
                out.append(st)
        return out

    node2 = copy.deepcopy(fa.node)
    # rows are resolved on the ORIGINAL loops (they have CFG nodes): pair the copies with their originals
    origin = {}
    comp_origin = {}
    for a, b in zip(ast.walk(node2), ast.walk(fa.node)):
        if isinstance(a, ast.For):
            origin[id(a)] = b
        elif isinstance(a, (ast.DictComp, ast.ListComp, ast.GeneratorExp)):
            comp_origin[id(a)] = b
    node2.body = block(node2.body)

    def written_out(c):
        """{k: f(v) for (k, v) in <literal table>} / [f(x) for x in <literal table>] -> the literal it builds."""
        orig = comp_origin.get(id(c))
        if orig is None or len(c.generators) != 1 or c.generators[0].ifs or c.generators[0].is_async:
            return None
        st = fa.stmt_of(orig)
        ids = fa.nodes(st) if st is not None else []
        if not ids:
            return None
        g = orig.generators[0]
        tg = g.target
        if isinstance(tg, ast.Name):
            it = _static(fa, g.iter, ids[0])
            if not isinstance(it, (ast.Tuple, ast.List)) or any(isinstance(x, ast.Starred) for x in it.elts):
                return None
            names, rows = [tg.id], [[x] for x in it.elts]
        elif isinstance(tg, (ast.Tuple, ast.List)) and all(isinstance(t, ast.Name) for t in tg.elts):
            rows = _literal_rows(fa, g.iter, ids[0])
            if rows is None or any(len(r) != len(tg.elts) for r in rows):
                return None
            names = [t.id for t in tg.elts]
        else:
            return None
        if not (0 < len(rows) <= 40):
            return None

        def inst(e, row):
            env = dict(zip(names, row))

            class T(ast.NodeTransformer):
                def visit_Name(self, n):
                    if isinstance(n.ctx, ast.Load) and n.id in env:
                        return ast.copy_location(copy.deepcopy(env[n.id]), n)
                    return n

            return T().visit(copy.deepcopy(e))

        if isinstance(c, ast.DictComp):
            return ast.copy_location(ast.Dict(keys=[inst(c.key, r) for r in rows], values=[inst(c.value, r) for r in rows]), c)
        if isinstance(c, ast.GeneratorExp):
            return ast.copy_location(ast.Tuple(elts=[inst(c.elt, r) for r in rows], ctx=ast.Load()), c)
        return ast.copy_location(ast.List(elts=[inst(c.elt, r) for r in rows], ctx=ast.Load()), c)

    class Comps(ast.NodeTransformer):
        def visit_DictComp(self, c):
            self.generic_visit(c)
            lit = written_out(c)
            if lit is not None:
                changed[0] = True
                return lit
            return c

        visit_ListComp = visit_DictComp

        def visit_Assign(self, st):
            # `a, b = (f(k) for k in <literal table>)` (also through tuple(..) / list(..)): the names are bound to the members one by one
            self.generic_visit(st)
            v = st.value
            while isinstance(v, ast.Call) and isinstance(v.func, ast.Name) and v.func.id in ("tuple", "list") and len(v.args) == 1 and not v.keywords:
                v = v.args[0]
            if isinstance(v, ast.GeneratorExp):
                v = written_out(v) or v
            tg = st.targets[0] if len(st.targets) == 1 else None
            if isinstance(tg, (ast.Tuple, ast.List)) and isinstance(v, (ast.Tuple, ast.List)) and len(tg.elts) == len(v.elts) >= 1 \
                    and all(isinstance(t, ast.Name) for t in tg.elts) and not any(isinstance(x, ast.Starred) for x in v.elts):
                bound = {t.id for t in tg.elts}
                if len(bound) == len(tg.elts) and not any(isinstance(n, ast.Name) and n.id in bound for x in v.elts for n in ast.walk(x)):
                    changed[0] = True
                    return [ast.copy_location(ast.Assign(targets=[ast.Name(id=t.id, ctx=ast.Store())], value=x), st) for t, x in zip(tg.elts, v.elts)]
            return st

    node2 = Comps().visit(node2)
    if not changed[0]:
        return fa
    ast.fix_missing_locations(node2)
    fi = fa.fi
    fi2 = FuncInfo(fi.module, node2, fi.qual, fi.cls, fi.parent)
    fi2.nested = fi.nested
    return FA(fa.ck, fi2)


def _picked_from_table(fa: FA, e, at):
    """`next(<elt> for <targets> in <literal table> [if ...])`, `next((...), <default>)`, `[<elt> for ...][0]`: one element of
    a comprehension over a literal table -> the values it may be: the element expression written out for every row
    of the table (whatever the filter says), plus the default.  None for anything else."""
    import copy
    comp, extra = None, []
    if isinstance(e, ast.Call) and isinstance(e.func, ast.Name) and e.func.id == "next" and 1 <= len(e.args) <= 2 and not e.keywords:
        comp, extra = e.args[0], list(e.args[1:])
        if isinstance(comp, ast.Call) and isinstance(comp.func, ast.Name) and comp.func.id == "iter" and len(comp.args) == 1:
            comp = comp.args[0]
    elif isinstance(e, ast.Subscript) and isinstance(e.slice, ast.Constant) and isinstance(e.slice.value, int):
        comp = e.value
    if isinstance(comp, ast.Name) and fa.df.is_local(comp.id) and at is not None:
        ds = fa.df.reaching(at, comp.id)
        if len(ds) == 1 and ds[0].kind == "assign" and isinstance(ds[0].value, (ast.GeneratorExp, ast.ListComp)):
            comp, at = ds[0].value, ds[0].node
    if not isinstance(comp, (ast.GeneratorExp, ast.ListComp)) or len(comp.generators) != 1:
        return None
    g = comp.generators[0]
    tg = g.target
    if isinstance(tg, ast.Name):
        it = _static(fa, g.iter, at)
        if not isinstance(it, (ast.Tuple, ast.List)) or any(isinstance(x, ast.Starred) for x in it.elts):
            return None
        names, rows = [tg.id], [[x] for x in it.elts]
    elif isinstance(tg, (ast.Tuple, ast.List)) and all(isinstance(t, ast.Name) for t in tg.elts):
        rows = _literal_rows(fa, g.iter, at)
        if rows is None or any(len(r) != len(tg.elts) for r in rows):
            return None
        names = [t.id for t in tg.elts]
    else:
        return None
    out = []
    for row in rows:
        env = dict(zip(names, row))

        class T(ast.NodeTransformer):
            def visit_Name(self, n):
                if isinstance(n.ctx, ast.Load) and n.id in env:
                    return ast.copy_location(copy.deepcopy(env[n.id]), n)
                return n

        out.append(T().visit(copy.deepcopy(comp.elt)))
    return out + extra


def _members(fa: FA, e, at, depth=0):
    """ResultType members the expression may denote."""
    if depth > 8:
        raise AnalysisError("%s: tag expression too deep" % fa.qual)
    if isinstance(e, _Foreign):
        return _members(e.fa, e.expr, e.at, depth + 1)
    picked = _picked_from_table(fa, e, at)
    if picked is not None:
        out = set()
        for v in picked:
            out |= _members(fa, v, at, depth + 1)
        return out
    hr = _helper_results(fa, e)
    if hr is not None:
        out = set()
        for (v, a_) in hr[1]:
            out |= _members(hr[0], v, a_, depth + 1)
        return out
    if isinstance(e, ast.Attribute) and isinstance(e.value, ast.Name) and e.value.id == "ResultType":
        return {e.attr}
    if A.is_none(e):
        return set()  # a `found = None` initial value: None has no .name, so it never becomes a tag
    if isinstance(e, ast.Subscript) and isinstance(e.value, ast.Name) and e.value.id == "ResultType" and A.const_str(e.slice):
        return {A.const_str(e.slice)}
    if isinstance(e, ast.Subscript) and isinstance(e.value, ast.Name) and e.value.id == "ResultType" and not isinstance(e.slice, ast.Slice):
        return _tags(fa, e.slice, at, depth + 1)  # the member whose name is the computed string
    if isinstance(e, ast.Call) and isinstance(e.func, ast.Name) and e.func.id == "getattr" and len(e.args) == 2 and A.norm(e.args[0]) == "ResultType":
        return _tags(fa, e.args[1], at, depth + 1)
    if isinstance(e, ast.IfExp):
        return _members(fa, e.body, at, depth + 1) | _members(fa, e.orelse, at, depth + 1)
    if isinstance(e, ast.Name):
        out = set()
        for (v, a_) in _name_values(fa, e, at):
            out |= _members(fa, v, a_, depth + 1)
        return out
    tv = _table_values(fa, e, at)
    if tv is not None:
        out = set()
        for v in tv:
            out |= _members(fa, v, None, depth + 1)
        return out
    raise AnalysisError("%s: cannot tell which ResultType member `%s` is" % (fa.qual, A.short(e, 50)))


def _tags(fa: FA, e, at, depth=0):
    """The wire tags (strings) the expression may evaluate to."""
    if depth > 8:
        raise AnalysisError("%s: tag expression too deep" % fa.qual)
    if isinstance(e, _Foreign):
        return _tags(e.fa, e.expr, e.at, depth + 1)
    if A.const_str(e) is not None:
        return {A.const_str(e)}
    if A.is_none(e):
        return set()  # a `tag = None` initial value is not a tag
    if isinstance(e, ast.Attribute) and e.attr == "name":
        return _members(fa, e.value, at, depth + 1)
    if isinstance(e, ast.IfExp):
        return _tags(fa, e.body, at, depth + 1) | _tags(fa, e.orelse, at, depth + 1)
    if isinstance(e, ast.Name):
        out = set()
        for (v, a_) in _name_values(fa, e, at):
            out |= _tags(fa, v, a_, depth + 1)
        return out
    tv = _table_values(fa, e, at)
    if tv is not None:
        out = set()
        for v in tv:
            out |= _tags(fa, v, None, depth + 1)
        return out
    if isinstance(e, ast.Call) and A.call_attr(e) == "str" and len(e.args) == 1:
        return _tags(fa, e.args[0], at, depth + 1)
    picked = _picked_from_table(fa, e, at)
    if picked is not None:
        out = set()
        for v in picked:
            out |= _tags(fa, v, at, depth + 1)
        return out
    hr = _helper_results(fa, e)
    if hr is not None:
        out = set()
        for (v, a_) in hr[1]:
            out |= _tags(hr[0], v, a_, depth + 1)
        return out
    # a name glued together from pieces ('array_' + suffix, f'array_{suffix}'): every combination of what the pieces may be
    parts = A.str_parts(e) if isinstance(e, (ast.BinOp, ast.JoinedStr, ast.Call)) else None
    if parts and any(k == "expr" for k, _v in parts) and not (len(parts) == 1 and parts[0][1] is e):
        acc = {""}
        for (k, v) in parts:
            vs = {v} if k == "lit" else _tags(fa, v, at, depth + 1)
            acc = {a + b for a in acc for b in vs}
            if len(acc) > 400:
                raise AnalysisError("%s: too many combinations in the tag expression `%s`" % (fa.qual, A.short(e, 50)))
        return acc
    raise AnalysisError("%s: cannot tell which argument tag `%s` is" % (fa.qual, A.short(e, 50)))


def _decoded_tags(ck, da: FA, units):
    """The argument tags the decoder serves: what the `type` field of the state is compared with (==, in <literal
    collection>) or looked up in (<literal table>[tag] / .get(tag)) — in decode_arg, or in a helper that is handed the
    tag (the parameter that receives it stands for the field there)."""
    dap = _first_param(da, "state")
    tag_params = {id(da.fi): set()}  # unit -> parameters that hold the tag

    def is_type_field(fu: FA, e, at):
        x = fu.expand(e, at)
        if fu is da and _state_key_of(da, x, None, dap) == "type":
            return True
        if isinstance(x, ast.Name) and x.id in tag_params.get(id(fu.fi), ()) and all(d.kind == "param" for d in fu.df.reaching(at, x.id)):
            return True
        # (a helper handed the whole state reads the field itself)
        ps = [p for p in fu.fi.params if p not in ("cls", "self")]
        return fu is not da and bool(ps) and id(fu.fi) in state_params and _state_key_of(fu, x, None, state_params[id(fu.fi)]) == "type"

    state_params = {}
    by_fi = {id(u.fi): u for u in units}
    # which helper parameters receive the tag (or the state): follow the calls between the units, to a fixpoint
    changed = True
    rounds = 0
    while changed and rounds < 6:
        changed = False
        rounds += 1
        for fu in units:
            if fu is not da and id(fu.fi) not in tag_params and id(fu.fi) not in state_params:
                continue
            for c in fu.calls():
                if not fu.nodes(c):
                    continue
                try:
                    cands, how = ck.cg.resolve(c, fu.fi)
                except Exception:  # noqa
                    continue
                if how not in ("typed", "module", "nested") or len(cands) != 1 or id(cands[0]) not in by_fi or cands[0] is da.fi:
                    continue
                h = cands[0]
                given = _call_args(c, [p for p in h.params if p not in ("cls", "self")])
                if given is None:
                    continue
                at = fu.nodes(c)[0]
                for p_, v_ in given.items():
                    if is_type_field(fu, v_, at) and p_ not in tag_params.setdefault(id(h), set()):
                        tag_params[id(h)].add(p_)
                        changed = True
                    xv = fu.expand(v_, at)
                    if isinstance(xv, ast.Name) and ((fu is da and xv.id == dap) or state_params.get(id(fu.fi)) == xv.id) and id(h) not in state_params:
                        state_params[id(h)] = p_
                        changed = True
    tags_in = set()
    for fu in units:
        for n in A.walk_body(fu.node):
            if isinstance(n, ast.Compare) and len(n.ops) == 1 and fu.nodes(n):
                at = fu.nodes(n)[0]
                l, r, op = n.left, n.comparators[0], n.ops[0]
                if isinstance(op, (ast.Eq, ast.NotEq)):
                    if is_type_field(fu, l, at):
                        tags_in |= _tags(fu, r, at)
                    elif is_type_field(fu, r, at):
                        tags_in |= _tags(fu, l, at)
                elif isinstance(op, (ast.In, ast.NotIn)) and is_type_field(fu, l, at):
                    elts = _elements(fu, r, at)
                    if elts is None:
                        raise AnalysisError("%s: `%s` tests the argument tag against something other than a literal collection" % (fu.qual, A.short(n, 60)))
                    for e in elts:
                        tags_in |= _tags(fu, e, None if e not in list(ast.walk(r)) else at)
            # TABLE[<tag>] / TABLE.get(<tag>): the tags the literal table is keyed by are the ones this lookup serves
            look = None
            if isinstance(n, ast.Subscript) and isinstance(n.ctx, ast.Load) and not isinstance(n.slice, ast.Slice) and fu.nodes(n) and is_type_field(fu, n.slice, fu.nodes(n)[0]):
                look = n.value
            elif isinstance(n, ast.Call) and A.call_attr(n) == "get" and isinstance(n.func, ast.Attribute) and 1 <= len(n.args) <= 2 and fu.nodes(n) \
                    and is_type_field(fu, n.args[0], fu.nodes(n)[0]):
                look = n.func.value
            if look is not None:
                tbl = _static(fu, look, fu.nodes(n)[0])
                if isinstance(tbl, ast.Dict) and tbl is not look and all(k is not None for k in tbl.keys):
                    for e in tbl.keys:
                        tags_in |= _tags(fu, e, None if e not in list(ast.walk(look)) else fu.nodes(n)[0])
    return tags_in


_CLASS_TAGS = {"bool": "boolean", "str": "string", "bytes": "binary", "int": "number", "float": "number", "list": "list_result",
               "tuple": "list_result", "dict": "dictionary", "datetime.datetime": "timestamp", "datetime.date": "date"}


def check_class_tags(ck, R, ea: FA, pairs):
    """The typed {type, value} encoding is read by other language implementations: the tag says which class the value has.
    The set of emitted tags can be complete (and agree with the decoder) while two classes carry each other's tag -- an
    int written as 'boolean', a datetime as 'date' -- which round-trips here and is misread everywhere else.  Decided on
    what the dispatch answers for a value of each class (abstract run of the function under the class hierarchy): the tag
    of the document returned for class K is K's tag of the frozen cross-language table.  Only definite deviations are
    reported; outcomes whose tag cannot be read off (built by a helper the run does not enter) are left to the tag-set rule."""
    D = dispatch_model(ck, ea, pairs)
    if D is None:
        return
    named = set(D.named())
    for k, want in sorted(_CLASS_TAGS.items()):
        if k not in named:
            continue
        got = set()
        for (how, text) in D.outcome((k, "exact", "actual")):
            if how != "return":
                continue
            try:
                tree = ast.parse(text, mode="eval").body
            except SyntaxError:
                continue
            items = _dict_items(tree)
            for key, v in items or []:
                if key != "type":
                    continue
                if isinstance(v, ast.Attribute) and v.attr == "name" and isinstance(v.value, ast.Attribute) and A.norm(v.value.value) == "ResultType":
                    got.add(v.value.attr)
                elif A.const_str(v) is not None:
                    got.add(A.const_str(v))
        if not got:
            continue
        ok = got == {want}
        ck.ob(R, ea.key(None, "class-tag:" + k), ok, "a %s argument is tagged '%s'" % (k, want) if ok else
              "a %s argument is written with the tag %s; the cross-language encoding says '%s': the document still decodes here, but the "
              "tag no longer tells other implementations what the value is" % (k, sorted(got), want), ea.where(D.where_of(k)))


def check_plain_json(ck, R):
    """"The emitted document is plain JSON": `json.dumps` writes the bare tokens NaN / Infinity / -Infinity for non-finite floats
    unless told `allow_nan=False`; they are not JSON (RFC 8259) and strict parsers, such as those of other language
    implementations, reject the file.  Either the dump of the memento document forbids them, or the argument encoder never lets
    a non-finite float through as a bare number (a finiteness test on the path of its number case)."""
    ck.rule(R, "the memento document never contains the non-JSON tokens NaN / Infinity", 1)
    pm = FA(ck, "storage_base.DataSourceMetadataSource.put_memento")
    dumps = [c for c in pm.calls() if A.call_attr(c) in ("dumps", "dump")]
    ck.need(dumps, "put_memento: no json dump found")
    strict = all(A.norm(A.kwarg(c, "allow_nan")) == "False" for c in dumps)
    ea = FA(ck, MC + ".encode_arg")
    guarded = False
    for r in ea.returns():
        items = _dict_items(r.value) if r.value is not None else None
        if not items:
            continue
        tags = set()
        for (k, v) in items:
            if k == "type" and ea.nodes(r):
                tags |= _tags(ea, v, ea.nodes(r)[0])
        if "number" not in tags:
            continue
        conds = ea.conditions(r) or []
        # on every way to the bare-number case a finiteness test (or a non-float type test alone) has been passed
        if conds and all(any(("isfinite(" in t and pol) or (("isnan(" in t or "isinf(" in t) and not pol) for (t, pol) in conj) for conj in conds):
            guarded = True
    ok = strict or guarded
    ck.ob(R, pm.key(None, "plain-json"), ok, "non-finite floats cannot reach the document as bare tokens" if ok else
          "encode_arg passes every float through as a bare number and put_memento dumps with the default allow_nan=True: a call such as "
          "f(float('nan')) or f([inf]) is recorded as a file containing NaN / Infinity, which is not JSON - strict parsers and the readers of "
          "other language implementations reject it", pm.where(dumps[0]))


def check_dict_keys_survive(ck, R):
    """A dictionary argument is written as a JSON object, whose member names are strings: a key that is not a string comes back as
    its text (`{1: 'a'}` is read as `{'1': 'a'}`), so the decoded arguments and the hash recomputed from them differ from the
    originals.  Either the argument encoder types the keys, or non-string keys are refused where arguments are validated."""
    ck.rule(R, "dictionary arguments survive the codec: keys are typed on the wire or restricted to strings at validation", 1)
    ea = FA(ck, MC + ".encode_arg")
    typed = False
    for n in A.walk_body(ea.node):
        if isinstance(n, ast.DictComp) and ea.nodes(ea.stmt_of(n) or n):
            # {k: encode(v) ...}: is the key itself passed through an encoder / a str() check?
            if any(isinstance(x, ast.Call) for x in ast.walk(n.key)):
                typed = True
    va = ck.repo.try_func("reference.validate_args")
    checked = False
    if va is not None:
        unit = [va] + list(va.nested.values())
        for m_ in ck.repo.module("reference").all_funcs():
            if m_.parent is None and m_.cls is None and any(isinstance(c, ast.Call) and isinstance(c.func, ast.Name) and c.func.id == m_.name for f_ in unit for c in ast.walk(f_.node)):
                unit.append(m_)
        for f_ in unit:
            for x in ast.walk(f_.node):
                it = A.isinstance_types(x) if isinstance(x, ast.Call) else None
                # a type test on the KEY of a dictionary entry (the loop / comprehension variable bound to the key of .items() or
                # to the iteration of the dict itself / .keys())
                if it and set(it[1]) == {"str"}:
                    subj = it[0]
                    for y in ast.walk(f_.node):
                        gens = y.generators if isinstance(y, (ast.ListComp, ast.SetComp, ast.GeneratorExp, ast.DictComp)) else ([y] if isinstance(y, ast.For) else [])
                        for g in gens:
                            tg, itr = g.target, g.iter
                            keyname = tg.elts[0].id if isinstance(tg, ast.Tuple) and tg.elts and isinstance(tg.elts[0], ast.Name) and isinstance(itr, ast.Call) and A.call_attr(itr) == "items" else \
                                (tg.id if isinstance(tg, ast.Name) and (not isinstance(itr, ast.Call) or A.call_attr(itr) == "keys") else None)
                            if keyname == subj:
                                checked = True
    ok = typed or checked
    ck.ob(R, ea.key(None, "dict-keys-survive"), ok, "dictionary keys are typed on the wire or restricted to strings" if ok else
          "encode_arg writes a dictionary argument as a JSON object with the keys as they are and validate_args does not look at keys: a call such "
          "as f({1: 'a'}) is memoized under a hash computed from the integer key, but its stored memento decodes to {'1': 'a'}, whose "
          "argument hash differs - the decoded memento is not the one that was stored", ea.where())


# ---- normalisation is the codec round trip -----------------------------------------------------------------
AH = "reference.ArgumentHasher"
# the class facts of the standard library the argument codec relies on (subclass -> base)
_BASE_OF = {"bool": "int", "datetime.datetime": "datetime.date", "datetime": "date"}


def _bases(tok):
    out = [tok]
    while out[-1] in _BASE_OF:
        out.append(_BASE_OF[out[-1]])
    return out


class _Adm:
    """What a condition says about the object a parameter holds: `classes` - the classes it is an instance of (None:
    not bounded), `excluded` - classes it is not an instance of, `extras` - the other facts known about it
    (text with the parameter written `_P_`, polarity)."""

    def __init__(self, classes=None, excluded=(), extras=()):
        self.classes = None if classes is None else frozenset(classes)
        self.excluded = frozenset(excluded)
        self.extras = frozenset(extras)

    def both(self, o):
        if self.classes is not None and o.classes is not None:
            c = self.classes & o.classes
            if not c:
                c = self.classes if len(self.classes) <= len(o.classes) else o.classes
        else:
            c = self.classes if self.classes is not None else o.classes
        return _Adm(c, self.excluded | o.excluded, self.extras | o.extras)

    def either(self, o):
        c = (self.classes | o.classes) if self.classes is not None and o.classes is not None else None
        return _Adm(c, self.excluded & o.excluded, self.extras & o.extras)


def _class_tokens(fa: FA, t):
    """The classes named by the second argument of isinstance / the operand of a comparison with type(x)."""
    t = _static(fa, t, None)
    if isinstance(t, (ast.Tuple, ast.List, ast.Set)):
        out = set()
        for e in t.elts:
            s = _class_tokens(fa, e)
            if s is None:
                return None
            out |= s
        return out
    if isinstance(t, ast.Call) and isinstance(t.func, ast.Name) and t.func.id == "type" and len(t.args) == 1 and A.is_none(t.args[0]):
        return {"None"}
    d = A.dotted(t)
    return {d} if d else None


def _admitted(fa: FA, e, pol: bool, param: str) -> _Adm:
    """The class facts about `param` that hold when the test `e` comes out `pol`."""
    def is_p(x):
        return isinstance(x, ast.Name) and x.id == param

    def type_of_p(x):
        return (isinstance(x, ast.Call) and isinstance(x.func, ast.Name) and x.func.id == "type" and len(x.args) == 1 and is_p(x.args[0])) or \
            (isinstance(x, ast.Attribute) and x.attr == "__class__" and is_p(x.value))

    if isinstance(e, ast.UnaryOp) and isinstance(e.op, ast.Not):
        return _admitted(fa, e.operand, not pol, param)
    if isinstance(e, ast.BoolOp):
        parts = [_admitted(fa, v, pol, param) for v in e.values]
        conj = isinstance(e.op, ast.And) == pol
        acc = parts[0]
        for p_ in parts[1:]:
            acc = acc.both(p_) if conj else acc.either(p_)
        return acc
    if isinstance(e, ast.Call) and isinstance(e.func, ast.Name) and e.func.id == "isinstance" and len(e.args) == 2 and is_p(e.args[0]):
        ks = _class_tokens(fa, e.args[1])
        if ks is not None:
            return _Adm(ks) if pol else _Adm(None, ks)
    if isinstance(e, ast.Compare) and len(e.ops) == 1:
        l, op, r = e.left, e.ops[0], e.comparators[0]
        if isinstance(op, (ast.IsNot, ast.NotEq, ast.NotIn)):
            op = {ast.IsNot: ast.Is, ast.NotEq: ast.Eq, ast.NotIn: ast.In}[type(op)]()
            pol = not pol
        if isinstance(op, (ast.Is, ast.Eq)) and ((is_p(l) and A.is_none(r)) or (is_p(r) and A.is_none(l))) and isinstance(op, ast.Is):
            return _Adm({"None"}) if pol else _Adm(None, {"None"})
        if isinstance(op, (ast.Is, ast.Eq, ast.In)) and (type_of_p(l) or (type_of_p(r) and not isinstance(op, ast.In))):
            ks = _class_tokens(fa, r if type_of_p(l) else l)
            if ks is not None:
                # the exact class: an instance of it; the negation says nothing about instances of subclasses
                return _Adm(ks) if pol else _Adm()
    if not any(is_p(x) for x in ast.walk(e)):
        return _Adm()
    import copy

    class T(ast.NodeTransformer):
        def visit_Name(self, n):
            return ast.copy_location(ast.Name(id="_P_", ctx=n.ctx), n) if n.id == param else n

    txt = A.norm(T().visit(copy.deepcopy(e)))
    if isinstance(e, ast.Compare) and len(e.ops) == 1 and isinstance(e.ops[0], (ast.IsNot, ast.NotEq, ast.NotIn)):
        e2 = copy.deepcopy(e)
        e2.ops = [{ast.IsNot: ast.Is, ast.NotEq: ast.Eq, ast.NotIn: ast.In}[type(e.ops[0])]()]
        return _Adm(None, (), {(A.norm(T().visit(e2)), not pol)})
    return _Adm(None, (), {(txt, pol)})


def _admitted_by(fa: FA, conds, param: str) -> _Adm:
    """The class facts that hold on every path class of a DNF of FA.conditions literals."""
    acc = None
    for conj in conds:
        a = _Adm()
        for (txt, pol) in sorted(conj):
            try:
                e = ast.parse(txt, mode="eval").body
            except SyntaxError:
                continue
            a = a.both(_admitted(fa, e, pol, param))
        acc = a if acc is None else acc.either(a)
    return acc if acc is not None else _Adm()


def _strip_cast(e):
    while isinstance(e, ast.Call) and isinstance(e.func, ast.Name) and e.func.id == "cast" and len(e.args) == 2 and not e.keywords:
        e = e.args[1]
    return e


def _applied(e, fnames, inner):
    """Is `e` the call f(inner-ish) for f one of `fnames`: -> the argument, else None."""
    e = _strip_cast(e)
    if isinstance(e, ast.Call) and A.call_attr(e) in fnames and len(e.args) == 1 and not e.keywords and not isinstance(e.args[0], ast.Starred):
        return _strip_cast(e.args[0])
    return None


def _member_map(e, param, is_mapped):
    """'list' for [g(x) for x in P], 'dict' for {k: g(v) for (k, v) in P.items()} (one generator, no filter, keys kept) where
    `is_mapped(expr, member name)` recognises g(member); else None."""
    if isinstance(e, (ast.ListComp, ast.DictComp)) and len(e.generators) == 1:
        g = e.generators[0]
        if g.ifs or g.is_async:
            return None
        if isinstance(e, ast.ListComp) and isinstance(g.iter, ast.Name) and g.iter.id == param and isinstance(g.target, ast.Name) and is_mapped(e.elt, g.target.id):
            return "list"
        if isinstance(e, ast.DictComp) and isinstance(g.iter, ast.Call) and A.call_attr(g.iter) == "items" and not g.iter.args and \
                isinstance(A.call_recv(g.iter), ast.Name) and A.call_recv(g.iter).id == param and isinstance(g.target, ast.Tuple) and len(g.target.elts) == 2 and \
                all(isinstance(x, ast.Name) for x in g.target.elts) and isinstance(e.key, ast.Name) and e.key.id == g.target.elts[0].id and \
                g.target.elts[0].id != g.target.elts[1].id and is_mapped(e.value, g.target.elts[1].id):
            return "dict"
    return None


def check_normalize_is_round_trip(ck, R):
    """"The argument hash recomputed from the decoded arguments equals the original one": a reference keeps - and hashes, and
    writes - the NORMALISED arguments, so what normalisation returns has to be exactly what reading the written form yields.
    On every path class `normalize(x)` is therefore decode(encode(x)), or provably equal to it:
      * x itself, where the path condition confines x to the classes that BOTH the encoder and the decoder hand back
        unchanged (derived from their own pass-through cases - not a fixed list);
      * a list / dict rebuilt with every member normalised, where encoder and decoder map their own function over the
        members of that same class under the same side conditions.
    A class that the encoder rewrites (dates, timestamps, function references ...) kept as it is would be hashed and stored
    in its own spelling (a pd.Timestamp with nanoseconds, a zone object of another library), which is not what the decoder
    produces from the stored document."""
    ck.rule(R, "ArgumentHasher.normalize returns decode(encode(x)) on every path (x itself only for the classes both coders pass through)", 2)
    nm, enc, dec = FA(ck, AH + ".normalize"), FA(ck, AH + "._encode"), FA(ck, AH + "._decode")
    names = {"n": nm.fi.name, "e": enc.fi.name, "d": dec.fi.name}

    def cases_of(fa):
        prm = _first_param(fa, "obj")
        rc = return_cases(fa)
        ck.need(rc is not None, "%s: too many paths to enumerate what it returns" % fa.qual)
        out = []
        for (v, at, conds) in rc:
            val = _strip_cast(fa.expand(v, at)) if v is not None else None
            out.append((val, at, _admitted_by(fa, conds, prm), prm))
        return out

    def passes_through(fa):
        """(classes handed back unchanged, classes carved out of them by an earlier case)"""
        classes, holes = set(), set()
        for (val, _at, adm, prm) in cases_of(fa):
            if isinstance(val, ast.Name) and val.id == prm and adm.classes is not None:
                classes |= adm.classes
                holes |= adm.excluded
        return classes, {h for h in holes if any(b in classes for b in _bases(h)[1:])}

    e_same, e_holes = passes_through(enc)
    d_same, d_holes = passes_through(dec)
    same = e_same & d_same
    holes = e_holes | d_holes

    def kept_ok(adm):
        if adm.classes is None:
            return False, "any object"
        bad = sorted(c for c in adm.classes if not any(b in same for b in _bases(c)))
        if bad:
            return False, "instances of " + ", ".join(bad)
        carved = sorted(h for h in holes if h not in adm.excluded and any(b in adm.classes for b in _bases(h)))
        if carved:
            return False, "instances of " + ", ".join(carved)
        return True, ""

    def rt_call(e, member):
        """normalize(member) / decode(encode(member))"""
        a = _applied(e, {names["n"]}, None)
        if isinstance(a, ast.Name) and a.id == member:
            return True
        a = _applied(e, {names["d"]}, None)
        a = _applied(a, {names["e"]}, None) if a is not None else None
        return isinstance(a, ast.Name) and a.id == member

    def coder_cases(fa, fname):
        out = []
        for (val, _at, adm, prm) in cases_of(fa):
            kind = _member_map(val, prm, lambda x, m: isinstance(_applied(x, {fname}, None), ast.Name) and _applied(x, {fname}, None).id == m) if val is not None else None
            if kind is not None:
                out.append((kind, adm))
        return out

    e_maps, d_maps = coder_cases(enc, names["e"]), coder_cases(dec, names["d"])
    n_cases = cases_of(nm)
    ck.need(n_cases, "normalize: no return found")
    bad_kept, bad_other = [], []
    n_rt = 0
    for (val, at, adm, prm) in n_cases:
        st = nm.cfg.node(at).ast
        if val is not None and rt_call(val, prm):
            n_rt += 1
            continue
        if (isinstance(val, ast.Name) and val.id == prm) or (A.is_none(val) if val is not None else False) and adm.classes == frozenset({"None"}):
            ok, who = kept_ok(adm)
            if not ok:
                bad_kept.append((st, who))
            continue
        kind = _member_map(val, prm, rt_call) if val is not None else None
        if kind is not None and adm.classes == frozenset({kind}):
            def matches(ms):
                return any(k == kind and a.classes == adm.classes and a.extras == adm.extras and
                           not any(kind in _bases(h)[1:] and h not in adm.excluded for h in a.excluded) for (k, a) in ms)
            if matches(e_maps) and matches(d_maps):
                continue
        bad_other.append((st, A.short(val, 60) if val is not None else "None"))
    okk = not bad_kept
    ck.ob(R, nm.key(None, "kept-as-is-only-pass-through-classes"), okk,
          "normalize hands x back unchanged only for classes both coders pass through (%s)" % ", ".join(sorted(same)) if okk else
          "normalize returns its argument as it is for %s, but the encoder writes those in another form and the decoder builds a new object from it "
          "(both pass through only %s): the reference keeps, hashes and writes a value that decoding the stored memento does not produce - e.g. a "
          "pd.Timestamp with nanoseconds or a subclass instance stays what it was - so the decoded arguments and the hash recomputed from them "
          "differ from the stored ones" % ("; ".join(sorted({w for (_s, w) in bad_kept})), ", ".join(sorted(same)) or "nothing"),
          nm.where(bad_kept[0][0]) if bad_kept else nm.where())
    oko = not bad_other and (n_rt >= 1 or not bad_kept)
    ck.ob(R, nm.key(None, "every-return-is-the-round-trip"), oko and n_rt >= 1,
          "every other return of normalize is decode(encode(x)) (or a list / dict of normalised members where both coders map members)" if oko and n_rt >= 1 else
          ("normalize returns `%s`, which is not decode(encode(x)) nor shown equal to it: arguments are kept in a form that reading the stored "
           "document does not give back, so decoded arguments / recomputed hash differ from the originals" % bad_other[0][1]) if bad_other else
          "normalize no longer takes any value through decode(encode(x))",
          nm.where(bad_other[0][0]) if bad_other else nm.where())


# ---- a value is not looked up by equality -------------------------------------------------------------------
# lookups of a mapping / set by key: `==` and hash() decide which entry answers
_KEYED_READS = {"get", "setdefault", "pop", "__getitem__", "__contains__"}
# classes whose instances compare equal only when they are written the same way
_TEXTUAL = {"str", "None", "bytes"}


_SUBCLASSES = {"int": ("bool",), "date": ("datetime", "datetime.datetime", "Timestamp"), "datetime": ("Timestamp",)}


def _exact_class_facts(fa: FA, e, pol: bool, param: str):
    """`type(P) is K` / `type(P) in (K, ...)` holding: P is an instance of no proper subclass of K -> the subclasses ruled out."""
    out = set()
    if isinstance(e, ast.UnaryOp) and isinstance(e.op, ast.Not):
        return _exact_class_facts(fa, e.operand, not pol, param)
    if isinstance(e, ast.BoolOp) and isinstance(e.op, ast.And) and pol:
        for v in e.values:
            out |= _exact_class_facts(fa, v, True, param)
        return out
    if not (pol and isinstance(e, ast.Compare) and len(e.ops) == 1 and isinstance(e.ops[0], (ast.Is, ast.Eq, ast.In))):
        return out

    def type_of_p(x):
        return (isinstance(x, ast.Call) and isinstance(x.func, ast.Name) and x.func.id == "type" and len(x.args) == 1 and isinstance(x.args[0], ast.Name) and x.args[0].id == param) or \
            (isinstance(x, ast.Attribute) and x.attr == "__class__" and isinstance(x.value, ast.Name) and x.value.id == param)

    l, r = e.left, e.comparators[0]
    other = r if type_of_p(l) else l if (type_of_p(r) and not isinstance(e.ops[0], ast.In)) else None
    if other is None:
        return out
    ks = _class_tokens(fa, other)
    for k in ks or ():
        out |= {sub for sub in _SUBCLASSES.get(k.split(".")[-1], ()) if sub not in ks}
    return out


_NUMERIC = {"int", "float", "bool", "complex", "Decimal", "Fraction", "Number", "Real", "Rational", "Integral"}
_INEXACT = {"float", "complex", "Number", "Real"}


def _conflated(adm: _Adm, typed: bool = False):
    """Which differently written values of the admitted classes `==` identifies (None: none that is known - the numeric
    tower and the date classes are what the argument domain holds; a class this table does not know is taken to compare
    by identity).  `typed`: the key holds the class of the value next to the value, so only values of one class meet."""
    if adm.classes is None:
        if typed:
            return "nothing confines the class of the key there, and 0.0 == -0.0 (the class in the key keeps 7 and 7.0 apart, not the two zeros)"
        return "nothing confines the class of the key there, and 1 == 1.0 == True, 0.0 == -0.0, a datetime == its Timestamp"
    ks = {k.split(".")[-1] for k in adm.classes}
    ex = {k.split(".")[-1] for k in adm.excluded}
    num = ks & _NUMERIC
    if num & _INEXACT:
        return "0.0 == -0.0" + (" (the class in the key keeps 7 and 7.0 apart, not the two zeros)" if typed else ", 7 == 7.0" if len(num) > 1 else "")
    if typed:
        return None
    if len(num) > 1 or (num and num != {"bool"} and "bool" not in ex):
        return "True == 1" + (" (an int key admits bool)" if num == {"int"} else "") + (", 7 == Decimal(7)" if num - {"int", "bool"} else "")
    if ("datetime" in ks or ("date" in ks and "datetime" not in ex)) and "Timestamp" not in ex:
        return "a datetime == the Timestamp of the same instant (recorded as another type), and two zoned datetimes for one instant are equal whatever their zones"
    return None


def _local_guards(st, node):
    """The tests inside statement `st` that have come out a known way when `node` is evaluated: [(test, polarity)]
    (branch of a conditional expression, later operand of and / or, element of a filtered comprehension)."""
    pm = A.parent_map(st)
    out = []
    ch = node
    while ch is not st and ch in pm:
        p = pm[ch]
        if isinstance(p, ast.IfExp):
            if ch is p.body:
                out.append((p.test, True))
            elif ch is p.orelse:
                out.append((p.test, False))
        elif isinstance(p, ast.BoolOp):
            i = next((k for k, v in enumerate(p.values) if v is ch), 0)
            out += [(v, isinstance(p.op, ast.And)) for v in p.values[:i]]
        elif isinstance(p, (ast.ListComp, ast.SetComp, ast.GeneratorExp, ast.DictComp)) and not isinstance(ch, ast.comprehension):
            for g in p.generators:
                out += [(c, True) for c in g.ifs]
        ch = p
    return out


def _binders(st, node):
    """{name: iterable} for the comprehension variables of `st` in whose scope `node` lies."""
    pm = A.parent_map(st)
    out = {}
    ch = node
    while ch is not st and ch in pm:
        p = pm[ch]
        if isinstance(p, (ast.ListComp, ast.SetComp, ast.GeneratorExp, ast.DictComp)):
            for g in p.generators:
                for x in ast.walk(g.target):
                    if isinstance(x, ast.Name):
                        out.setdefault(x.id, g.iter)
        ch = p
    return out


def _value_atoms(fa: FA, st, e, at, vals):
    """The value-carrying parameters `e` (inside statement `st`) derives from."""
    try:
        d = fa.df.deps(e, at, None, _binders(st, e) or None)
    except Exception:
        return set()
    return {x[6:] for x in d if x.startswith("param:") and x[6:] in vals}


def _is_member(fa: FA, st, node, name, at, vals, kind_of) -> bool:
    """Is `name` (at `node` in statement `st`) a part of an argument value: the variable of a loop / comprehension over a
    value-carrying parameter, its .values() or the value half of its .items().  The keys of a parameter that is a mapping
    from parameter names to values (kwargs, context arguments) are names, not values; the keys of a parameter that holds one
    value and has been found to be a dict by a test on the path are part of that value.  `kind_of(parameter)` says which:
    'value' (class tested on the path), 'sequence' / 'mapping' (by annotation), None."""
    def members_of(it, tgt):
        it = _strip_cast(it)
        while isinstance(it, ast.Call) and isinstance(it.func, ast.Name) and it.func.id in ("list", "tuple", "sorted", "reversed", "iter") and it.args:
            it = _strip_cast(it.args[0])
        if isinstance(it, ast.Call) and isinstance(it.func, ast.Name) and it.func.id == "enumerate" and it.args and isinstance(tgt, ast.Tuple) and len(tgt.elts) == 2:
            return members_of(it.args[0], tgt.elts[1])
        if isinstance(it, ast.Name) and it.id in vals:
            return isinstance(tgt, ast.Name) and tgt.id == name and kind_of(it.id) in ("value", "sequence")
        if isinstance(it, ast.Call) and isinstance(it.func, ast.Attribute) and isinstance(it.func.value, ast.Name) and it.func.value.id in vals and not it.args:
            if it.func.attr == "values":
                return isinstance(tgt, ast.Name) and tgt.id == name
            if it.func.attr == "keys":
                return isinstance(tgt, ast.Name) and tgt.id == name and kind_of(it.func.value.id) == "value"
            if it.func.attr == "items" and isinstance(tgt, ast.Tuple) and len(tgt.elts) == 2:
                return (isinstance(tgt.elts[1], ast.Name) and tgt.elts[1].id == name) or \
                    (isinstance(tgt.elts[0], ast.Name) and tgt.elts[0].id == name and kind_of(it.func.value.id) == "value")
        return False

    pm = A.parent_map(st)
    ch = node
    while ch is not st and ch in pm:
        p = pm[ch]
        if isinstance(p, (ast.ListComp, ast.SetComp, ast.GeneratorExp, ast.DictComp)):
            for g in p.generators:
                if any(isinstance(x, ast.Name) and x.id == name for x in ast.walk(g.target)):
                    return members_of(g.iter, g.target)
        ch = p
    ds = fa.df.reaching(at, name)
    if not ds or not all(d.kind in ("for", "unpack") for d in ds):
        return False
    loops = [l for l in fa.stmts(ast.For) if any(isinstance(x, ast.Name) and x.id == name for x in ast.walk(l.target))]
    return bool(loops) and all(members_of(l.iter, l.target) for l in loops)


def _stmt_exprs(st):
    if isinstance(st, (ast.If, ast.While)):
        return [st.test]
    if isinstance(st, (ast.For, ast.AsyncFor)):
        return [st.iter]
    if isinstance(st, (ast.With, ast.AsyncWith)):
        return [i.context_expr for i in st.items]
    if isinstance(st, (ast.Try, ast.FunctionDef, ast.AsyncFunctionDef, ast.ClassDef)):
        return []
    return [st]


def _value_carriers(ck, modules):
    """{qualified name: (FA, parameters that hold argument values)}: the functions of the frozen table, and - to a fixed point -
    the functions new w.r.t. the inventory that one of them hands such a value (they have no row of their own); for those,
    the call sites that hand the value over."""
    from ..inline import new_functions
    out = {}
    sites = {}   # (new function, parameter) -> [(calling FA, statement, call, argument)]
    for q, ps in VALUE_PARAMS.items():
        fi = ck.repo.try_func(q) if q.split(".")[0] in modules else None
        if fi is not None:
            out[fi.qual] = (FA(ck, fi), set(ps) & set(fi.params))
    new = {}
    for fi in new_functions(ck.repo):
        if fi.qual.split(".")[0] in modules and fi.qual not in out:
            new.setdefault(fi.name, []).append(fi)
    changed = bool(new)
    rounds = 0
    while changed and rounds < 6:
        changed = False
        rounds += 1
        for (fa, vals) in list(out.values()):
            if not vals:
                continue
            for st in fa.stmts():
                ids = fa.nodes(st)
                if not ids:
                    continue
                for ex in _stmt_exprs(st):
                    for c in A.walk_local(ex):
                        if isinstance(c, ast.Call) and isinstance(c.func, ast.Name) and c.func.id in ("map", "filter") and len(c.args) == 2 and \
                                isinstance(c.args[0], (ast.Name, ast.Attribute)) and (A.dotted(c.args[0]) or "").split(".")[-1] in new and \
                                _value_atoms(fa, st, c.args[1], ids[0], vals):
                            # map(helper, members of the value): the helper's first parameter holds a member
                            for tgt in new[A.dotted(c.args[0]).split(".")[-1]]:
                                ps = [p for p in tgt.params if p not in ("self", "cls")] if tgt.cls is not None and not _is_static(tgt) else list(tgt.params)
                                have = out.get(tgt.qual)
                                if ps and not any(s_[2] is c for s_ in sites.setdefault((tgt.qual, ps[0]), [])):
                                    sites[(tgt.qual, ps[0])].append((fa, st, c, None))
                                if ps and (have is None or ps[0] not in have[1]):
                                    out[tgt.qual] = (have[0] if have else FA(ck, tgt), (have[1] if have else set()) | {ps[0]})
                                    changed = True
                            continue
                        if not (isinstance(c, ast.Call) and A.call_attr(c) in new):
                            continue
                        for tgt in new[A.call_attr(c)]:
                            ps = [p for p in tgt.params if p not in ("self", "cls")] if tgt.cls is not None and not _is_static(tgt) else list(tgt.params)
                            got = {}
                            for i, a in enumerate(c.args):
                                if not isinstance(a, ast.Starred) and i < len(ps) and _raw_value(fa, st, c, a, ids[0], vals, ck, sites):
                                    got[ps[i]] = a
                            for k in c.keywords:
                                if k.arg in tgt.params and _raw_value(fa, st, c, k.value, ids[0], vals, ck, sites):
                                    got[k.arg] = k.value
                            have = out.get(tgt.qual)
                            for p_, a_ in got.items():
                                site = (fa, st, c, a_)
                                if not any(s_[2] is c and s_[3] is a_ for s_ in sites.setdefault((tgt.qual, p_), [])):
                                    sites[(tgt.qual, p_)].append(site)
                            if got and (have is None or not set(got) <= have[1]):
                                out[tgt.qual] = (have[0] if have else FA(ck, tgt), (have[1] if have else set()) | set(got))
                                changed = True
    return out, sites


def _annotation_of(fa: FA, param: str):
    for a in fa.fi.node.args.posonlyargs + fa.fi.node.args.args + fa.fi.node.args.kwonlyargs:
        if a.arg == param and a.annotation is not None:
            ann = a.annotation
            if isinstance(ann, ast.Constant) and isinstance(ann.value, str):
                try:
                    ann = ast.parse(ann.value, mode="eval").body
                except SyntaxError:
                    return None
            return ann
    return None


def _annotated_classes(fa: FA, param: str):
    """The classes the annotation of a parameter names (Optional / Union taken apart, subscripts reduced to their base);
    None when there is none or it is Any / object / something that is not a class name."""
    def toks(ann):
        if isinstance(ann, ast.Constant) and ann.value is None:
            return {"None"}
        if isinstance(ann, ast.Subscript):
            head = (A.dotted(ann.value) or "").split(".")[-1]
            if head == "Optional":
                t = toks(ann.slice)
                return None if t is None else t | {"None"}
            if head == "Union":
                out = set()
                for e in (ann.slice.elts if isinstance(ann.slice, ast.Tuple) else [ann.slice]):
                    t = toks(e)
                    if t is None:
                        return None
                    out |= t
                return out
            return toks(ann.value)
        d = A.dotted(ann)
        if not d or d.split(".")[-1] in ("Any", "object", "Hashable", "T"):
            return None
        return {d}

    ann = _annotation_of(fa, param)
    return toks(ann) if ann is not None else None


def _class_facts_at(fa: FA, st, node, name: str, ck, sites, depth=0, annotations=True) -> _Adm:
    """What is known about the class of the object `name` holds when `node` (inside statement `st`) is evaluated: the path
    condition of the statement and the tests around the node inside it; for a parameter of a helper that is new w.r.t. the
    inventory also what its callers know about the argument they pass (any of them may be the caller)."""
    conds = fa.conditions(st)
    ck.need(conds is not None, "%s: too many paths to `%s`" % (fa.qual, A.short(st, 50)))
    acc = None
    for conj in (conds or [frozenset()]):
        a = _Adm()
        lits = []
        for (txt, pol) in sorted(conj):
            try:
                lits.append((ast.parse(txt, mode="eval").body, pol))
            except SyntaxError:
                continue
        for (e, pol) in lits + _local_guards(st, node):
            a = a.both(_admitted(fa, e, pol, name))
            a = a.both(_Adm(None, _exact_class_facts(fa, e, pol, name)))
        acc = a if acc is None else acc.either(a)
    acc = acc if acc is not None else _Adm()
    callers = sites.get((fa.qual, name))
    if acc.classes is None and not callers and annotations:
        # no test on the path: a parameter is what its annotation says (Any / object say nothing)
        ann = _annotated_classes(fa, name)
        if ann:
            acc = acc.both(_Adm(ann))
    if callers and depth < 4 and fa.df.reaching(fa.nodes(st)[0], name) and all(d.kind == "param" for d in fa.df.reaching(fa.nodes(st)[0], name)):
        outer = None
        for (cfa, cst, call, arg) in callers:
            try:
                ae = _strip_cast(cfa.expand(arg, cfa.nodes(cst)[0])) if arg is not None else None
            except AnalysisError:
                ae = arg
            o = _class_facts_at(cfa, cst, call, ae.id, ck, sites, depth + 1) if isinstance(ae, ast.Name) else _Adm()
            outer = o if outer is None else outer.either(o)
        acc = acc.both(outer)
    return acc


_SEQUENCES = {"list", "tuple", "set", "frozenset", "List", "Tuple", "Sequence", "Set", "FrozenSet", "Iterable", "Collection", "deque"}


def _kind_there(fa: FA, st, node, param: str, ck, sites):
    """'value': the parameter holds one argument value whose class a test on the path has established; else by its
    annotation 'sequence' (of values) or 'mapping' (names -> values); None when nothing is known."""
    adm = _class_facts_at(fa, st, node, param, ck, sites, annotations=False)
    if adm.classes is not None:
        return "value"
    ann = _annotation_of(fa, param)
    if ann is None:
        return None
    while isinstance(ann, ast.Subscript) and (A.dotted(ann.value) or "").split(".")[-1] == "Optional":
        ann = ann.slice
    base = ann.value if isinstance(ann, ast.Subscript) else ann
    last = (A.dotted(base) or "").split(".")[-1]
    return "sequence" if last in _SEQUENCES else "mapping" if last in ("dict", "Dict", "Mapping", "OrderedDict", "MutableMapping") else None


def _raw_value(fa: FA, st, node, e, at, vals, ck, sites):
    """The name under which `e` (inside `node` of statement `st`) is an argument value as it was passed - a value-carrying
    parameter itself or a part drawn from one - else None (a rendering, a field, a class ... of it is not the value)."""
    try:
        x = _strip_cast(fa.expand(e, at))
    except AnalysisError:
        x = _strip_cast(e)
    if not isinstance(x, ast.Name):
        return None
    if x.id in _binders(st, node):
        return x.id if _is_member(fa, st, node, x.id, at, vals, lambda q: _kind_there(fa, st, node, q, ck, sites)) else None
    ds = fa.df.reaching(at, x.id)
    if x.id in vals and ds and all(d.kind == "param" for d in ds):
        return x.id
    return x.id if _is_member(fa, st, node, x.id, at, vals, lambda q: _kind_there(fa, st, node, q, ck, sites)) else None


def _is_static(fi) -> bool:
    return any(A.norm(d) == "staticmethod" for d in fi.node.decorator_list)


def check_values_not_looked_up_by_equality(ck, R, modules=("serialization", "reference", "metadata")):
    """"Encoding ... and decoding it again yields an equivalent memento ... the argument hash recomputed from the decoded
    arguments equals the original one": the written form of an argument value (its wire object, its canonical text) is a
    function of THAT value and its class.  Python's `==` / hash() are coarser than the wire format - 7 == 7.0 == Decimal(7),
    True == 1, 0.0 == -0.0, a datetime equals its Timestamp - and each of these is written differently.  A mapping or set
    that is looked up with a raw argument value as (part of) the key therefore answers one value with what was recorded for
    another, and what a value is written as starts to depend on which values were met before.  Such a lookup is sound only
    where the path condition confines the key to classes whose instances are equal only when written the same (text, None,
    one integral class with bool ruled out); the key may of course be any rendering that is itself class-faithful (the
    text, a (class, text) pair), which is not a raw value."""
    ck.rule(R, "the written form of an argument value depends on that value and its class only: a raw argument value is the key of a "
               "mapping / set lookup only where the path confines it to classes that == does not conflate (text, None, one integral class)", 1)
    n_sites = 0
    scanned = []
    carriers, sites = _value_carriers(ck, modules)
    typed_caches = {}
    for fi in ck.repo.all_funcs():
        if any(isinstance(d, ast.Call) and A.norm(d.func).split(".")[-1] == "lru_cache" and A.norm(A.kwarg(d, "typed")) == "True" for d in fi.node.decorator_list):
            typed_caches.setdefault(fi.name, []).append(fi)
    for qual, (fa, vals) in sorted(carriers.items()):
        if not vals:
            continue
        scanned.append(qual)
        for st in fa.stmts():
            ids = fa.nodes(st)
            if not ids:
                continue
            at = ids[0]
            for ex in _stmt_exprs(st):
                for n in A.walk_local(ex):
                    cont = key = None
                    if isinstance(n, ast.Subscript) and isinstance(n.ctx, ast.Load) and not isinstance(n.slice, ast.Slice):
                        cont, key = n.value, n.slice
                    elif isinstance(n, ast.Call) and isinstance(n.func, ast.Attribute) and n.func.attr in _KEYED_READS and n.args and not isinstance(n.args[0], ast.Starred):
                        cont, key = n.func.value, n.args[0]
                    elif isinstance(n, ast.Compare) and len(n.ops) == 1 and isinstance(n.ops[0], (ast.In, ast.NotIn)):
                        cont, key = n.comparators[0], n.left
                    elif isinstance(n, ast.Call) and A.call_attr(n) in typed_caches and any(f.module is fa.fi.module or f.name in fa.fi.module.imports or f.cls is not None for f in typed_caches[A.call_attr(n)]):
                        # a call of a function behind functools.lru_cache(typed=True): its arguments, each with its class, are the key
                        # (the untyped caches are the typed-identity lint's)
                        cont, key = None, ast.Tuple(elts=[x for a in n.args if not isinstance(a, ast.Starred) for x in (a, ast.Call(func=ast.Name(id="type", ctx=ast.Load()), args=[a], keywords=[]))] +
                                                    [x for k in n.keywords if k.arg for x in (k.value, ast.Call(func=ast.Name(id="type", ctx=ast.Load()), args=[k.value], keywords=[]))], ctx=ast.Load())
                    else:
                        continue
                    if cont is not None:
                        if not isinstance(cont, (ast.Name, ast.Attribute)):
                            continue
                        # the container is not (a part of) the argument itself
                        if _value_atoms(fa, st, cont, at, vals) or (isinstance(cont, ast.Name) and cont.id in _binders(st, n)):
                            continue
                        try:
                            ce = _strip_cast(fa.expand(cont, at))
                        except AnalysisError:
                            ce = cont
                        if isinstance(ce, (ast.Constant, ast.Tuple, ast.JoinedStr)) or (isinstance(ce, ast.Name) and ce.id in fa.fi.params):
                            continue
                    # the raw values in the key
                    try:
                        ke = _strip_cast(fa.expand(key, at))
                    except AnalysisError:
                        ke = key
                    leaves, todo, classes_in_key = [], [ke], set()
                    while todo:
                        x = _strip_cast(todo.pop())
                        if isinstance(x, ast.Tuple):
                            todo += x.elts
                        elif isinstance(x, ast.Call) and isinstance(x.func, ast.Name) and x.func.id == "type" and len(x.args) == 1 and isinstance(x.args[0], ast.Name):
                            classes_in_key.add(x.args[0].id)
                        elif isinstance(x, ast.Attribute) and x.attr == "__class__" and isinstance(x.value, ast.Name):
                            classes_in_key.add(x.value.id)
                        elif isinstance(x, ast.IfExp):
                            todo += [x.body, x.orelse]
                        elif isinstance(x, ast.BoolOp):
                            todo += x.values
                        elif isinstance(x, ast.Name) and _raw_value(fa, st, n, x, at, vals, ck, sites):
                            leaves.append(x.id)
                    for p in sorted(set(leaves)):
                        n_sites += 1
                        acc = _class_facts_at(fa, st, n, p, ck, sites)
                        why = _conflated(acc, p in classes_in_key)
                        ck.ob(R, fa.key(st, "value-keyed-lookup:%s" % p), why is None,
                              "`%s` looks `%s` up where equal keys are written the same (%s)" % (A.short(n, 50), p, "classes " + ", ".join(sorted(acc.classes)) if acc.classes else "class in key") if why is None else
                              "`%s` looks an entry up by the raw argument value `%s` (key `%s`), and %s: a value is answered with what was recorded for "
                              "another value that merely compares equal but is written differently on the wire and in the canonical text, so the written "
                              "form and the argument hash of a value depend on which values were seen before - the hash recomputed from a decoded "
                              "memento is not the original one" % (A.short(n, 50), p, A.short(key, 40), why), fa.where(st))
    ck.ob(R, "value-keyed-lookup::scan", True, "%d lookups keyed by a raw argument value in %d value-carrying functions (%s)" % (n_sites, len(scanned), ", ".join(scanned)), "")


def check(ck):
    from .memo import check_new_memo_tables
    ck.run(check_new_memo_tables, ck, "C11.M1", ('serialization', 'reference', 'metadata'))
    ck.run(check_plain_json, ck, "C11.R8")
    ck.run(check_dict_keys_survive, ck, "C11.R9")
    ck.run(check_normalize_is_round_trip, ck, "C11.R10")
    ck.run(check_values_not_looked_up_by_equality, ck, "C11.R11")
    R1, R2, R3, R4, R5 = ("C11.R%d" % i for i in range(1, 6))
    ck.rule(R1, "pairwise key agreement: for each encode/decode pair the keys of the emitted object equal the keys the decoder reads", 7)
    ck.rule(R2, "field coverage: for each rebuilt class, constructor parameters == keyword arguments the decoder passes, "
                "and every parameter is fed from an encoded field read off the object", 12)
    ck.rule(R3, "wire format: the union of emitted field names equals the frozen cross-language table; arguments are "
                "{type, value} objects whose type is a ResultType name or the function-reference tag; emitted tags == decoded tags", 4)
    ck.rule(R4, "versioned keys are joined with '#' and split at the last '#'", 2)
    ck.rule(R5, "encode_arg tests subclasses before superclasses (bool before number, timestamp before date)", 2)
    emitted = set()
    em_by_pair = {}
    ctor_by_pair = {}
    for (name, cls_qual) in PAIRS:
        # (loops / comprehensions over a literal table of field names are decided as the entries they stand for)
        enc = _unrolled(FA(ck, "%s.encode_%s" % (MC, name)))
        dec = _unrolled(FA(ck, "%s.decode_%s" % (MC, name)))
        d = _emitted(enc)
        ck.need(d is not None, "encode_%s does not return a dict literal" % name)
        em_by_pair[name] = (enc, d)
        ekeys = set(d)
        dkeys = _state_keys(dec)
        emitted |= ekeys
        ok = ekeys == dkeys
        ck.ob(R1, enc.key(None, "keys"), ok, "%d fields agree" % len(ekeys) if ok else
              "encode_%s writes %s but decode_%s reads %s" % (name, sorted(ekeys - dkeys), name, sorted(dkeys - ekeys)), enc.where())
        # R2
        if cls_qual is not None:
            params = _ctor_params(ck, cls_qual)
            ctor_name = cls_qual.split(".")[-1]
            ctor = [c for c in dec.calls(ctor_name)]
            if len(ctor) != 1:
                ck.ob(R2, dec.key(None, "ctor"), False, "decode_%s does not rebuild a %s" % (name, ctor_name), dec.where())
                continue
            bound = _bound_args(dec, ctor[0], params)
            given = {p_: v_ for p_, (v_, _a) in bound.items()} if bound is not None else None
            given_at = {p_: a_ for p_, (_v, a_) in bound.items()} if bound is not None else {}
            kws = list(given) if given is not None else [k.arg for k in ctor[0].keywords]
            ok2 = given is not None and sorted(kws) == sorted(params)
            ck.ob(R2, dec.key(ctor[0], "ctor-params"), ok2, "%s(%s) is rebuilt with every constructor parameter" % (ctor_name, ", ".join(params)) if ok2 else
                  "%s takes (%s) but the decoder passes (%s): a field is lost or not restored" % (ctor_name, ", ".join(params), ", ".join(str(k) for k in kws)), dec.where(ctor[0]))
            # every param is fed from a distinct state key; every key is consumed
            used = set()
            at = at_of(dec, ctor[0])
            ctor_by_pair[name] = (dec, given or {}, at, given_at)
            fed_from = {}
            for (p, v) in (given or {}).items():
                ks = _keys_in_flow(dec, v, given_at.get(p, at))
                fed_from[p] = ks
                used |= ks
                ck.ob(R2, dec.key(ctor[0], "fed:" + (p or "?")), len(ks) == 1, "%s is restored from %s" % (p, sorted(ks)) if len(ks) == 1 else
                      "%s is not restored from exactly one encoded field (%s)" % (p, sorted(ks)), dec.where(ctor[0]))
            _check_field_correspondence(ck, R2, enc, d, dec, ctor[0], fed_from, ctor_name)
            ck.ob(R2, dec.key(ctor[0], "all-keys-consumed"), used == dkeys, "every encoded field is consumed" if used == dkeys else
                  "encoded fields %s are read but not passed to the constructor" % sorted(dkeys - used), dec.where(ctor[0]))
            # the encoder reads one attribute of the object per field
            attrs = set()
            obj = _first_param(enc, "obj")
            for vals in d.values():
                for (v, a_) in vals:
                    attrs |= _attrs_in_flow(enc, v, a_, obj)
            ok3 = len(attrs) == len(params)
            ck.ob(R2, enc.key(None, "reads-all-fields"), ok3, "the encoder reads %d attributes for %d constructor fields" % (len(attrs), len(params)) if ok3 else
                  "the encoder reads attributes %s but %s has fields %s" % (sorted(attrs), ctor_name, params), enc.where())
        else:
            fq = [c for c in dec.calls("from_qualified_name")]
            callee = ck.repo.try_func("reference.FunctionReference.from_qualified_name")
            cparams = [p for p in callee.params if p not in ("self", "cls")] if callee is not None else []
            bound = (_bound_args(dec, fq[0], cparams) if len(fq) == 1 else None) or {}
            given = {p_: v_ for p_, (v_, _a) in bound.items()}
            given_at = {p_: a_ for p_, (_v, a_) in bound.items()}
            okq = len(fq) == 1 and sorted(given) == ["parameter_names", "partial_args", "partial_kwargs", "qualified_name"]
            if len(fq) == 1:
                ctor_by_pair[name] = (dec, given, at_of(dec, fq[0]), given_at)
            if len(fq) == 1:
                _check_field_correspondence(ck, R2, enc, d, dec, fq[0], {p_: _keys_in_flow(dec, v_, given_at[p_]) for p_, v_ in given.items()}, "the reference")
            ck.ob(R2, dec.key(None, "from-qualified-name"), okq, "the reference is rebuilt from its qualified name, partials and parameter names" if okq else
                  "decode_fn_reference does not pass (qualified_name, partial_args, partial_kwargs, parameter_names)", dec.where())

    def emitted_alts(name, field):
        enc, d = em_by_pair[name]
        out = []
        for (v, a_) in d.get(field, []):
            out += [(enc.expand(x, a2), a2) for (x, a2) in alternatives(enc, v, a_)]
        return enc, out

    def restored_alts(name, param):
        if name not in ctor_by_pair:
            return None, []
        dec, given, at, given_at = ctor_by_pair[name]
        if param not in given:
            return dec, []
        return dec, [(dec.expand(x, a2), a2) for (x, a2) in alternatives(dec, given[param], given_at.get(param, at))]

    def is_state_read(dec, e, field, at=None):
        return _state_key_of(dec, e, at, _first_param(dec, "state")) == field

    # memento time instant / enum by name
    em, t_out = emitted_alts("memento", "time")
    dm, t_in = restored_alts("memento", "time")
    mp = _first_param(em, "memento")
    okt = bool(t_out) and all(isinstance(x, ast.Call) and A.call_attr(x) == "encode_datetime" and len(x.args) == 1 and _is_chain(em, x.args[0], a_, mp, ["time"]) for (x, a_) in t_out) \
        and bool(t_in) and all(isinstance(x, ast.Call) and A.call_attr(x) == "decode_datetime" and len(x.args) == 1 and is_state_read(dm, x.args[0], "time", a_) for (x, a_) in t_in)
    ck.ob(R1, em.key(None, "time-codec"), okt, "time goes through the datetime codec both ways" if okt else "memento.time is not encoded/decoded with the datetime codec", em.where())
    ei, rt_out = emitted_alts("invocation_metadata", "resultType")
    _, rs_out = emitted_alts("invocation_metadata", "runtimeSeconds")
    di, rt_in = restored_alts("invocation_metadata", "result_type")
    _, rs_in = restored_alts("invocation_metadata", "runtime")
    ip = _first_param(ei, "obj")
    okr = bool(rt_out) and all(_is_chain(ei, x, a_, ip, ["result_type", "name"]) for (x, a_) in rt_out) \
        and bool(rs_out) and all(isinstance(x, ast.Call) and not x.args and not x.keywords and _is_chain(ei, x.func, a_, ip, ["runtime", "total_seconds"]) for (x, a_) in rs_out) \
        and bool(rt_in) and all(isinstance(x, ast.Subscript) and A.norm(x.value) == "ResultType" and is_state_read(di, x.slice, "resultType", a_) for (x, a_) in rt_in) \
        and bool(rs_in) and all(isinstance(x, ast.Call) and A.call_attr(x) == "timedelta" and not x.args and len(x.keywords) == 1 and x.keywords[0].arg == "seconds"
                                and is_state_read(di, x.keywords[0].value, "runtimeSeconds", a_) for (x, a_) in rs_in)
    ck.ob(R1, ei.key(None, "enum-and-runtime"), okr, "result type travels by name, runtime as seconds" if okr else
          "result type / runtime are not encoded as (name, seconds) and decoded the same way", ei.where())

    # datetimes are written as they are: no zone / precision conversion before isoformat()
    ed = FA(ck, MC + ".encode_datetime")
    edp = _first_param(ed, "obj")
    for r in ed.returns():
        d = ed.deps(r.value)
        only_param = all(x.kind == "param" for i in ed.nodes(r) for x in ed.df.reaching(i, edp))
        conv = sorted({x[5:] for x in d if x.startswith("call:") and x[5:] in ("astimezone", "utcfromtimestamp", "fromtimestamp", "timestamp", "date", "time", "combine", "normalize", "tz_convert", "tz_localize")})
        ok = "call:isoformat" in d and ("param:" + edp) in d and only_param and not conv
        ck.ob(R1, ed.key(r, "datetime-as-is"), ok, "the datetime is written as obj.isoformat() (zone and precision untouched)" if ok else
              "encode_datetime converts the value before writing it (%s): the decoded datetime has another offset, so the argument hash "
              "recomputed from the decoded arguments differs from the stored one" % (conv or "obj is reassigned"), ed.where(r))
    # ... and read back without leaving the zone *name* to the parser: dateutil.parser.parse attaches the LOCAL zone to a
    # zone name the local zone also goes by ("Z" is reported as "UTC"; TZ=UTC+3 is called UTC and is three hours off), so
    # the 'Z' suffix isoformat() writes for UTC must be read as UTC explicitly (or by isoparse / an explicit tzinfos table) -- D54
    dd_ = FA(ck, MC + ".decode_datetime")
    ddp = _first_param(dd_, "state")
    from .fresh import path_cases
    zlit = "%s.endswith('Z')" % ddp

    def is_text(e):
        return isinstance(e, ast.Name) and e.id == ddp

    def z_cut_off(e):
        """state[:-1] / state[0:-1] / state[:len(state) - 1] / state.removesuffix('Z') / state.rstrip('Z')"""
        if isinstance(e, ast.Subscript) and is_text(e.value) and isinstance(e.slice, ast.Slice) and e.slice.step is None:
            lo, up = e.slice.lower, e.slice.upper
            minus = isinstance(up, ast.UnaryOp) and isinstance(up.op, ast.USub) and _int_const(up.operand) == 1   # -1 / -len('Z')
            if (lo is None or _int_const(lo) == 0) and up is not None and (minus or A.norm(up) in ("len(%s) - 1" % ddp, "len(%s) - len('Z')" % ddp)):
                return True
        return isinstance(e, ast.Call) and isinstance(e.func, ast.Attribute) and e.func.attr in ("removesuffix", "rstrip") and is_text(e.func.value) \
            and len(e.args) == 1 and A.const_str(e.args[0]) == "Z"

    def compatible(ca, cb):
        return any(not any((t, not pol) in y for (t, pol) in x) for x in (ca or [frozenset()]) for y in (cb or [frozenset()]))

    def gives_utc(n):
        """<value>.replace(tzinfo=<UTC>)"""
        return isinstance(n, ast.Call) and isinstance(n.func, ast.Attribute) and n.func.attr == "replace" and A.kwarg(n, "tzinfo") is not None \
            and any(w in A.norm(A.kwarg(n, "tzinfo")) for w in ("UTC", "utc", "tzutc"))

    rcases = return_cases(dd_)
    ck.need(rcases is not None, "decode_datetime: too many paths to enumerate what it returns")
    n_parse = 0
    for c in dd_.calls():
        if A.call_attr(c) != "parse" and not (isinstance(c.func, ast.Name) and c.func.id == "parse"):
            continue
        if not c.args or not dd_.nodes(c):
            continue
        n_parse += 1
        if any(k.arg == "tzinfos" for k in c.keywords):
            continue
        at = dd_.nodes(c)[0]
        acases = path_cases(dd_, c.args[0], at, also=(ddp,))
        ck.need(acases is not None, "decode_datetime: too many paths to tell what text the parser receives")
        ok, why = True, ""
        for (av, a_at, aconds) in acases:
            ae = _strip_cast(dd_.expand(av, a_at))
            if z_cut_off(ae):
                # the suffix is cut off: wherever the parsed (naive) value flows into what is returned, it has been given UTC on the way
                for (rv, r_at, rconds) in rcases:
                    if rv is None or not compatible(aconds, rconds):
                        continue
                    if not any(n is c for (n, _a) in flow_nodes(dd_, rv, r_at)):
                        continue
                    if any(n is c for (n, _a) in flow_nodes(dd_, rv, r_at, stop=gives_utc)):
                        ok, why = False, "the 'Z' suffix is cut off but the parsed value is not given UTC: a UTC datetime comes back naive"
            elif is_text(ae):
                if not (aconds and all((zlit, False) in cj for cj in aconds)):
                    ok = False
                    why = why or ("dateutil.parser.parse is handed the text with its 'Z' suffix: it reports the zone name 'UTC' and attaches the LOCAL zone "
                                  "when that is also called UTC (TZ=UTC+3): Memento.time and every UTC datetime argument shift by the local offset "
                                  "in the round trip, and the argument hash recomputed from the file differs from the stored one")
            else:
                ok = False
                why = why or "dateutil.parser.parse is handed `%s`: it cannot be told that a 'Z' suffix never reaches the zone-name lookup of the parser" % A.short(ae, 50)
        ck.ob(R1, dd_.key(c, "zone-name-not-left-to-the-parser"), ok,
              "a 'Z' suffix never reaches the zone-name lookup of the parser" if ok else why, dd_.where(c))
    ck.need(n_parse >= 1 or bool(dd_.calls("isoparse")) or bool(dd_.calls("fromisoformat")), "decode_datetime: no parser call found")
    # ---- R3
    ea = FA(ck, MC + ".encode_arg")
    da = FA(ck, MC + ".decode_arg")
    from .fresh import class_units

    def own_units(root: FA):
        """The function and the helpers its body was split into (the codec's other public encoders / decoders are units of their own)."""
        out = []
        for fi_ in class_units(ck, root):
            if fi_ is not root.fi and fi_.cls is root.fi.cls and fi_.parent is None and fi_.name.startswith(("encode_", "decode_")):
                continue
            out.append(root if fi_ is root.fi else FA(ck, fi_))
        return out

    tags_out = set()
    shapes_ok = True
    for eu_ in own_units(ea):
        for dd in [n for n in A.walk_body(eu_.node) if _dict_items(n) is not None]:
            items = _dict_items(dd)
            ks = [k for k, _ in items]
            if "type" in ks and eu_.nodes(dd):
                emitted |= {k for k in ks if k is not None}
                if not set(ks) <= {"type", "value"}:
                    shapes_ok = False
                tags_out |= _tags(eu_, items[ks.index("type")][1], eu_.nodes(dd)[0])
    tags_in = _decoded_tags(ck, da, own_units(da))
    ck.ob(R3, ea.key(None, "arg-shape"), shapes_ok, "arguments are {type, value} objects" if shapes_ok else
          "an argument encoding has fields other than type/value", ea.where())
    ck.ob(R3, da.key(None, "tags"), tags_out == tags_in and FN_REF_TAG in tags_out, "%d argument tags agree (incl. the function-reference tag)" % len(tags_out) if tags_out == tags_in and FN_REF_TAG in tags_out else
          "argument tags differ: emitted only %s, decoded only %s" % (sorted(tags_out - tags_in), sorted(tags_in - tags_out)), da.where())
    rt = ck.repo.cls("metadata.ResultType")
    members = {t.id for st in rt.node.body if isinstance(st, ast.Assign) for t in st.targets if isinstance(t, ast.Name)}
    okm = (tags_out - {FN_REF_TAG}) <= members
    ck.ob(R3, ea.key(None, "tags-are-result-types"), okm, "every tag is a ResultType member name" if okm else
          "tags %s are not ResultType members" % sorted(tags_out - {FN_REF_TAG} - members), ea.where())
    ck.ob(R3, MC + "::wire-fields", emitted == WIRE_FIELDS, "the %d emitted field names equal the cross-language table" % len(emitted) if emitted == WIRE_FIELDS else
          "wire format changed: new/renamed %s, missing %s" % (sorted(emitted - WIRE_FIELDS), sorted(WIRE_FIELDS - emitted)), "twosigma/memento/serialization.py")
    # nested arguments go through encode_arg / decode_arg: every argument collection's value flows through the typed codec
    for (name, fields, cparams_) in (("fn_reference_with_args", ("args", "kwargs", "contextArgs"), ("args", "kwargs", "context_args")),
                                     ("fn_reference", ("partialArgs", "partialKwargs"), ("partial_args", "partial_kwargs"))):
        enc, d = em_by_pair[name]
        # (every value a field may hold — the arms of a conditional expression, the values stored on the branches
        # of an if — is built by encode_arg, except the null that stands for a missing collection)
        typed = []
        for f in fields:
            vals = [(x, a2) for (v, a_) in d.get(f, []) for (x, a2) in value_cases(enc, v, a_) if not A.is_none(x)]
            if vals and all(_calls_in_flow(enc, x, a2, "encode_arg") for (x, a2) in vals):
                typed.append(f)
        n, want = len(typed), len(fields)
        ck.ob(R3, enc.key(None, "typed-args"), n == want, "all %d argument collections use %s" % (want, "encode_arg") if n == want else
              "%s uses %s for %d of %d argument collections" % (enc.fi.name, "encode_arg", n, want), enc.where())
        dec = FA(ck, "%s.decode_%s" % (MC, name))
        n = 0
        if name in ctor_by_pair:
            _, given, at, given_at = ctor_by_pair[name]
            for p in cparams_:
                vals = [(x, a2) for (x, a2) in value_cases(dec, given[p], given_at.get(p, at)) if not A.is_none(x)] if p in given else []
                if vals and all(_calls_in_flow(dec, x, a2, "decode_arg") for (x, a2) in vals):
                    n += 1
        ck.ob(R3, dec.key(None, "typed-args"), n == want, "all %d argument collections use %s" % (want, "decode_arg") if n == want else
              "%s uses %s for %d of %d argument collections" % (dec.fi.name, "decode_arg", n, want), dec.where())

    ck.run(check_versioned_key_codec, ck, R4)
    # a decoded reference is rebuilt by parsing its qualified name: the parser's delimiter discipline
    # (shared with C12.R1) is part of the round trip
    ck.rule("C11.R7", "qualified names are parsed back into the parts they were built from (version cut at the first '#', "
                      "cluster at the first '::', module at the first ':')", 5)
    from .c12 import check_parser
    ck.run(check_parser, ck, "C11.R7")

    # ---- R5
    pairs = repo_subclass_pairs(ck)
    # (a dispatch written as a loop over a literal table of types is decided as the if-chain it stands for; a part of the
    # dispatch moved into a helper of the codec — `tag = cls._scalar_tag(obj)` — is decided where it is now)
    from .fresh import class_units as _listing_units
    n = 0
    for fi_ in _listing_units(ck, ea):
        if fi_ is not ea.fi and fi_.cls is ea.fi.cls and fi_.parent is None and fi_.name.startswith(("encode_", "decode_")):
            continue  # the other public encoders are not part of this dispatch
        eu = _unrolled(ea if fi_ is ea.fi else FA(ck, fi_))
        lad = extract_ladder(eu.node)
        # (a dispatch that is not a chain of `if isinstance(...)` statements at all — a first match picked from a table
        # by next(...), an or-chain of family encoders — is decided on the abstract run of the function)
        D = None if lad else dispatch_model(ck, eu, pairs)
        if lad or (D is not None and len(D.named()) >= 2):
            n += check_ladder_order(ck, R5, eu, lad, pairs, "wire-encode")
    ck.need(n >= 2, "encode_arg ladder: bool/int and datetime/date not comparable (%d)" % n)
    ck.run(check_class_tags, ck, "C11.R3", ea, pairs)
    ck.run(check_typed_identity, ck, "C11.R6", ("serialization", "reference"))
    ck.run(check_enum_distinct, ck, "C11.R3")
    ck.run(check_json_bytes, ck, "C11.R3", ["storage_base.DataSourceMetadataSource.put_memento", "storage_base.DefaultCodec.JsonExceptionStrategy.encode"])
    ck.run(check_decoders_pure, ck, "C11.R2")
    ck.run(check_reference_fields_carried, ck, "C11.R2")
