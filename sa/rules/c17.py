"""C17 — partitions round-trip key by key and merge as an overlay of their parents (structural).

Decides: the merge-parent protocol holds for every Partition class (R1); store() frame rule (R2 =
C02.R6); parent-then-own overlay order into one index (R3); sibling get/list_keys agreement (R4);
index encode/decode table agreement (R5).  Per-key value equality is not decided.

The clauses are decided on paths (partition_model.walk: branch literals with locals expanded, disjunctions
split into cases) and on expanded expressions, not on the spelling of a particular `if`: what a statement
is guarded by is read off the literals of the paths that reach it, what an accessor returns is evaluated
along each path as a set of key sources (own map / parent listing), an index entry is read field by field
whichever way it is constructed.
"""
import ast
import re

from .. import astutil as A
from ..fa import FA
from . import partition_model as PM
from .c02 import check_frame_rule
from .cache_model import self_attr

PARENT_ATTR = "_merge_parent"


def _names(t):
    return [x.id for x in ast.walk(t) if isinstance(x, ast.Name)]


def _for_nodes(fa):
    seen, out = set(), []
    live = fa.cfg.reachable_nodes()
    for n in fa.cfg.nodes:
        if n.kind == "for" and n.id in live and id(n.ast) not in seen:
            seen.add(id(n.ast))
            out.append(n)
    return out


def _roles(ck, fa):
    """store()'s locals and loops by role (so that the rules do not depend on how they are spelled)."""
    r = {"fields": PM.entry_type_fields(ck)}
    ck.need(r["fields"], "storage_base.%s: field list not found" % PM.ENTRY_TYPE)
    ser = fa.calls("_serialize_index")
    r["INDEX"] = ser[0].args[0].id if ser and ser[0].args and isinstance(ser[0].args[0], ast.Name) else "index"
    mp = [s_ for s_ in fa.stmts(ast.Assign) if A.norm(s_.value) == "obj." + PARENT_ATTR and isinstance(s_.targets[0], ast.Name)]
    r["MP"] = mp[0].targets[0].id if mp else "merge_parent"
    r["ploops"], r["oloops"] = [], []
    for n in _for_nodes(fa):
        flags = {A.norm(ef.get("from_parent")) for (_c, ef) in PM.entries_in(n.ast, r["fields"])}
        if flags == {"True"}:
            r["ploops"].append(n)
        elif flags == {"False"}:
            r["oloops"].append(n)
    pl = r["ploops"][0].ast if len(r["ploops"]) == 1 else None
    r["PIDX"], r["PK"], r["PV"] = _loop_vars(pl) if pl is not None else (None, None, None)
    # the loop(s) that walk the parent's entries: the one that copies them and, when the work is split over two
    # passes, any other loop over the same listing reached under the same conditions
    r["parent_passes"] = []
    if pl is not None:
        head = r["ploops"][0]
        it, cond = _walked(fa, head), fa.conditions(pl)
        for n in _for_nodes(fa):
            if n.ast is pl or (_walked(fa, n) == it and fa.conditions(n.ast) == cond and not fa.inside(n.ast, pl)):
                r["parent_passes"].append(n)
    r["PDS"] = None
    for n in r["parent_passes"]:
        for c in A.calls_in(n.ast):
            if A.call_attr(c) == "reference" and c.args and isinstance(c.args[0], ast.Name) and r["PDS"] is None:
                r["PDS"] = c.args[0].id
    return r


def _loop_vars(loop):
    """(name of the mapping a loop walks, text of the key of the entry at hand, text of the entry) for
    `for k, v in m.items()` / `for k in m` / `for k in m.keys()` / `for v in m.values()` (no key at hand), under calls
    that only fix the order of the walk; (None, None, None) for another shape."""
    it = PM.strip_order(loop.iter)
    if isinstance(loop.target, ast.Tuple) and len(loop.target.elts) == 2:
        idx = A.call_recv(it).id if isinstance(it, ast.Call) and A.call_attr(it) == "items" and isinstance(A.call_recv(it), ast.Name) else None
        return idx, A.norm(loop.target.elts[0]), A.norm(loop.target.elts[1])
    if isinstance(loop.target, ast.Name):
        if isinstance(it, ast.Call) and A.call_attr(it) == "values" and not it.args and isinstance(A.call_recv(it), ast.Name):
            return A.call_recv(it).id, None, loop.target.id
        # `for k in parent_index:` / `.keys()`: the entry is parent_index[k]
        if isinstance(it, ast.Call) and A.call_attr(it) == "keys" and not it.args:
            it = A.call_recv(it)
        if isinstance(it, ast.Name):
            return it.id, loop.target.id, "%s[%s]" % (it.id, loop.target.id)
    if isinstance(it, ast.Call) and A.call_attr(it) == "items" and isinstance(A.call_recv(it), ast.Name):
        return A.call_recv(it).id, None, None
    return None, None, None


def _walked(fa, n):
    """The (expanded) mapping a loop goes over, whichever of items() / values() / keys() / the mapping itself it iterates
    and in whatever order."""
    it = PM.strip_order(n.ast.iter)
    if isinstance(it, ast.Call) and A.call_attr(it) in ("items", "values", "keys") and not it.args and A.call_recv(it) is not None:
        it = A.call_recv(it)
    return fa.xnorm(it, n.id)


def _pol(lits, *texts):
    """Polarity with which a path states one of `texts` (None: not stated)."""
    for l in reversed(lits):
        if l.live and l.text in texts:
            return l.pos
    return None


def _truthy(lits, subject):
    """Does the path state that `subject` is there (truthy / not None)?  True / False / None."""
    v = _pol(lits, subject)
    if v is not None:
        return v
    v = _pol(lits, subject + " is None")
    return None if v is None else not v


def _there(lits, name):
    """Like _truthy for a local `name`, read off the atoms as written (a local with one definition is expanded
    in the literal's text)."""
    for l in reversed(lits):
        a = l.atom
        if not l.live:
            continue
        if isinstance(a, ast.Call) and isinstance(a.func, ast.Name) and a.func.id == "bool" and len(a.args) == 1 and not a.keywords:
            a = a.args[0]
        if isinstance(a, ast.Name) and a.id == name:
            return l.apos
        if isinstance(a, ast.Compare) and len(a.ops) == 1 and isinstance(a.left, ast.Name) and a.left.id == name and A.is_none(a.comparators[0]):
            if isinstance(a.ops[0], ast.Is):
                return not l.apos
            if isinstance(a.ops[0], ast.IsNot):
                return l.apos
    return None


def _index_stores(fa, loop_ast, INDEX):
    return [s for s in A.walk_local(loop_ast) if isinstance(s, ast.Assign) and len(s.targets) == 1 and isinstance(s.targets[0], ast.Subscript)
            and A.norm(s.targets[0].value) == INDEX]


def _entry_at(fa, value, at, fields):
    """{field: normalised expanded text} of the index entry that `value` denotes at CFG node `at`."""
    e = fa.expand(value, at)
    ef = PM.entry_fields(e, fields)
    if ef is None:
        return None
    return {f: A.norm(v) for f, v in ef.items()}


def _on_trail(fa, atom, at, trail, keep=()):
    """`atom` (tested at node `at`) with every local replaced by the value the path gave it last before the
    test — the path-sensitive counterpart of FA.expand for locals that have several definitions."""
    import copy
    upto = len(trail) - 1 - list(reversed(trail)).index(at) if at in trail else len(trail)
    last = {}
    for i in trail[:upto]:
        nd = fa.cfg.node(i)
        if nd.kind == "stmt" and isinstance(nd.ast, (ast.Assign, ast.AnnAssign)):
            for (t, v) in PM._flat_targets(nd.ast):
                if isinstance(t, ast.Name):
                    last[t.id] = (v, i)
        elif nd.kind in ("for", "with") or (nd.kind == "stmt" and isinstance(nd.ast, ast.AugAssign)):
            for nm in _names(nd.ast.target if nd.kind != "with" else ast.Tuple(elts=[i_.optional_vars for i_ in nd.ast.items if i_.optional_vars is not None], ctx=ast.Store())):
                last[nm] = (None, i)

    class T(ast.NodeTransformer):
        def visit_Name(self, n):
            if isinstance(n.ctx, ast.Load) and n.id in last and last[n.id][0] is not None and n.id not in keep:
                return fa.expand(last[n.id][0], last[n.id][1])
            return n

    out = copy.deepcopy(atom)
    for _round in range(4):
        # a value put in may itself mention a local the path assigned (the name of an attribute chosen first)
        before = ast.dump(out)
        out = _fold(T().visit(out))
        if ast.dump(out) == before:
            break
    return out


def _fold(e):
    """`('a', 'b')[0]` -> 'a', `{'x': 'a'}['x']` -> 'a': a name looked up in a literal table is the name."""
    class F(ast.NodeTransformer):
        def visit_Subscript(self, n):
            self.generic_visit(n)
            k = n.slice
            if isinstance(n.value, (ast.Tuple, ast.List)) and isinstance(k, ast.Constant) and isinstance(k.value, int) \
                    and -len(n.value.elts) <= k.value < len(n.value.elts) and not any(isinstance(x, ast.Starred) for x in n.value.elts):
                return n.value.elts[k.value]
            if isinstance(n.value, ast.Dict) and isinstance(k, ast.Constant) and all(isinstance(x, ast.Constant) for x in n.value.keys):
                for kk, vv in zip(n.value.keys, n.value.values):
                    if kk.value == k.value:
                        return vv
            return n

    return F().visit(e)


def _facts(fa, lits, subject, trail=()):
    """(is `subject` the stored form?, attributes it is known to have) as stated by the live literals of a path;
    a literal about a local is read through the local's value (`idx = getattr(p, 'a', None)` ... `idx is None`)."""
    inst, has = None, set()
    for l in lits:
        if not l.live:
            continue
        d = PM.duck_atom(l.atom, subject)
        if d is None:
            try:
                d = PM.duck_atom(PM._strip_casts(fa.expand(l.atom, l.at)), subject)
                if d is None and trail:
                    d = PM.duck_atom(PM._strip_casts(_on_trail(fa, l.atom, l.at, trail, (subject,))), subject)
            except Exception:  # noqa
                d = None
        if d and d[0] == "isinstance" and "PicklePartition" in d[1]:
            inst = (d[2] == l.apos)
        if d and d[0] == "has" and d[2] == l.apos:
            has.add(d[1])
    return inst, has


def _parent_reads(fa, MP, use=None):
    """Attribute reads off the merge parent (or a cast / alias of it) in store(), by the branch they sit in:
    -> (stored-form reads, duck-typed reads, attributes a duck-typed parent is known to have where it is used)
    where the branch is read off the literals of the paths reaching the read, and the place of use is the CFG
    node `use` (the head of the loop over the parent's entries; without it, the reads themselves)."""
    stored, duck, tested = set(), set(), None
    for x in A.walk_body(fa.node):
        attr = None
        if isinstance(x, ast.Attribute) and isinstance(x.ctx, ast.Load) and isinstance(x.value, ast.Name):
            subj, attr = x.value, x.attr
        elif isinstance(x, ast.Call) and isinstance(x.func, ast.Name) and x.func.id == "getattr" and len(x.args) in (2, 3) and isinstance(x.args[0], ast.Name) \
                and A.const_str(x.args[1]):
            subj, attr = x.args[0], A.const_str(x.args[1])
        elif isinstance(x, ast.Call) and isinstance(x.func, ast.Name) and x.func.id == "getattr" and len(x.args) in (2, 3) and isinstance(x.args[0], ast.Name):
            subj, attr = x.args[0], x.args[1]  # the name is chosen first (a table by kind of parent): known per path
        if attr is None:
            continue
        ids = fa.nodes(x)
        if not ids:
            continue
        if isinstance(x, ast.Call) and fa.cfg.node(ids[0]).kind == "test":
            continue  # a test, not a read
        if subj.id != MP and fa.xnorm(subj, ids[0]) != MP:
            continue
        paths = PM.walk(fa, ids)
        if not paths:
            continue
        if not isinstance(attr, str):
            from ..loader import AnalysisError
            for (_t, lits, _tr) in paths:
                nm = A.const_str(_on_trail(fa, attr, ids[0], _tr))
                if nm is None:
                    raise AnalysisError("%s: the attribute `%s` reads off the merge parent cannot be told on every path" % (fa.qual, A.short(x, 50)))
                (i, h) = _facts(fa, lits, MP, _tr)
                if i is True:
                    stored.add(nm)
                else:
                    duck.add(nm)
                    if use is None:
                        tested = h if tested is None else (tested & h)
            continue
        facts = [_facts(fa, lits, MP, _tr) for (_t, lits, _tr) in paths]
        if all(i is True for (i, _h) in facts):
            stored.add(attr)
            continue
        duck.add(attr)
        if use is None:
            for (_i, h) in facts:
                tested = h if tested is None else (tested & h)
    if use is not None:
        for (_t, lits, _tr) in PM.walk(fa, [use]):
            if _there(lits, MP) is False:
                continue  # a path without a parent says nothing about what a parent has
            (i, h) = _facts(fa, lits, MP, _tr)
            if i is False:
                tested = h if tested is None else (tested & h)
    return stored, duck, (tested or set())


def check_protocol(ck, R):
    ck.rule(R, "merge-parent protocol: for every concrete Partition class other than the stored form, the 'remember "
               "where it was written' test in store() succeeds on its declared attributes, the 'usable as parent' test "
               "can succeed, and the attributes written are the ones later read from a parent", 5)
    fa = PM.view(ck, PM.STORE, "branches")
    ro = _roles(ck, fa)
    MP, INDEX = ro["MP"], ro["INDEX"]
    writes = PM.store_writes_on_obj(fa)
    remember = [(a, s, g) for (a, s, g) in writes if g is not None and PM.duck_attrs(g.test, "obj")]
    # the reads off a duck-typed parent, and what they are guarded by
    stored_reads, duck_reads, tested = _parent_reads(fa, MP, ro["ploops"][0].id if len(ro["ploops"]) == 1 else None)
    parent_ifs = [i for i in fa.stmts(ast.If) if ("hasattr(%s" % MP) in A.norm(i.test) or ("getattr(%s" % MP) in A.norm(i.test)]
    ok_shape = bool(remember) and bool(duck_reads) and bool(tested)
    ck.ob(R, fa.key(None, "merge-parent-protocol"), ok_shape, "store() has a remember-branch and a duck-typed parent branch" if ok_shape else
          "store() no longer has both the remember-output-keys branch and the duck-typed parent branch", fa.where())
    if not ok_shape:
        return
    pif = parent_ifs[0] if parent_ifs else None
    parent_reads = sorted(duck_reads)
    written = sorted({a for (a, s, g) in remember})
    okw = set(parent_reads) <= set(written)
    ck.ob(R, fa.key(pif, "written-is-read"), okw, "a parent is read through %s, which store() records on every serialised partition" % parent_reads if okw else
          "a merge parent is read through %s but store() records %s: an already-serialised partition cannot serve as parent" % (parent_reads, written), fa.where(pif))
    # what is remembered for later use as a parent is the MERGED index (the one that is serialised):
    # remembering only the partition's own keys drops the grandparents' keys from a chain whose
    # middle element is still the in-memory object
    ser = [c for c in fa.calls("_serialize_index")]
    rec = [(a, s_) for (a, s_, g) in remember if a in parent_reads and "keys" in a or a == "_output_keys"]
    merged = A.norm(ser[0].args[0]) if ser and ser[0].args else None
    if ser and rec:
        for (a, s_) in rec:
            val = PM.write_value(s_, a)
            okm = val is not None and A.norm(val) == merged
            ck.ob(R, fa.key(s_, "remembers-merged-index"), okm,
                  "obj.%s records the merged index that is serialised" % a if okm else
                  "obj.%s records `%s` (own keys only) while `%s` is what is serialised: a child of this still-in-memory partition inherits "
                  "only its own keys, the grandparent's keys are silently dropped from the stored child" % (a, A.norm(val) if val is not None else A.short(s_, 60), merged), fa.where(s_))
    # ... and it is recorded once it is COMPLETE: recording the (still empty) dict first and filling it
    # afterwards leaves a partition that claims to be serialised with a partial index when a write fails
    # half-way (or while another thread stores a child of it): the child is stored without the missing keys
    if ser and rec:
        for (a, s_) in rec:
            later = []
            for i in fa.nodes(s_):
                for j in fa.cfg.reach([i], include_start=False):
                    nd = fa.cfg.node(j)
                    if nd.kind != "stmt" or nd.ast is None:
                        continue
                    for x in A.walk_local(nd.ast):
                        if isinstance(x, ast.Subscript) and isinstance(x.ctx, ast.Store) and A.norm(x.value) == merged:
                            later.append(nd.ast)
                        if isinstance(x, ast.Call) and isinstance(x.func, ast.Attribute) and x.func.attr in ("update", "setdefault", "pop") and A.norm(x.func.value) == merged:
                            later.append(nd.ast)
            ck.ob(R, fa.key(s_, "recorded-when-complete"), not later,
                  "obj.%s is recorded after the last write to the merged index" % a if not later else
                  "obj.%s is recorded before the merged index is filled (`%s` runs afterwards): if a value fails to be written, or another thread "
                  "stores a child of this partition meanwhile, the object passes for serialised with a partial index and the child loses the "
                  "missing keys" % (a, A.short(later[0], 50)), fa.where(s_))
    # the merged index is a fresh mapping, never an alias of a parent's live index
    idx_defs = [s_ for s_ in fa.stmts() if isinstance(s_, (ast.Assign, ast.AnnAssign)) and getattr(s_, "value", None) is not None and any(
        isinstance(t, ast.Name) and ser and t.id == A.norm(ser[0].args[0]) for t in (s_.targets if isinstance(s_, ast.Assign) else [s_.target]))]
    okfresh = bool(idx_defs) and all(A.norm(s_.value) in ("dict()", "{}") for s_ in idx_defs)
    ck.ob(R, fa.key(None, "index-is-fresh"), okfresh, "the merged index starts as a fresh dict" if okfresh else
          "the merged index is not a fresh dict (%s): building it in place mutates the parent partition object that the cache keeps serving"
          % [A.norm(s_.value) for s_ in idx_defs], fa.where())
    g_rem = remember[0][2]
    for cls in PM.partition_classes(ck):
        if cls.qual == PM.PICKLE_PARTITION:
            continue
        attrs = PM.declared_attrs(ck, cls)
        v1 = PM.eval_duck_test(g_rem.test, attrs, False, "obj")
        ck.ob(R, "%s::%s::remembers-output" % (fa.qual, cls.name), v1 is True,
              "%s passes the remember test: its output location is recorded when it is stored" % cls.name if v1 is True else
              "%s does not satisfy `%s` (declares %s): after being stored it cannot serve as a merge parent" % (cls.name, A.short(g_rem.test, 80), sorted(a for a in attrs if a.startswith("_"))),
              fa.where(g_rem))
        missing = sorted(t for t in tested if t not in attrs)
        ck.ob(R, "%s::%s::usable-as-parent" % (fa.qual, cls.name), not missing,
              "%s can satisfy the parent test once stored" % cls.name if not missing else
              "%s can never satisfy the parent test (it requires %s, %s is not declared): a child partition with such a parent is not memoized"
              % (cls.name, sorted(tested), missing), fa.where(pif))
        # initial values must be None so that 'never serialised' is detectable
        init = cls.methods.get("__init__")
        if init is not None:
            none_init = {self_attr(t) for s in A.all_stmts(init.node) if isinstance(s, ast.Assign) and A.is_none(s.value) for t in s.targets}
            okn = set(parent_reads) <= none_init | {a for a in parent_reads if cls.fields.get(a) is None and a in cls.fields}
            ck.ob(R, "%s::%s::starts-unserialised" % (fa.qual, cls.name), okn, "%s starts with %s unset" % (cls.name, parent_reads) if okn else
                  "%s does not initialise %s to None" % (cls.name, parent_reads), A.loc(init, init.node))
    # stored form as parent
    pp = ck.repo.cls(PM.PICKLE_PARTITION)
    pattrs = PM.declared_attrs(ck, pp)
    iso = [i for i in fa.stmts(ast.If) if ("isinstance(%s" % MP) in A.norm(i.test)]
    if iso or stored_reads:
        reads = sorted(stored_reads)
        okp = set(reads) <= pattrs
        ck.ob(R, fa.key(iso[0] if iso else None, "stored-form-parent"), okp, "a partition read back from the store serves as parent through %s" % reads if okp else
              "the stored-form parent branch reads %s, not all declared by PicklePartition" % reads, fa.where(iso[0] if iso else None))
    # the stored form re-stored (a function returning the partition another function returned):
    # list_keys(_include_merge_parent=False) drops its inherited entries, so they must be carried
    # over from its own index
    carried = False
    for s_ in fa.stmts(ast.Assign):
        if any(isinstance(t, ast.Name) and t.id == MP for t in s_.targets) and A.norm(s_.value) == "obj":
            paths = PM.walk(fa, fa.nodes(s_))

            def stored_form(lits):
                for l in lits:
                    d = PM.duck_atom(l.atom, "obj") if l.live else None
                    if d and d[0] == "isinstance" and "PicklePartition" in d[1] and d[2] == l.apos:
                        return True
                return False
            if paths and all(stored_form(lits) for (_t, lits, _tr) in paths):
                carried = True
    for lp_ in [n.ast for n in _for_nodes(fa)]:
        if "obj._index" in A.norm(lp_.iter) and _index_stores(fa, lp_, INDEX):
            carried = True
    ck.ob(R, fa.key(None, "stored-form-restored"), carried, "a stored-form partition that is stored again carries its inherited entries over" if carried else
          "when the object being stored is itself the stored form (a function returning a partition it got from another memento function), only "
          "its non-inherited keys are listed and nothing copies the inherited entries of its own index: they are missing from the new entry", fa.where())
    # otherwise: I/O error (absorbed by the runner, see C08.R3)
    def raised(r):
        e = r.exc
        if isinstance(e, ast.Name) and fa.nodes(r):
            e = fa.expand(e, fa.nodes(r)[0])
        return e
    els = [r for r in fa.stmts(ast.Raise) if isinstance(raised(r), ast.Call) and A.call_attr(raised(r)) in ("IOError", "OSError")]
    ck.ob(R, fa.key(None, "unusable-parent-signalled"), bool(els), "an unusable parent is signalled as an I/O error" if els else
          "an unusable merge parent is not signalled as an I/O error", fa.where())


def _remembered_pair(fa, INDEX):
    """(attribute that records the merged index, attribute that records the data source it was written to),
    read off store()'s own writes on the stored object."""
    a_idx = a_ds = None
    for (a, s, _g) in PM.store_writes_on_obj(fa):
        v = PM.write_value(s, a)
        if v is None:
            continue
        if A.norm(v) == INDEX:
            a_idx = a
        elif A.norm(v) == "data_source":
            a_ds = a
    return (a_idx or "_output_keys", a_ds or "_parent_data_source")


def check_overlay(ck, R):
    ck.rule(R, "overlay order: the parent's index entries are copied (marked from_parent) before the partition's own "
               "keys are layered on top, own keys come from list_keys(_include_merge_parent=False), and both go into the "
               "one index that is serialised", 6)
    fa = PM.view(ck, PM.STORE, "branches")
    cfg = fa.cfg
    ro = _roles(ck, fa)
    MP, INDEX, PV, PDS, PIDX, fields = ro["MP"], ro["INDEX"], ro["PV"], ro["PDS"], ro["PIDX"], ro["fields"]
    ploops, oloops = ro["ploops"], ro["oloops"]
    ok = len(ploops) == 1 and len(oloops) == 1
    ck.ob(R, fa.key(None, "two-loops"), ok, "parent loop and own-keys loop found" if ok else
          "store() no longer has one parent-index loop and one own-keys loop", fa.where())
    if not ok:
        return
    pl, ol = ploops[0], oloops[0]
    # with a parent, the parent loop is passed before the own loop: a path that reaches the own loop without
    # passing the parent loop is one on which there is no parent
    to_own = PM.walk(fa, [ol.id])
    okp = any(pl.id in tr for (_t, _l, tr) in to_own) and all(pl.id in tr or _there(lits, MP) is False for (_t, lits, tr) in to_own)
    # and never after
    after = cfg.reach([ol.id], include_start=False)
    okp = okp and pl.id not in after
    ck.ob(R, fa.key(pl.ast, "parent-before-own"), okp, "parent entries are copied before own keys are layered on top (own keys win)" if okp else
          "own keys are not layered after the parent's entries: a parent entry can overwrite the partition's own key", fa.where(pl.ast))
    # parent entries: same result_type/content_key, from_parent=True, into `index`, under their own key
    pst = _index_stores(fa, pl.ast, INDEX)
    okpe = len(pst) == 1 and len(PM.entries_in(pl.ast, fields)) == 1 and PV is not None
    if okpe:
        ent = _entry_at(fa, pst[0].value, fa.nodes(pst[0])[0], fields)
        okpe = ent is not None and ent.get("from_parent") == "True" and ent.get("result_type") == "%s.result_type" % PV \
            and ent.get("content_key") == "%s.content_key" % PV and A.norm(pst[0].targets[0].slice) == ro["PK"]
    ck.ob(R, fa.key(pl.ast, "parent-entries"), okpe, "parent entries keep their type and content key and are marked from_parent" if okpe else
          "parent entries are not copied as (result_type, content_key, from_parent=True) under their own key", fa.where(pl.ast))
    # every parent entry is copied: each iteration of the parent loop reaches the index store
    if pst:
        starts = [d for (d, l) in cfg.succ[pl.id] if l == "T"]
        live = cfg.reach(starts, removed=fa.nodes(pst[0]), edge_ok=lambda a, b, l: l != "exc")
        # ... neither starting the next iteration nor leaving the loop (break / return) before it
        okall = pl.id not in live and cfg.exit not in live and all(
            cfg.node(i).ast is None or fa.inside(cfg.node(i).ast, pl.ast) for i in live)
        ck.ob(R, fa.key(pl.ast, "every-parent-entry"), okall, "every parent entry is copied into the merged index" if okall else
              "an iteration of the parent loop can skip `index[k] = ...` (continue / early exit): such parent-only keys disappear from the stored child", fa.where(pl.ast))
    refs = []
    okr = PDS is not None and PIDX is not None
    for n in ro["parent_passes"]:
        (_idx, _k, v_) = _loop_vars(n.ast)
        for c in A.calls_in(n.ast):
            if A.call_attr(c) != "reference":
                continue
            refs.append(c)
            okr = okr and v_ is not None and len(c.args) == 3 and A.norm(c.args[0]) == PDS and \
                [fa.xnorm(a, fa.nodes(c)[0]) for a in c.args[1:]] == ["%s.content_key" % v_] * 2
            # every entry is referenced: no iteration starts the next one or leaves the loop before the call
            starts = [d for (d, l) in cfg.succ[n.id] if l == "T"]
            # (an entry whose content key is None -- a null value, nothing is stored for it -- has nothing to reference)

            def _not_null_entry(a, b, l, v_=v_):
                if l == "exc":
                    return False
                nd = cfg.node(a)
                if nd.kind == "test" and l in ("T", "F") and isinstance(nd.ast, ast.Compare):
                    (txt, pol) = fa._literal(nd.ast, a, l == "T")
                    if pol and txt == "%s.content_key is None" % v_:
                        return False
                return True
            live = cfg.reach(starts, removed=fa.nodes(c), edge_ok=_not_null_entry)
            okr = okr and n.id not in live and cfg.exit not in live
    okr = okr and bool(refs)
    if okr:
        # the data source named is the parent's own: on every path into the loop body, the index iterated and the
        # data source referenced were read off the parent object as a pair (stored form: its index and its data
        # source; a serialised in-memory / on-disk object: what store() recorded on it)
        pairs = {("_index", "_data_source"), _remembered_pair(fa, INDEX)}
        for (_t, _lits, tr) in PM.walk(fa, fa.nodes(refs[0])[:1]):
            di = dd = None
            for i in tr:
                nd = cfg.node(i)
                if nd.kind == "stmt" and isinstance(nd.ast, (ast.Assign, ast.AnnAssign)):
                    for (t, v) in PM._flat_targets(nd.ast):
                        if isinstance(t, ast.Name) and t.id == PIDX:
                            di = (v, i)
                        if isinstance(t, ast.Name) and t.id == PDS:
                            dd = (v, i)
            if di is not None and di[0] is not None and A.norm(di[0]) in ("{}", "dict()"):
                continue  # an empty default: the body is not entered on this path
            upto = lambda i: tr[:tr.index(i)] if i in tr else tr
            xi = A.norm(PM._strip_casts(_on_trail(fa, fa.expand(di[0], di[1]), di[1], upto(di[1]), (MP,)))) if di and di[0] is not None else ""
            xd = A.norm(PM._strip_casts(_on_trail(fa, fa.expand(dd[0], dd[1]), dd[1], upto(dd[1]), (MP,)))) if dd and dd[0] is not None else ""
            ga = re.compile(r"getattr\(%s, '(\w+)'(, None)?\)" % re.escape(MP))
            xi, xd = ga.sub(MP + r".\1", xi), ga.sub(MP + r".\1", xd)
            mi, md = re.fullmatch(re.escape(MP) + r"\.(\w+)", xi), re.fullmatch(re.escape(MP) + r"\.(\w+)", xd)
            if not (mi and md and (mi.group(1), md.group(1)) in pairs):
                okr = False
    ck.ob(R, fa.key(pl.ast, "parent-referenced"), okr, "inherited objects are referenced in the target data source" if okr else
          "inherited objects are not referenced from the parent's data source", fa.where(pl.ast))
    # own keys
    # (under calls that only copy / order the listing, wherever they are applied)
    it = PM.strip_order(PM._strip_casts(fa.expand(PM.strip_order(ol.ast.iter), ol.id)))
    okk = A.norm(it) in ("obj.list_keys(_include_merge_parent=False)", "obj.list_keys(False)")
    ck.ob(R, fa.key(None, "own-keys-only"), okk, "only the partition's own keys are re-stored" if okk else
          "own keys are not taken from obj.list_keys(_include_merge_parent=False): parent data is re-stored or own keys are missed", fa.where())
    LK = A.norm(ol.ast.target)
    GET = "obj.get(%s)" % LK
    TYP = "ResultType.from_object(%s)" % GET
    ost = _index_stores(fa, ol.ast, INDEX)
    okoe = len(ost) == 1 and len(PM.entries_in(ol.ast, fields)) == 1
    if okoe:
        ent = _entry_at(fa, ost[0].value, fa.nodes(ost[0])[0], fields)
        okoe = ent is not None and ent.get("from_parent") == "False" and ent.get("result_type") == TYP \
            and ent.get("content_key", "").startswith("self._codec.store(%s, data_source, " % TYP) and A.norm(ost[0].targets[0].slice) == LK
    ck.ob(R, fa.key(ol.ast, "own-entries"), okoe, "own entries are recorded under their key with from_parent=False" if okoe else
          "own entries are not recorded as (result_type, stored key, from_parent=False) under their own key", fa.where(ol.ast))
    # every own key is layered on top: no iteration of the own loop starts the next one or leaves the loop before the
    # entry is put into the index (skipping a key the parent also has lets the parent's entry win)
    if ost:
        starts = [d for (d, l) in cfg.succ[ol.id] if l == "T"]
        live = cfg.reach(starts, removed=fa.nodes(ost[0]), edge_ok=lambda a, b, l: l != "exc")
        okeach = ol.id not in live and cfg.exit not in live and all(cfg.node(i).ast is None or fa.inside(cfg.node(i).ast, ol.ast) for i in live)
        ck.ob(R, fa.key(ol.ast, "every-own-key"), okeach, "every own key is stored and entered into the merged index" if okeach else
              "an iteration of the own-keys loop can skip `index[k] = ...` (continue / early exit): for such a key the parent's entry, if any, is "
              "what the stored partition answers with -- own keys no longer win", fa.where(ol.ast))
    # value stored is the value classified: fetched once per key, classified, stored under that type
    gets = [c for c in A.calls_in(ol.ast) if A.call_attr(c) == "get" and A.norm(A.call_recv(c)) == "obj"]
    st = [c for c in A.calls_in(ol.ast) if A.call_attr(c) == "store"]
    okv = len(gets) == 1 and A.norm(gets[0]) == GET and len(st) == 1 and len(st[0].args) >= 4
    if okv:
        at = fa.nodes(st[0])[0]
        okv = fa.xnorm(st[0].args[0], at) == TYP and fa.xnorm(st[0].args[3], at) == GET
    ck.ob(R, fa.key(ol.ast, "value-per-key"), okv, "each key's value is fetched, classified and stored under its own type" if okv else
          "the per-key value is not (get(k) -> from_object -> codec.store) consistently", fa.where(ol.ast))
    # the same index is what is serialised, after both loops
    ser = [c for c in fa.calls("_serialize_index")]
    oks = len(ser) == 1 and [A.norm(a) for a in ser[0].args] == [INDEX] and all(cfg.must_pass([ol.id], i) for i in fa.nodes(ser[0])) \
        and bool(pst) and bool(ost)
    ck.ob(R, fa.key(None, "one-index"), oks, "the merged index is serialised after both loops" if oks else
          "the serialised index is not the merged `index` built by both loops", fa.where())


# ---- what an accessor returns, as a set of key sources ---------------------------------------------------

class _Filt:
    """A comprehension filter over an own map: the `if`s, the key variable, the value variable (or None)."""

    def __init__(self, ifs, keyvar, valvar, field, comp=None, unpacked=None):
        self.ifs, self.keyvar, self.valvar, self.field = ifs, keyvar, valvar, field
        # the comprehension itself (its filter may mention locals of the function) and, when the entry is taken apart
        # in the target (`for k, (t, c, inherited) in m.items()`), {name: position of the field it is bound to}
        self.comp, self.unpacked = comp, unpacked or {}

    def __repr__(self):
        return "if " + " and ".join(A.norm(i) for i in self.ifs)


def _one(tok):
    return (frozenset([tok]), False)


_DUP = ("dup",)  # the collection may hold the same key twice (two listings put end to end, never made a set)


def _uniq(srcs):
    return frozenset(t for t in srcs if t != _DUP)


def _joined(a, b):
    """Sources of two collections put end to end (list + list, extend): a key in both is there twice."""
    return (a | b | frozenset([_DUP])) if (_uniq(a) and _uniq(b)) else (a | b)


def _kv(e, env):
    """Abstract value of a key-collection expression: (frozenset of sources, sorted?).  Sources:
    ('own', field, filter-or-None) the keys of self.<field>; ('parent',) the merge parent's full listing;
    ('parent-partial',) a restricted listing of it; ('parentobj',) the merge parent itself; ('?', text)."""
    if isinstance(e, ast.Name):
        return env.get(e.id, _one(("?", e.id)))
    if isinstance(e, ast.Attribute):
        f = self_attr(e)
        if f == PARENT_ATTR:
            return _one(("parentobj",))
        if f:
            return _one(("own", f, None))
        return _one(("?", A.norm(e)))
    if isinstance(e, ast.Call):
        name, recv = A.call_attr(e), A.call_recv(e)
        if recv is not None and name == "keys" and not e.args and not e.keywords:
            return (_kv(recv, env)[0], False)
        if recv is not None and name == "list_keys":
            if _kv(recv, env)[0] == frozenset([("parentobj",)]):
                args = list(e.args) + [k.value for k in e.keywords]
                full = not args or (len(args) == 1 and isinstance(args[0], ast.Constant) and args[0].value is True)
                return _one(("parent",) if full else ("parent-partial",))
            return _one(("?", A.norm(e)))
        if isinstance(e.func, ast.Name) and e.func.id == "filter" and len(e.args) == 2 and not e.keywords and isinstance(e.args[0], ast.Lambda):
            # filter(lambda k: c, it) is (k for k in it if c)
            la = e.args[0].args
            if len(la.args) == 1 and not (la.posonlyargs or la.kwonlyargs or la.vararg or la.kwarg or la.defaults):
                tgt = ast.Name(id=la.args[0].arg, ctx=ast.Store())
                gen = ast.GeneratorExp(elt=ast.Name(id=la.args[0].arg, ctx=ast.Load()),
                                       generators=[ast.comprehension(target=tgt, iter=e.args[1], ifs=[e.args[0].body], is_async=0)])
                (s, so) = _kv(ast.copy_location(gen, e), env)
                for t_ in s:
                    if t_[0] == "own" and t_[2] is not None and t_[2].comp is gen:
                        t_[2].comp = e  # where it is evaluated
                return (s, so)
        if isinstance(e.func, ast.Name) and e.func.id in ("set", "frozenset", "list", "tuple", "sorted", "iter"):
            if not e.args:
                return (frozenset(), e.func.id == "sorted")
            if len(e.args) == 1:
                (s, so) = _kv(e.args[0], env)
                if e.func.id == "sorted":
                    return (s, not e.keywords)
                if e.func.id in ("list", "tuple", "iter") and not e.keywords:
                    return (s, so)
                return (_uniq(s), False)  # set / frozenset
        if recv is not None and name == "union" and not e.keywords:
            s = _kv(recv, env)[0]
            for a in e.args:
                s = s | _kv(a, env)[0]
            return (_uniq(s), False)
        if recv is not None and name == "copy" and not e.args and not e.keywords:
            return (_kv(recv, env)[0], False)
        if name == "chain" and not e.keywords and not any(isinstance(a, ast.Starred) for a in e.args):
            s = frozenset()
            for a in e.args:
                s = _joined(s, _kv(a, env)[0])
            return (s, False)
        return _one(("?", A.norm(e)))
    if isinstance(e, ast.BinOp) and isinstance(e.op, ast.BitOr):
        return (_uniq(_kv(e.left, env)[0] | _kv(e.right, env)[0]), False)
    if isinstance(e, ast.BinOp) and isinstance(e.op, ast.Add):
        left = _kv(e.left, env)[0]
        d = _new_ones_only(e.right, env, left)
        return ((left | d) if d is not None else _joined(left, _kv(e.right, env)[0]), False)
    if isinstance(e, (ast.Set, ast.List, ast.Tuple)):
        s = frozenset()
        for x in e.elts:
            s = _joined(s, _kv(x.value, env)[0] if isinstance(x, ast.Starred) else frozenset([("?", A.norm(x))]))
        return (_uniq(s) if isinstance(e, ast.Set) else s, False)
    if isinstance(e, (ast.ListComp, ast.SetComp, ast.GeneratorExp, ast.DictComp)) and len(e.generators) == 1 and not e.generators[0].is_async:
        g = e.generators[0]
        keyvar = valvar = None
        unpacked = {}
        # what is collected: the element, or the keys of a mapping built by a dict comprehension
        elt = e.key if isinstance(e, ast.DictComp) else e.elt
        if isinstance(g.iter, ast.Call) and A.call_attr(g.iter) == "items" and not g.iter.args and A.call_recv(g.iter) is not None \
                and isinstance(g.target, ast.Tuple) and len(g.target.elts) == 2 and isinstance(g.target.elts[0], ast.Name) \
                and (isinstance(g.target.elts[1], ast.Name) or (isinstance(g.target.elts[1], (ast.Tuple, ast.List))
                                                                 and all(isinstance(x, ast.Name) for x in g.target.elts[1].elts))):
            src = _kv(A.call_recv(g.iter), env)[0]
            keyvar = g.target.elts[0].id
            if isinstance(g.target.elts[1], ast.Name):
                valvar = g.target.elts[1].id
            else:
                unpacked = {x.id: i for i, x in enumerate(g.target.elts[1].elts)}
        elif isinstance(g.target, ast.Name):
            src = _kv(g.iter, env)[0]
            keyvar = g.target.id
        else:
            return _one(("?", A.norm(e)))
        if isinstance(e, (ast.SetComp, ast.DictComp)):
            src = _uniq(src)
        toks = list(src)
        if isinstance(elt, ast.Name) and elt.id == keyvar and not g.ifs and toks and not any(t[0] == "?" for t in toks):
            return (src, False)
        if isinstance(elt, ast.Name) and elt.id == keyvar and len(toks) == 1:
            if not g.ifs:
                return (src, False)
            if toks[0][0] == "own" and toks[0][2] is None:
                return _one(("own", toks[0][1], _Filt(g.ifs, keyvar, valvar, toks[0][1], e, unpacked)))
        return _one(("?", A.norm(e)))
    return _one(("?", A.norm(e)))


def _new_ones_only(arg, env, base):
    """Sources of `arg` when it is `x for x in S if x not in Y` with Y holding exactly the keys of `base` (the
    collection it is about to be put at the end of): what it contributes is S without the keys already there, so that
    no key comes twice.  None for anything else."""
    while isinstance(arg, ast.Call) and isinstance(arg.func, ast.Name) and arg.func.id in ("list", "tuple") and len(arg.args) == 1 and not arg.keywords:
        arg = arg.args[0]
    if not (isinstance(arg, (ast.ListComp, ast.GeneratorExp, ast.SetComp)) and len(arg.generators) == 1):
        return None
    g = arg.generators[0]
    if g.is_async or not isinstance(g.target, ast.Name) or not (isinstance(arg.elt, ast.Name) and arg.elt.id == g.target.id) or len(g.ifs) != 1:
        return None
    t = g.ifs[0]
    if not (isinstance(t, ast.Compare) and len(t.ops) == 1 and isinstance(t.ops[0], ast.NotIn) and isinstance(t.left, ast.Name) and t.left.id == g.target.id):
        return None
    have = _kv(t.comparators[0], env)[0]
    src = _kv(g.iter, env)[0]
    if _DUP in base or _DUP in src or any(x[0] == "?" for x in have | src) or _uniq(have) != _uniq(base) or not _uniq(base):
        return None
    return _uniq(src)


_ELEM = ("elem-of-accumulating-loop",)


def _accumulating_loop(loop, env):
    """Names of the collections a `for` loop adds EVERY element of its iterable to, when that is all the loop does:
    the body consists of `acc.add(x)` / `acc.append(x)` statements on the loop variable x only (no condition, no
    jump, no else).  [] otherwise."""
    if not isinstance(loop, ast.For) or not isinstance(loop.target, ast.Name) or loop.orelse or not loop.body:
        return []
    accs = []
    for st in loop.body:
        c = st.value if isinstance(st, ast.Expr) else None
        if not (isinstance(c, ast.Call) and isinstance(c.func, ast.Attribute) and c.func.attr in ("add", "append") and isinstance(c.func.value, ast.Name)
                and c.func.value.id in env and len(c.args) == 1 and not c.keywords and isinstance(c.args[0], ast.Name) and c.args[0].id == loop.target.id):
            return []
        accs.append(c.func.value.id)
    return accs


def _step(env, nd, value):
    """One simple statement (its value given separately, conditional expressions already decided) on the
    abstract key-collection environment."""
    st = nd.ast
    if nd.kind == "for":
        for nm in _names(st.target):
            env[nm] = _one(("?", nm))
        # `for k in S: acc.add(k)` (nothing else in the body, every element added): acc |= S, however many
        # elements S has — the loop taken zero times adds the zero elements of an empty S
        accs = _accumulating_loop(st, env)
        if accs:
            (src, _so) = _kv(st.iter, env)
            adds = {c_.value.func.value.id: c_.value.func.attr for c_ in st.body}
            for nm in accs:
                env[nm] = ((env[nm][0] | src) if adds.get(nm) == "add" else _joined(env[nm][0], src), False)
            env[st.target.id] = _one(_ELEM)
        return
    if nd.kind == "test" and st is not None:
        for x in A.walk_local(st):
            if isinstance(x, ast.NamedExpr) and isinstance(x.target, ast.Name):
                env[x.target.id] = _kv(x.value, env)
        return
    if nd.kind != "stmt":
        return
    if isinstance(st, (ast.Assign, ast.AnnAssign)):
        new = {}
        tgs = st.targets if isinstance(st, ast.Assign) else [st.target]
        for t0 in tgs:
            if isinstance(t0, (ast.Tuple, ast.List)):
                vs = value.elts if isinstance(value, (ast.Tuple, ast.List)) and len(value.elts) == len(t0.elts) else [None] * len(t0.elts)
                pairs = list(zip(t0.elts, vs))
            else:
                pairs = [(t0, value)]
            for (t, v) in pairs:
                if isinstance(t, ast.Name):
                    new[t.id] = _kv(v, env) if v is not None else _one(("?", t.id))
                elif isinstance(t, (ast.Tuple, ast.List, ast.Starred)):
                    for nm in _names(t):
                        new[nm] = _one(("?", nm))
        env.update(new)
    elif isinstance(st, ast.AugAssign) and isinstance(st.target, ast.Name):
        cur = env.get(st.target.id, _one(("?", st.target.id)))[0]
        if isinstance(st.op, ast.BitOr):
            env[st.target.id] = (_uniq(cur | _kv(value, env)[0]), False)
        elif isinstance(st.op, ast.Add):
            d = _new_ones_only(value, env, cur)
            env[st.target.id] = ((cur | d) if d is not None else _joined(cur, _kv(value, env)[0]), False)
        else:
            env[st.target.id] = (cur | frozenset([("?", A.norm(st))]), False)
    elif isinstance(st, ast.Expr) and isinstance(value, ast.Call) and isinstance(value.func, ast.Attribute) \
            and isinstance(value.func.value, ast.Name) and value.func.value.id in env:
        nm, meth, c = value.func.value.id, value.func.attr, value
        cur, so = env[nm]
        if meth in ("update", "extend") and not c.keywords:
            for a in c.args:
                d = _new_ones_only(a, env, cur) if meth == "extend" else None
                cur = (cur | _kv(a, env)[0]) if meth == "update" else (cur | d) if d is not None else _joined(cur, _kv(a, env)[0])
            env[nm] = (cur, False)
        elif meth == "sort" and not c.args and not c.keywords:
            env[nm] = (cur, True)
        elif meth in ("add", "append") and len(c.args) == 1 and not c.keywords and isinstance(c.args[0], ast.Name) and env.get(c.args[0].id) == _one(_ELEM):
            pass  # accounted for at the head of the accumulating loop
        else:
            env[nm] = (cur | frozenset([("?", A.norm(st))]), False)


def _run(fa, lits, trail):
    """Execute the simple statements of a path on the abstract key-collection environment.  A conditional
    expression in a statement splits the path: -> [(literals of the path and of the choices made, env)]."""
    states = [(list(lits), {})]
    for i in trail:
        nd = fa.cfg.node(i)
        value = getattr(nd.ast, "value", None) if nd.kind == "stmt" and isinstance(nd.ast, (ast.Assign, ast.AnnAssign, ast.AugAssign, ast.Expr)) else None
        alts = PM.split_ifexp(fa, value, i) if value is not None else [([], None)]
        nxt = []
        for (ls, env) in states:
            for (extra, val) in alts:
                if extra and not PM.consistent(ls + extra):
                    continue
                e2 = dict(env) if len(alts) > 1 else env
                _step(e2, nd, val)
                nxt.append((ls + extra, e2))
        states = nxt
    return states


def _returned(fa, path):
    """What the return at the end of `path` hands back, per way of deciding the conditional expressions on
    the path: [(literals, key sources, sorted?)]"""
    (t, lits, tr) = path
    st = fa.cfg.node(t).ast
    out = []
    for (ls, env) in _run(fa, lits, tr):
        if st.value is None:
            out.append((ls, frozenset([("?", "None")]), False))
            continue
        for (extra, val) in PM.split_ifexp(fa, st.value, t):
            if extra and not PM.consistent(ls + extra):
                continue
            (srcs, srt) = _kv(val, env)
            out.append((ls + extra, srcs, srt))
    return out


def _on_path(fa, expr, trail, at):
    """Expanded text of `expr` at the end of a path: a local with several definitions is resolved to the one
    the path passed last."""
    if isinstance(expr, ast.Name) and len(fa.df.reaching(at, expr.id)) > 1:
        for i in reversed(trail):
            nd = fa.cfg.node(i)
            if nd.kind == "stmt" and isinstance(nd.ast, (ast.Assign, ast.AnnAssign)):
                for (t, v) in PM._flat_targets(nd.ast):
                    if isinstance(t, ast.Name) and t.id == expr.id:
                        return fa.xnorm(v, i) if v is not None else expr.id
    w = PM.walrus_bindings(fa, trail)
    if w and any(isinstance(x, ast.Name) and x.id in w and not fa.df.reaching(at, x.id) for x in ast.walk(expr)):
        import copy

        class T(ast.NodeTransformer):
            def visit_Name(self, n):
                return copy.deepcopy(w[n.id]) if isinstance(n.ctx, ast.Load) and n.id in w and not fa.df.reaching(at, n.id) else n

        return fa.xnorm(T().visit(copy.deepcopy(expr)), at)
    return fa.xnorm(expr, at)


def _param(ck, fa, idx, what):
    args = fa.node.args.args
    ck.need(len(args) > idx, "%s: parameter for %s not found" % (fa.qual, what))
    return args[idx].arg


def _exit_paths(fa):
    """(paths to every return / raise, can the function fall off its end)"""
    cfg = fa.cfg
    live = cfg.reachable_nodes()
    ends = [n.id for n in cfg.nodes if n.id in live and n.kind == "stmt" and isinstance(n.ast, (ast.Return, ast.Raise))]
    falls = bool(PM.walk(fa, [cfg.exit], avoid=ends))
    return PM.walk(fa, ends), falls


def _show(srcs):
    out = []
    for t in sorted(srcs, key=repr):
        out.append({"own": lambda: "self.%s keys%s" % (t[1], "" if t[2] is None else " " + repr(t[2])), "parent": lambda: "parent.list_keys()",
                    "parent-partial": lambda: "a restricted parent listing", "parentobj": lambda: "the parent object",
                    "dup": lambda: "two listings put end to end (a key in both is listed twice)"}.get(t[0], lambda: "`%s`" % t[-1])())
    return out


def _shape_get(ck, R, cls):
    """get(key): the own value when the key is an own key, else what the merge parent answers when there is one,
    else an error — decided per exit of the function on the literals of the paths that reach it."""
    m = cls.methods.get("get")
    ck.need(m is not None, "%s.get not found" % cls.qual)
    fa = PM.view(ck, m, "accessor")
    K = _param(ck, fa, 1, "the key")
    own_re = re.compile(r"^%s in self\.(\w+)(\.keys\(\))?$" % re.escape(K))
    # `self.m.get(k, <sentinel>) is <sentinel>`: the key is NOT an own key (the sentinel is a fresh object() or a
    # module-level name, never a value a partition can hold)
    absent_re = re.compile(r"^self\.(\w+)\.get\(%s, (object\(\)|[A-Za-z_]\w*)\) is (object\(\)|[A-Za-z_]\w*)$" % re.escape(K))

    def absent(text):
        ma = absent_re.match(text)
        if not ma or ma.group(2) != ma.group(3) or ma.group(2) in ("None", "True", "False"):
            return None
        if ma.group(2) != "object()" and (fa.df.is_local(ma.group(2)) or ma.group(2) in fa.fi.params):
            return None
        return ma.group(1)
    paths, falls = _exit_paths(fa)
    why = []
    if falls:
        why.append("get() can end without returning or raising")
    seen = set()
    own_fields = set()
    for (t, lits, _tr) in paths:
        st = fa.cfg.node(t).ast
        own = par = None
        other = []
        for l in lits:
            mo = own_re.match(l.text)
            if not l.live:
                other.append("(stale) " + l.text)
            elif mo and mo.group(1) != PARENT_ATTR:
                own = l.pos
                own_fields.add(mo.group(1))
            elif absent(l.text) and absent(l.text) != PARENT_ATTR:
                own = not l.pos
                own_fields.add(absent(l.text))
            elif l.text == "self." + PARENT_ATTR:
                par = l.pos
            elif l.text == "self.%s is None" % PARENT_ATTR:
                par = not l.pos
            else:
                other.append(l.text)
        if isinstance(st, ast.Raise):
            kind, want = "raise", (False, False)
        else:
            v = _on_path(fa, st.value, _tr, t) if st.value is not None else "None"
            if v == "self.%s.get(%s)" % (PARENT_ATTR, K):
                kind, want = "delegate", (False, True)
            elif PARENT_ATTR not in v:
                kind, want = "own", (True, None)
            else:
                kind, want = "other", None
        seen.add(kind)
        if want is None or other or (own, par) != want:
            why.append("`%s` is reached under %s" % (A.short(st, 50), sorted((l.text, l.pos) for l in lits)))
    for k in ("own", "delegate", "raise"):
        if k not in seen:
            why.append({"own": "no exit returns the own value", "delegate": "no exit delegates to the merge parent", "raise": "no exit raises for an unknown key"}[k])
    if len(own_fields) > 1:
        why.append("own keys tested on several maps %s" % sorted(own_fields))
    ok = not why
    ck.ob(R, fa.key(None, "get-shape"), ok, "own key first, else parent, else error" if ok else
          "get() is not 'own first, else delegate to the merge parent, else ValueError' (%s)" % "; ".join(why[:3]), fa.where())


def _shape_list(ck, R, cls):
    """list_keys(include): sorted(own keys | parent.list_keys()) when include is set and there is a parent,
    sorted(own keys) otherwise — decided per return on the key sources of the returned value."""
    m = cls.methods.get("list_keys")
    ck.need(m is not None, "%s.list_keys not found" % cls.qual)
    fa = PM.view(ck, m, "collections")
    INC = _param(ck, fa, 1, "_include_merge_parent")
    paths, falls = _exit_paths(fa)
    why = []
    if falls:
        why.append("can end without returning")
    own_fields = set()
    with_parent = without = False
    for path in paths:
        st = fa.cfg.node(path[0]).ast
        if isinstance(st, ast.Raise):
            why.append("raises `%s`" % A.short(st, 40))
            continue
        for (lits, srcs, srt) in _returned(fa, path):
            inc, par = _pol(lits, INC), _truthy(lits, "self." + PARENT_ATTR)
            own = {s for s in srcs if s[0] == "own" and s[2] is None}
            own_fields |= {s[1] for s in own}
            if inc is True and par is True:
                with_parent = True
                good = len(own) == 1 and srcs - own == {("parent",)}
            elif inc is False or par is False:
                without = True
                good = len(own) == 1 and srcs == own
            else:
                good = False
            if not good or not srt:
                why.append("under %s it returns %s%s" % (sorted((l.text, l.pos) for l in lits), _show(srcs), "" if srt else ", not sorted"))
    if not with_parent:
        why.append("no return for `%s and self.%s`" % (INC, PARENT_ATTR))
    if not without:
        why.append("no return for the case without parent")
    if len(own_fields) > 1:
        why.append("own keys taken from several maps %s" % sorted(own_fields))
    ok = not why
    ck.ob(R, fa.key(None, "list-shape"), ok, "union of parent and own keys, sorted; own keys only otherwise" if ok else
          "list_keys() is not 'sorted union of parent and own keys, or sorted own keys' (%s)" % "; ".join(why[:3]), fa.where())


def _bool_leaves(e, out):
    """The atoms of a boolean expression: what is left once and / or / not / conditional expressions / bool(...) /
    comparisons with True / False are taken apart."""
    if isinstance(e, ast.Constant):
        return
    if isinstance(e, ast.UnaryOp) and isinstance(e.op, ast.Not):
        return _bool_leaves(e.operand, out)
    if isinstance(e, ast.BoolOp):
        for v in e.values:
            _bool_leaves(v, out)
        return
    if isinstance(e, ast.IfExp):
        for v in (e.test, e.body, e.orelse):
            _bool_leaves(v, out)
        return
    if isinstance(e, ast.Call) and isinstance(e.func, ast.Name) and e.func.id == "bool" and len(e.args) == 1 and not e.keywords:
        return _bool_leaves(e.args[0], out)
    if _flag_compare(e) is not None:
        return _bool_leaves(e.left, out)
    out.append(e)


def _flag_compare(e):
    """`x is True` / `x == False` / `x is not True` / `x != False` on a flag -> does it hold when x is true?  (None: another expression)"""
    if isinstance(e, ast.Compare) and len(e.ops) == 1 and isinstance(e.comparators[0], ast.Constant) and isinstance(e.comparators[0].value, bool):
        if isinstance(e.ops[0], (ast.Is, ast.Eq)):
            return e.comparators[0].value
        if isinstance(e.ops[0], (ast.IsNot, ast.NotEq)):
            return not e.comparators[0].value
    return None


def _bool_value(e, val):
    """Value of a boolean expression when its atoms take the truth values `val(atom)`."""
    if isinstance(e, ast.Constant):
        return bool(e.value)
    if isinstance(e, ast.UnaryOp) and isinstance(e.op, ast.Not):
        return not _bool_value(e.operand, val)
    if isinstance(e, ast.BoolOp):
        vs = [_bool_value(v, val) for v in e.values]
        return all(vs) if isinstance(e.op, ast.And) else any(vs)
    if isinstance(e, ast.IfExp):
        return _bool_value(e.body, val) if _bool_value(e.test, val) else _bool_value(e.orelse, val)
    if isinstance(e, ast.Call) and isinstance(e.func, ast.Name) and e.func.id == "bool" and len(e.args) == 1 and not e.keywords:
        return _bool_value(e.args[0], val)
    fc = _flag_compare(e)
    if fc is not None:
        return _bool_value(e.left, val) == fc
    return val(e)


def _entry_of_key(x, flt):
    """Does `x` denote the entry the own map holds for the key at hand?  (the value variable of `.items()`,
    `self.m[k]`, `self.m.get(k)`)"""
    if isinstance(x, ast.Name):
        return flt.valvar is not None and x.id == flt.valvar
    own = "self." + flt.field
    if isinstance(x, ast.Subscript):
        return A.norm(x.value) == own and A.norm(x.slice) == flt.keyvar
    if isinstance(x, ast.Call) and A.call_attr(x) == "get" and len(x.args) == 1 and not x.keywords and A.call_recv(x) is not None:
        return A.norm(A.call_recv(x)) == own and A.norm(x.args[0]) == flt.keyvar
    return False


def _is_inherited_flag(x, flt, fields):
    """Is `x` the from_parent mark of the entry of the key at hand?  (`<entry>.from_parent`, getattr(<entry>, 'from_parent'),
    `<entry>[position of the field]`, the name the field is bound to when the entry is unpacked in the comprehension target)"""
    pos = fields.index("from_parent") if "from_parent" in fields else None
    if isinstance(x, ast.Attribute):
        return x.attr == "from_parent" and _entry_of_key(x.value, flt)
    if isinstance(x, ast.Call) and isinstance(x.func, ast.Name) and x.func.id == "getattr" and len(x.args) == 2 and not x.keywords:
        return A.const_str(x.args[1]) == "from_parent" and _entry_of_key(x.args[0], flt)
    if isinstance(x, ast.Subscript) and isinstance(x.slice, ast.Constant) and isinstance(x.slice.value, int) and not isinstance(x.slice.value, bool) and pos is not None:
        return x.slice.value in (pos, pos - len(fields)) and _entry_of_key(x.value, flt)
    if isinstance(x, ast.Name) and x.id in flt.unpacked and pos is not None:
        return flt.unpacked[x.id] == pos and len(flt.unpacked) == len(fields)
    return False


def _filter_keeps(fa, flt, path, INC, inc, fields):
    """Does the filter of a listing of the own map keep exactly the keys it should -- every key when the caller asks for
    inherited entries too (`inc`), the keys whose entry is not marked from_parent otherwise?  Decided on the truth table
    of the filter over its atoms (the flag, the mark, anything else it may mention: the outcome must not depend on it),
    locals read through the values the path gave them."""
    (t, _lits, tr) = path
    test = flt.ifs[0] if len(flt.ifs) == 1 else ast.BoolOp(op=ast.And(), values=list(flt.ifs))
    bound = {flt.keyvar} | ({flt.valvar} if flt.valvar else set()) | set(flt.unpacked)
    ids = fa.nodes(flt.comp) if flt.comp is not None else []
    try:
        test = _on_trail(fa, test, ids[0] if ids else t, list(tr), tuple(bound))
    except Exception:  # noqa
        pass
    leaves = []
    _bool_leaves(test, leaves)
    kinds = {}
    for x in leaves:
        txt = A.norm(x)
        if isinstance(x, ast.Name) and x.id == INC:
            kinds[txt] = "inc"
        elif _is_inherited_flag(x, flt, fields):
            kinds[txt] = "fp"
        else:
            kinds[txt] = "?"
    free = sorted(k for k, v in kinds.items() if v == "?")
    if len(free) > 6:
        return False
    import itertools
    for fp in (True, False):
        for other in itertools.product((True, False), repeat=len(free)):
            table = dict(zip(free, other))

            def val(x):
                k = kinds[A.norm(x)]
                return inc if k == "inc" else fp if k == "fp" else table[A.norm(x)]

            if _bool_value(test, val) != (inc or not fp):
                return False
    return True


def _stored_form_filter(ck, R):
    """PicklePartition.list_keys(include): every key of the index when include is set, the keys whose entry is
    not marked from_parent otherwise; sorted."""
    lk = PM.view(ck, PM.PICKLE_PARTITION + ".list_keys", "collections")
    INC = _param(ck, lk, 1, "_include_merge_parent")
    fields = PM.entry_type_fields(ck)
    paths, falls = _exit_paths(lk)
    ok = bool(paths) and not falls
    seen = set()
    for path in paths:
        st = lk.cfg.node(path[0]).ast
        if isinstance(st, ast.Raise) or st.value is None:
            ok = False
            continue
        for (lits, srcs, srt) in _returned(lk, path):
            toks = list(srcs)
            if not (srt and len(toks) == 1 and toks[0][0] == "own"):
                ok = False
                continue
            flt = toks[0][2]
            inc = _pol(lits, INC)
            for w in ([inc] if inc is not None else [True, False]):
                seen.add(w)
                if flt is None:
                    ok = ok and w  # the whole index: right only when inherited entries are asked for
                else:
                    ok = ok and _filter_keeps(lk, flt, path, INC, w, fields)
    ok = ok and seen == {True, False}
    ck.ob(R, lk.key(None, "stored-form-filter"), ok, "without parents, the stored form lists only entries not marked from_parent" if ok else
          "PicklePartition.list_keys(_include_merge_parent=False) does not filter out inherited entries: a re-stored child duplicates parent data as own", lk.where())


def check_siblings(ck, R):
    ck.rule(R, "sibling agreement: every staging partition class answers get/list_keys as 'own first, else parent, else "
               "error' and 'sorted union'; the stored form filters inherited entries on request", 5)
    for cls in PM.partition_classes(ck):
        if cls.qual == PM.PICKLE_PARTITION:
            continue
        _shape_get(ck, R, cls)
        _shape_list(ck, R, cls)
    _stored_form_filter(ck, R)


def _texts_through_locals(fn_node, expr):
    """Normalised text of `expr` together with the texts of what the names in it are assigned anywhere in the function
    (nested helpers included; flow-insensitive, a few levels deep): enough to tell WHICH codec an entry field goes
    through however many temporaries sit in between."""
    assigned = {}
    for n in ast.walk(fn_node):
        if isinstance(n, (ast.Assign, ast.AnnAssign)):
            for (t, v) in PM._flat_targets(n):
                if isinstance(t, ast.Name) and v is not None:
                    assigned.setdefault(t.id, []).append(v)
    out, todo, seen = [], [expr], set()
    for _level in range(4):
        nxt = []
        for e in todo:
            out.append(A.norm(e))
            for x in ast.walk(e):
                if isinstance(x, ast.Name) and x.id in assigned and x.id not in seen:
                    seen.add(x.id)
                    nxt += assigned[x.id]
        todo = nxt
    return " ; ".join(out)


def check_index_tables(ck, R):
    ck.rule(R, "index table agreement: the serialised index entry has exactly the fields the deserialiser reads and "
               "the in-memory entry type declares", 2)
    se = FA(ck, PM.PICKLE_PARTITION + "._serialize_index")
    de = FA(ck, PM.PICKLE_PARTITION + "._deserialize_index")
    enc = {}
    # the record written per entry, whichever way it is put together (nested helpers of the function included)
    for n in ast.walk(se.node):
        if isinstance(n, ast.Dict):
            for k, v in zip(n.keys, n.values):
                if A.const_str(k):
                    enc.setdefault(A.const_str(k), []).append(v)
        elif isinstance(n, ast.Call) and isinstance(n.func, ast.Name) and n.func.id == "dict" and n.keywords and not n.args:
            # dict(result_type=..., ...)
            for k in n.keywords:
                if k.arg:
                    enc.setdefault(k.arg, []).append(k.value)
        elif isinstance(n, ast.Assign) and len(n.targets) == 1 and isinstance(n.targets[0], ast.Subscript) and A.const_str(n.targets[0].slice):
            # entry["result_type"] = ...
            enc.setdefault(A.const_str(n.targets[0].slice), []).append(n.value)
    dec = set()
    # the per-entry variable: any name bound by a loop / comprehension over the decoded mapping, or the parameter
    # of a nested helper that decodes one entry
    ev = set()
    for n in ast.walk(de.node):
        if isinstance(n, (ast.comprehension, ast.For)):
            ev |= {x.id for x in ast.walk(n.target) if isinstance(x, ast.Name)}
        if isinstance(n, (ast.FunctionDef, ast.Lambda)) and n is not de.node:
            ev |= {a.arg for a in n.args.args + n.args.posonlyargs + n.args.kwonlyargs}
    for n in ast.walk(de.node):
        if isinstance(n, ast.Subscript) and isinstance(n.ctx, ast.Load) and A.const_str(n.slice) and A.norm(n.value) in ev:
            dec.add(A.const_str(n.slice))
        if isinstance(n, ast.Call) and A.call_attr(n) == "get" and A.call_recv(n) is not None and A.norm(A.call_recv(n)) in ev and n.args and A.const_str(n.args[0]):
            dec.add(A.const_str(n.args[0]))
    fields = set(PM.entry_type_fields(ck))
    ok = set(enc) == dec == fields and bool(enc)
    ck.ob(R, se.key(None, "entry-fields"), ok, "index entries carry %s on both sides" % sorted(enc) if ok else
          "index entry fields differ: written %s, read %s, declared %s" % (sorted(enc), sorted(dec), sorted(fields)), se.where())
    ctor = [PM.entry_fields(c, PM.entry_type_fields(ck)) for c in ast.walk(de.node) if isinstance(c, ast.Call) and A.call_attr(c) == PM.ENTRY_TYPE]
    ef = ctor[0] if len(ctor) == 1 else None
    okc = ef is not None and "ResultType[" in _texts_through_locals(de.node, ef["result_type"]) \
        and "decode_versioned_data_source_key" in _texts_through_locals(de.node, ef["content_key"])
    # written: the type by its name, the content key through the versioned-key codec
    encn = bool(enc.get("result_type")) and all(".name" in _texts_through_locals(se.node, v) for v in enc.get("result_type", [])) \
        and bool(enc.get("content_key")) and all("encode_versioned_data_source_key" in _texts_through_locals(se.node, v) for v in enc.get("content_key", []))
    ck.ob(R, de.key(None, "entry-codecs"), okc and encn, "type is written by name and read by name; keys use the versioned-key codec both ways" if okc and encn else
          "index entry encoding and decoding do not use matching codecs", de.where())


def check_truthiness(ck, R):
    """`if merge_parent:` / `if self._merge_parent:` test the object's truth value.  That is only
    'is there a parent' as long as no Partition class defines __len__ / __bool__."""
    sized = [c for c in PM.partition_classes(ck) + [ck.repo.cls("partition.Partition")] if "__len__" in c.methods or "__bool__" in c.methods]
    tests = []
    for q in [PM.STORE] + [c.qual + "." + m for c in PM.partition_classes(ck) for m in ("get", "list_keys") if m in c.methods]:
        f = ck.repo.try_func(q)
        if f is None:
            continue
        fx = FA(ck, f)
        # a local that holds the merge parent counts like the attribute itself
        holders = {t.id for s_ in fx.stmts(ast.Assign) for t in s_.targets if isinstance(t, ast.Name) and A.norm(s_.value) in ("self." + PARENT_ATTR, "obj." + PARENT_ATTR)}
        for n in fx.cfg.nodes:
            if n.kind == "test":
                for a in A.conj_atoms(n.ast) if not isinstance(n.ast, ast.BoolOp) or isinstance(n.ast.op, ast.And) else A.test_atoms(n.ast):
                    while isinstance(a, ast.UnaryOp) and isinstance(a.op, ast.Not):
                        a = a.operand
                    if A.norm(a) in ("merge_parent", "self." + PARENT_ATTR, "obj." + PARENT_ATTR) or (isinstance(a, ast.Name) and a.id in holders):
                        tests.append((fx, a))
    ok = not sized or not tests
    ck.ob(R, "partition::merge-parent-truthiness", ok,
          "%d truthiness tests of a merge parent; no Partition class defines __len__/__bool__" % len(tests) if ok else
          "%s define(s) __len__/__bool__, and %d sites test a merge parent by truth value (e.g. %s): a parent with no own keys counts as "
          "'no parent', so a chain a <- b(empty) <- c loses a's keys" % ([c.name for c in sized], len(tests), tests[0][0].qual),
          A.loc(sized[0], sized[0].node) if sized else "")


def check_parent_objects_brought_over(ck, R):
    """The index of a merged partition names the parent's stored objects by their versioned keys and the child is read back
    from its OWN data source.  `reference(src_data_source, src_key, target_key)` is what the store loop calls for each of
    them: in a data source that keeps objects in a place of its own (the filesystem) it has to bring over an object that
    lives in another data source -- read it from `src_data_source` and put it under `target_key` -- and may skip that only
    when the source is this very data source or the object is already there (D45)."""
    ck.rule(R, "a data source asked to reference an object of another data source brings it over", 1)
    n = 0
    for cls in ck.repo.all_classes():
        m = cls.methods.get("reference")
        if m is None or len(m.params) < 4 or not any(b.split(".")[-1] == "DataSource" for b in cls.base_exprs):
            continue
        n += 1
        fa = FA(ck, m)
        src, skey = m.params[1], m.params[2]
        reads = [c for c in fa.calls() if A.call_attr(c) in ("input_versioned", "input_nonversioned") and A.norm(A.call_recv(c)) == src
                 and c.args and fa.nodes(c) and fa.xnorm(c.args[0], fa.nodes(c)[0]) == skey]
        ok = False
        why = "does nothing with the object"
        for c in reads:
            # the conditions under which the read is reached, per path (a verdict kept in a local is read through the
            # value the path gave it)
            conds = [[(l.text, l.pos) for l in lits] for (_t, lits, _tr) in PM.walk(fa, fa.nodes(fa.stmt_of(c))[:1])]
            def excused(txt, pol):
                same = ("%s is self" % src) in txt or ("self is %s" % src) in txt
                there = "exists" in txt
                if (same or there) and not pol:
                    return True
                # a null value has no stored object: `<key parameter> is None` was tested and found false on this path
                return (not pol) and any(txt == "%s is None" % p_ for p_ in m.params[2:4])
            if conds and all(all(excused(t, p_) for (t, p_) in conj) for conj in conds):
                ok = True
            else:
                why = "reads the object only under %s" % sorted({("" if p_ else "not ") + t for conj in conds for (t, p_) in conj if not excused(t, p_)})[:3]
        ck.ob(R, fa.key(None, "brings-over"), ok, "an object of another data source is read from it and stored here" if ok else
              "%s.reference %s: a partition merged onto a parent produced in another store is written with an index that points at objects its own "
              "store does not have; read back, it lists the parent-only keys and fails to load them" % (cls.name, why), fa.where())
        # a null value has no stored object: the store loop hands its (absent) content key to reference() like any other, so an
        # implementation that looks at the keys must not look into a None (D52) -- unless every caller filters them out
        keys = set(m.params[2:4])
        uses = []
        for x in A.walk_body(fa.node):
            if isinstance(x, ast.Attribute) and isinstance(x.value, ast.Name) and x.value.id in keys and isinstance(x.ctx, ast.Load):
                uses.append(x)
            if isinstance(x, ast.Call) and A.call_recv(x) is not None and A.norm(A.call_recv(x)) in ("self", src) and A.call_attr(x) not in ("format",) \
                    and any(isinstance(a, ast.Name) and a.id in keys for a in list(x.args) + [k.value for k in x.keywords]):
                uses.append(x)
        bad = None
        for x in uses:
            st = fa.stmt_of(x)
            if st is None or not fa.nodes(st):
                continue
            used = {a.id for a in ast.walk(x) if isinstance(a, ast.Name) and a.id in keys}
            conds = fa.conditions(st)
            if conds is None or not all(all(("%s is None" % k_, False) in conj for k_ in used) for conj in conds):
                bad = x
                break
        okn = bad is None or _callers_filter_null_keys(ck)
        ck.ob(R, fa.key(None, "null-value-has-no-object"), okn, "the keys are looked into only once they are known not to be None" if okn else
              "%s.reference looks into its key (`%s`) without having excluded None: a merge parent that holds a None value (which has no content "
              "key) makes the child's store raise AttributeError out of the call" % (cls.name, A.short(bad, 60)), fa.where(bad))
    ck.need(n >= 1, "no DataSource implementation with a reference() method found")


def _callers_filter_null_keys(ck) -> bool:
    """Every `<data source>.reference(src, k, k2)` call in the package is reached only with k / k2 tested not to be None."""
    sites = 0
    for fi in ck.repo.all_funcs():
        for c in A.walk_body(fi.node):
            if isinstance(c, ast.Call) and A.call_attr(c) == "reference" and len(c.args) == 3:
                fa = FA(ck, fi)
                if not fa.nodes(c):
                    continue
                sites += 1
                conds = fa.conditions(fa.stmt_of(c))
                ks = [fa.xnorm(a, fa.nodes(c)[0]) for a in c.args[1:]]
                if conds is None or not all(all(("%s is None" % k_, False) in conj for k_ in ks) for conj in conds):
                    return False
    return sites > 0


# ---- R9: what one store() call computes travels with the object being stored, never on the strategy ------------

def _place(fa, target, at):
    """Where an assignment target lives: ('param', name, attr) an attribute / item of an object the caller handed
    in, ('shared', text) the strategy object itself, something reached through it, a class or a module-level name,
    ('local', text) an object this call made, None for a plain local name."""
    if isinstance(target, ast.Name):
        for s in fa.stmts((ast.Global, ast.Nonlocal)):
            if target.id in s.names:
                return ("shared", "the module-level name `%s`" % target.id)
        return None
    if isinstance(target, ast.Starred):
        return _place(fa, target.value, at)
    root = target
    while isinstance(root, (ast.Attribute, ast.Subscript)):
        root = root.value
    text = A.norm(target)
    if isinstance(root, ast.Call):
        # type(self).x / self.__class__ ... / something().x
        inner = A.norm(root)
        return ("shared", "`%s`" % text) if "self" in _names(root) or "cls" in _names(root) else ("local", inner)
    if not isinstance(root, ast.Name):
        return ("local", text)
    if not fa.df.is_local(root.id):
        return ("shared", "`%s` (reached through the module-level / class name `%s`)" % (text, root.id))
    try:
        x = fa.xnorm(root, at)
    except Exception:  # noqa
        x = root.id
    head = x.split(".")[0].split("[")[0].split("(")[0]
    if head in ("self", "cls") or x.startswith(("type(self)", "self.__class__")):
        return ("shared", "`%s` (the strategy object, one per codec, shared by every call)" % text)
    if head in fa.fi.params and x == head:
        return ("param", head, target.attr if isinstance(target, ast.Attribute) and target.value is root else None)
    if head in fa.fi.params:
        return ("param", head, None)
    return ("local", text)


def _writes(fa):
    """[(statement, target, value, cfg node)] for every binding a function makes other than to a plain local:
    assignment targets (tuple targets paired with tuple values) and setattr(o, 'a', v)."""
    out = []
    for s in fa.stmts((ast.Assign, ast.AnnAssign, ast.AugAssign)):
        ids = fa.nodes(s)
        if not ids:
            continue
        pairs = PM._flat_targets(s) if not isinstance(s, ast.AugAssign) else [(s.target, s.value)]
        for (t, v) in pairs:
            out.append((s, t, v if v is not None else getattr(s, "value", None), ids[0]))
    for s in fa.stmts(ast.Expr):
        c = s.value
        if isinstance(c, ast.Call) and isinstance(c.func, ast.Name) and c.func.id == "setattr" and len(c.args) == 3 and A.const_str(c.args[1]) and fa.nodes(s):
            t = ast.copy_location(ast.Attribute(value=c.args[0], attr=A.const_str(c.args[1]), ctx=ast.Store()), c)
            out.append((s, t, c.args[2], fa.nodes(s)[0]))
    return out


def _lazy_init(fa, stmt, target):
    """`if self.x is None: self.x = <something that does not depend on the call's arguments>`"""
    conds = fa.conditions(stmt)
    txt = A.norm(target)
    return bool(conds) and all(("%s is None" % txt, True) in c for c in conds)


def _strategy_classes(ck):
    base = ck.repo.try_cls("storage_base.Codec.Strategy")
    ck.need(base is not None, "storage_base.Codec.Strategy not found")
    return ck.repo.subclasses(base, strict=False)


def _attrs_read_off(fa, expr, at, param):
    """Attributes of `param` that the value of `expr` is read from: p.a (through aliases), getattr(p, 'a'[, d])."""
    out = set()
    for a in fa.deps(expr, at):
        if a.startswith("attr:%s." % param):
            out.add(a[len("attr:%s." % param):].split(".")[0])
    try:
        e = fa.expand(expr, at)
    except Exception:  # noqa
        e = expr
    for x in ast.walk(e):
        if isinstance(x, ast.Call) and isinstance(x.func, ast.Name) and x.func.id == "getattr" and len(x.args) in (2, 3) and A.norm(x.args[0]) == param \
                and A.const_str(x.args[1]):
            out.add(A.const_str(x.args[1]))
    return out


def check_call_state_travels_with_object(ck, R):
    """There is ONE strategy object per result type and codec, i.e. per storage backend: every store() call of every
    thread goes through it, and storing a partition whose values are partitions re-enters it.  What a call computes
    for the object at hand (the serialised merged index, on its way from store() to encode()) therefore travels
    with that object or as an argument; parked on the strategy (or anything reached through it, a class, a module
    variable) it is overwritten by the next call and the index of ANOTHER partition is written as this one's."""
    ck.rule(R, "what a store() call computes for one partition (the serialised merged index handed from store() to encode()) is carried by the "
               "object being stored or passed as an argument, never kept on the shared strategy object", 3)
    # (a) no strategy method other than the constructor assigns state of the strategy that a strategy method reads
    classes = _strategy_classes(ck)
    read_fields = set()
    for cls in classes:
        for m in cls.methods.values():
            for x in A.walk_body(m.node):
                f = self_attr(x) if isinstance(x, ast.Attribute) and isinstance(x.ctx, ast.Load) else None
                if f:
                    read_fields.add(f)
    for cls in classes:
        bad = []
        for (name, m) in sorted(cls.methods.items()):
            if name == "__init__":
                continue
            fa = FA(ck, m)
            for (s, t, v, at) in _writes(fa):
                pl = _place(fa, t, at)
                if pl is None or pl[0] != "shared":
                    continue
                f = self_attr(t) if isinstance(t, ast.Attribute) else None
                if f is not None and f not in read_fields:
                    continue  # written, never read: cannot reach a result
                if isinstance(t, ast.Attribute) and _lazy_init(fa, s, t) and v is not None and not any(a.startswith("param:") and a != "param:self" for a in fa.deps(v, at)):
                    continue
                bad.append((fa, s, pl[1]))
        ck.ob(R, "%s::keeps-no-call-state" % cls.qual, not bad,
              "%s keeps nothing of a call on the strategy object" % cls.name if not bad else
              "%s assigns %s in the course of a call: the strategy is shared by all store / load calls of the backend (other threads, partitions "
              "nested in partitions), so the next call replaces the value before this one has used it and one result is written with another "
              "result's data" % (bad[0][0].qual, bad[0][2]), bad[0][0].where(bad[0][1]) if bad else A.loc(cls, cls.node))
    # (b) the serialised index goes from store() to the writer on the partition being stored
    fa = PM.view(ck, PM.STORE, "branches")
    OBJ = "obj"
    ck.need(OBJ in fa.fi.params, "%s: parameter `obj` (the partition being stored) not found" % fa.qual)
    sers = fa.calls("_serialize_index")
    ck.need(sers, "%s: no call of _serialize_index" % fa.qual)

    def carries(v, at):
        return v is not None and "call:_serialize_index" in fa.deps(v, at)

    carriers, parked = {}, []
    for (s, t, v, at) in _writes(fa):
        if not carries(v, at):
            continue
        pl = _place(fa, t, at)
        if pl is None or pl[0] == "local":
            continue
        if pl[0] == "param" and pl[1] == OBJ and pl[2]:
            carriers[pl[2]] = s
        else:
            parked.append((s, pl[1] if pl[0] == "shared" else "`%s` (not the partition being stored)" % A.norm(t)))
    direct = []
    for c in fa.calls():
        if c in sers or not fa.nodes(c):
            continue
        for a_ in list(c.args) + [k.value for k in c.keywords]:
            a_ = a_.value if isinstance(a_, ast.Starred) else a_
            if carries(a_, fa.nodes(c)[0]) and A.call_attr(c) not in ("setattr",):
                direct.append(c)
    ok = not parked and (bool(carriers) or bool(direct))
    ck.ob(R, fa.key(None, "index-bytes-travel-with-object"), ok,
          "the serialised index is handed on %s" % ("on the partition being stored (%s)" % sorted(carriers) if carriers else "as an argument") if ok else
          ("the serialised index of the partition being stored is put into %s: a second store() through the same strategy (another thread, "
           "another function of the cluster) replaces it before encode() has read it, and this partition is written with the other one's keys"
           % parked[0][1] if parked else "nothing hands the serialised index to the writer"),
          fa.where(parked[0][0]) if parked else fa.where(sers[0]))
    owner = fa.fi.cls
    enc = ck.repo.find_method(owner, "encode") if owner is not None else None
    if enc is None or ck.repo.is_abstract(enc):
        ck.need(bool(direct), "%s: store() parks the index for encode(), and no encode() is defined" % fa.qual)
        return
    fe = FA(ck, enc)
    ep = [p for p in fe.fi.params if p != "self"]
    ck.need(ep, "%s: parameter for the object to encode not found" % fe.qual)
    P = ep[0]
    mutable_fields = set()
    for cls in classes:
        for (name, m) in cls.methods.items():
            if name == "__init__":
                continue
            fm = FA(ck, m)
            for (_s, t, _v, _at) in _writes(fm):
                f = self_attr(t) if isinstance(t, ast.Attribute) else None
                if f:
                    mutable_fields.add(f)
    why, where = None, fe.where()
    n_ret = 0
    for r in fe.returns():
        ids = fe.nodes(r)
        if not ids or r.value is None:
            continue
        n_ret += 1
        atoms = fe.deps(r.value, ids[0])
        shared = sorted(a for a in atoms if a.startswith("attr:self.") and a[len("attr:self."):].split(".")[0] in mutable_fields)
        got = _attrs_read_off(fe, r.value, ids[0], P)
        if shared:
            why, where = "encode() returns `%s`, state of the shared strategy that store() calls overwrite, not what belongs to the object it is " \
                         "asked to encode" % shared[0][5:], fe.where(r)
        elif carriers and not (got & set(carriers)):
            if "call:_serialize_index" in atoms and ("param:" + P) in atoms:
                continue  # serialises what the object carries
            why, where = "encode() reads %s of the object while store() leaves the serialised index in %s: stale or missing bytes are written as the " \
                         "partition's index" % (sorted(got) or "nothing", sorted(carriers)), fe.where(r)
        elif not carriers and ("param:" + P) not in atoms:
            why, where = "what encode() returns (`%s`) does not come from the object it is asked to encode" % A.short(r.value, 50), fe.where(r)
    if n_ret == 0 and not direct:
        why = "encode() returns nothing"
    ck.ob(R, fe.key(None, "encode-reads-what-store-left"), why is None,
          "encode() returns what store() left on the object being stored" if why is None else why, where)


def check(ck):
    from .memo import check_new_memo_tables
    ck.run(check_call_state_travels_with_object, ck, "C17.R9")
    ck.run(check_parent_objects_brought_over, ck, "C17.R8")
    ck.run(check_new_memo_tables, ck, "C17.M1", ('partition', 'storage_base', 'storage_filesystem'))
    from .c07 import check_who_may_delete
    ck.rule("C17.R7", "partitions never delete stored objects (who may delete, shared with C07.R4)", 3)
    ck.run(check_who_may_delete, ck, "C17.R7")
    ck.run(check_truthiness, ck, "C17.R4")
    from .c11 import check_versioned_key_codec
    ck.rule("C17.R6", "index entries' versioned keys are written as key#version and split at the last '#' (partition keys may contain '#')", 2)
    ck.run(check_versioned_key_codec, ck, "C17.R6")
    ck.run(check_protocol, ck, "C17.R1")
    ck.run(check_frame_rule, ck, "C17.R2")
    ck.run(check_overlay, ck, "C17.R3")
    ck.run(check_siblings, ck, "C17.R4")
    ck.run(check_index_tables, ck, "C17.R5")
