"""C17 — partitions round-trip key by key and merge as an overlay of their parents (structural).

Decides: the merge-parent protocol holds for every Partition class (R1); store() frame rule (R2 =
C02.R6); parent-then-own overlay order into one index (R3); sibling get/list_keys agreement (R4);
index encode/decode table agreement (R5).  Per-key value equality is not decided.
"""
import ast

from .. import astutil as A
from ..fa import FA
from . import partition_model as PM
from .c02 import check_frame_rule
from .cache_model import self_attr


def _roles(fa):
    """Names of store()'s locals by role (so that the rules do not depend on how they are spelled)."""
    r = {}
    ser = fa.calls("_serialize_index")
    r["INDEX"] = ser[0].args[0].id if ser and ser[0].args and isinstance(ser[0].args[0], ast.Name) else "index"
    mp = [s_ for s_ in fa.stmts(ast.Assign) if A.norm(s_.value) == "obj._merge_parent" and isinstance(s_.targets[0], ast.Name)]
    r["MP"] = mp[0].targets[0].id if mp else "merge_parent"
    r["ploops"], r["oloops"] = [], []
    for n in fa.cfg.nodes:
        if n.kind != "for":
            continue
        flags = set()
        for c in A.calls_in(n.ast):
            if A.call_attr(c) == "_ResultTypeAndContentKey" and A.kwarg(c, "from_parent") is not None:
                flags.add(A.norm(A.kwarg(c, "from_parent")))
        if flags == {"True"}:
            r["ploops"].append(n)
        elif flags == {"False"}:
            r["oloops"].append(n)
    pl = r["ploops"][0].ast if len(r["ploops"]) == 1 else None
    r["PIDX"] = None
    r["PK"] = r["PV"] = None
    if pl is not None:
        it = pl.iter
        if isinstance(it, ast.Call) and A.call_attr(it) == "items" and isinstance(A.call_recv(it), ast.Name):
            r["PIDX"] = A.call_recv(it).id
        if isinstance(pl.target, ast.Tuple) and len(pl.target.elts) == 2:
            r["PK"], r["PV"] = A.norm(pl.target.elts[0]), A.norm(pl.target.elts[1])
    ol = r["oloops"][0].ast if len(r["oloops"]) == 1 else None
    r["KEYS"] = ol.iter.id if ol is not None and isinstance(ol.iter, ast.Name) else None
    r["PDS"] = None
    if pl is not None:
        for c in A.calls_in(pl):
            if A.call_attr(c) == "reference" and c.args and isinstance(c.args[0], ast.Name):
                r["PDS"] = c.args[0].id
    return r


def check_protocol(ck, R):
    ck.rule(R, "merge-parent protocol: for every concrete Partition class other than the stored form, the 'remember "
               "where it was written' test in store() succeeds on its declared attributes, the 'usable as parent' test "
               "can succeed, and the attributes written are the ones later read from a parent", 5)
    fa = FA(ck, PM.STORE)
    ro = _roles(fa)
    MP, INDEX = ro["MP"], ro["INDEX"]
    writes = PM.store_writes_on_obj(fa)
    remember = [(a, s, g) for (a, s, g) in writes if g is not None and "hasattr(obj" in A.norm(g.test)]
    # the parent branch (elif) that reads <merge parent>.<attrs>
    parent_ifs = [i for i in fa.stmts(ast.If) if ("hasattr(%s" % MP) in A.norm(i.test) or ("getattr(%s" % MP) in A.norm(i.test)]
    ok_shape = bool(remember) and len(parent_ifs) == 1
    ck.ob(R, fa.key(None, "merge-parent-protocol"), ok_shape, "store() has a remember-branch and a duck-typed parent branch" if ok_shape else
          "store() no longer has both the remember-output-keys branch and the duck-typed parent branch", fa.where())
    if not ok_shape:
        return
    pif = parent_ifs[0]
    parent_reads = sorted({n.attr for n in A.walk_local(ast.Module(body=pif.body, type_ignores=[])) if isinstance(n, ast.Attribute)
                           and isinstance(n.value, ast.Name) and n.value.id == MP})
    written = sorted({a for (a, s, g) in remember})
    okw = set(parent_reads) <= set(written)
    ck.ob(R, fa.key(pif, "written-is-read"), okw, "a parent is read through %s, which store() records on every serialised partition" % parent_reads if okw else
          "a merge parent is read through %s but store() records %s: an already-serialised partition cannot serve as parent" % (parent_reads, written), fa.where(pif))
    # what is remembered for later use as a parent is the MERGED index (the one that is serialised):
    # remembering only the partition's own keys drops the grandparents' keys from a chain whose
    # middle element is still the in-memory object
    ser = [c for c in fa.calls("_serialize_index")]
    rec = [(a, s_) for (a, s_, g) in remember if a in parent_reads and "keys" in a or a == "_output_keys"]
    if ser and rec:
        merged = A.norm(ser[0].args[0]) if ser[0].args else None
        for (a, s_) in rec:
            okm = A.norm(s_.value) == merged
            ck.ob(R, fa.key(s_, "remembers-merged-index"), okm,
                  "obj.%s records the merged index that is serialised" % a if okm else
                  "obj.%s records `%s` (own keys only) while `%s` is what is serialised: a child of this still-in-memory partition inherits "
                  "only its own keys, the grandparent's keys are silently dropped from the stored child" % (a, A.norm(s_.value), merged), fa.where(s_))
    # ... and it is recorded once it is COMPLETE: recording the (still empty) dict first and filling it
    # afterwards leaves a partition that claims to be serialised with a partial index when a write fails
    # half-way (or while another thread stores a child of it): the child is stored without the missing keys
    if ser and rec:
        merged = A.norm(ser[0].args[0]) if ser[0].args else None
        for (a, s_) in rec:
            later = []
            for i in fa.nodes(s_):
                for j in fa.cfg.reach([i], include_start=False):
                    nd = fa.cfg.node(j)
                    if nd.kind != "stmt" or nd.ast is None:
                        continue
                    for x in A.walk_local(nd.ast):
                        if isinstance(x, ast.Subscript) and isinstance(x.ctx, ast.Store) and A.norm(x.value) == merged:
                            later.append(nd.ast)
                        if isinstance(x, ast.Call) and isinstance(x.func, ast.Attribute) and x.func.attr in ("update", "setdefault", "pop") and A.norm(x.func.value) == merged:
                            later.append(nd.ast)
            ck.ob(R, fa.key(s_, "recorded-when-complete"), not later,
                  "obj.%s is recorded after the last write to the merged index" % a if not later else
                  "obj.%s is recorded before the merged index is filled (`%s` runs afterwards): if a value fails to be written, or another thread "
                  "stores a child of this partition meanwhile, the object passes for serialised with a partial index and the child loses the "
                  "missing keys" % (a, A.short(later[0], 50)), fa.where(s_))
    # the merged index is a fresh mapping, never an alias of a parent's live index
    idx_defs = [s_ for s_ in fa.stmts() if isinstance(s_, (ast.Assign, ast.AnnAssign)) and getattr(s_, "value", None) is not None and any(
        isinstance(t, ast.Name) and ser and t.id == A.norm(ser[0].args[0]) for t in (s_.targets if isinstance(s_, ast.Assign) else [s_.target]))]
    okfresh = bool(idx_defs) and all(A.norm(s_.value) in ("dict()", "{}") for s_ in idx_defs)
    ck.ob(R, fa.key(None, "index-is-fresh"), okfresh, "the merged index starts as a fresh dict" if okfresh else
          "the merged index is not a fresh dict (%s): building it in place mutates the parent partition object that the cache keeps serving"
          % [A.norm(s_.value) for s_ in idx_defs], fa.where())
    g_rem = remember[0][2]
    for cls in PM.partition_classes(ck):
        if cls.qual == PM.PICKLE_PARTITION:
            continue
        attrs = PM.declared_attrs(ck, cls)
        v1 = PM.eval_duck_test(g_rem.test, attrs, False, "obj")
        ck.ob(R, "%s::%s::remembers-output" % (fa.qual, cls.name), v1 is True,
              "%s passes the remember test: its output location is recorded when it is stored" % cls.name if v1 is True else
              "%s does not satisfy `%s` (declares %s): after being stored it cannot serve as a merge parent" % (cls.name, A.short(g_rem.test, 80), sorted(a for a in attrs if a.startswith("_"))),
              fa.where(g_rem))
        v2 = PM.eval_duck_test(pif.test, attrs, False, MP)
        ck.ob(R, "%s::%s::usable-as-parent" % (fa.qual, cls.name), v2 is not False,
              "%s can satisfy the parent test once stored" % cls.name if v2 is not False else
              "%s can never satisfy `%s`: a child partition with such a parent is not memoized" % (cls.name, A.short(pif.test, 80)), fa.where(pif))
        # initial values must be None so that 'never serialised' is detectable
        init = cls.methods.get("__init__")
        if init is not None:
            none_init = {self_attr(t) for s in A.all_stmts(init.node) if isinstance(s, ast.Assign) and A.is_none(s.value) for t in s.targets}
            okn = set(parent_reads) <= none_init | {a for a in parent_reads if cls.fields.get(a) is None and a in cls.fields}
            ck.ob(R, "%s::%s::starts-unserialised" % (fa.qual, cls.name), okn, "%s starts with %s unset" % (cls.name, parent_reads) if okn else
                  "%s does not initialise %s to None" % (cls.name, parent_reads), A.loc(init, init.node))
    # stored form as parent
    pp = ck.repo.cls(PM.PICKLE_PARTITION)
    pattrs = PM.declared_attrs(ck, pp)
    iso = [i for i in fa.stmts(ast.If) if ("isinstance(%s" % MP) in A.norm(i.test)]
    if iso:
        aliases = {MP} | {s_.targets[0].id for s_ in A.walk_local(ast.Module(body=iso[0].body, type_ignores=[])) if isinstance(s_, ast.Assign)
                          and isinstance(s_.targets[0], ast.Name) and fa.xnorm(s_.value, fa.nodes(s_)[0]) in (MP, "obj._merge_parent")}
        reads = sorted({n.attr for n in A.walk_local(ast.Module(body=iso[0].body, type_ignores=[])) if isinstance(n, ast.Attribute)
                        and isinstance(n.value, ast.Name) and n.value.id in aliases})
        okp = set(reads) <= pattrs
        ck.ob(R, fa.key(iso[0], "stored-form-parent"), okp, "a partition read back from the store serves as parent through %s" % reads if okp else
              "the stored-form parent branch reads %s, not all declared by PicklePartition" % reads, fa.where(iso[0]))
    # the stored form re-stored (a function returning the partition another function returned):
    # list_keys(_include_merge_parent=False) drops its inherited entries, so they must be carried
    # over from its own index
    carried = False
    for s_ in fa.stmts(ast.Assign):
        if any(isinstance(t, ast.Name) and t.id == MP for t in s_.targets) and A.norm(s_.value) == "obj":
            g = fa.enclosing(s_, ast.If)
            if g is not None and "isinstance(obj" in A.norm(g.test) and "PicklePartition" in A.norm(g.test):
                carried = True
    for lp_ in [n.ast for n in fa.cfg.nodes if n.kind == "for"]:
        if "obj._index" in A.norm(lp_.iter) and any(isinstance(x, ast.Assign) and isinstance(x.targets[0], ast.Subscript) and A.norm(x.targets[0].value) == INDEX for x in A.walk_local(lp_)):
            carried = True
    ck.ob(R, fa.key(None, "stored-form-restored"), carried, "a stored-form partition that is stored again carries its inherited entries over" if carried else
          "when the object being stored is itself the stored form (a function returning a partition it got from another memento function), only "
          "its non-inherited keys are listed and nothing copies the inherited entries of its own index: they are missing from the new entry", fa.where())
    # otherwise: I/O error (absorbed by the runner, see C08.R3)
    els = [r for r in fa.stmts(ast.Raise) if isinstance(r.exc, ast.Call) and A.call_attr(r.exc) in ("IOError", "OSError")]
    ck.ob(R, fa.key(None, "unusable-parent-signalled"), bool(els), "an unusable parent is signalled as an I/O error" if els else
          "an unusable merge parent is not signalled as an I/O error", fa.where())


def check_overlay(ck, R):
    ck.rule(R, "overlay order: the parent's index entries are copied (marked from_parent) before the partition's own "
               "keys are layered on top, own keys come from list_keys(_include_merge_parent=False), and both go into the "
               "one index that is serialised", 6)
    fa = FA(ck, PM.STORE)
    cfg = fa.cfg
    ro = _roles(fa)
    MP, INDEX, KEYS, PV, PDS = ro["MP"], ro["INDEX"], ro["KEYS"], ro["PV"], ro["PDS"]
    ploops, oloops = ro["ploops"], ro["oloops"]
    ok = len(ploops) == 1 and len(oloops) == 1
    ck.ob(R, fa.key(None, "two-loops"), ok, "parent loop and own-keys loop found" if ok else
          "store() no longer has one parent-index loop and one own-keys loop", fa.where())
    if not ok:
        return
    pl, ol = ploops[0], oloops[0]
    mp = [n.id for n in cfg.nodes if n.kind == "test" and A.norm(n.ast) in (MP, MP + " is not None")]
    # with a parent, the parent loop is passed before the own loop
    okp = bool(mp)
    if okp:
        starts = [d for t in mp for (d, l) in cfg.succ[t] if l == "T"]
        live = cfg.reach(starts, removed=[pl.id])
        okp = ol.id not in live
    # and never after
    after = cfg.reach([ol.id], include_start=False)
    okp = okp and pl.id not in after
    ck.ob(R, fa.key(pl.ast, "parent-before-own"), okp, "parent entries are copied before own keys are layered on top (own keys win)" if okp else
          "own keys are not layered after the parent's entries: a parent entry can overwrite the partition's own key", fa.where(pl.ast))
    # parent entries: same result_type/content_key, from_parent=True, into `index`
    pent = [c for c in A.calls_in(pl.ast) if A.call_attr(c) == "_ResultTypeAndContentKey"]
    okpe = len(pent) == 1 and A.norm(A.kwarg(pent[0], "from_parent")) == "True" and A.norm(A.kwarg(pent[0], "result_type")) == "%s.result_type" % PV \
        and A.norm(A.kwarg(pent[0], "content_key")) == "%s.content_key" % PV
    pst = [s for s in A.walk_local(pl.ast) if isinstance(s, ast.Assign) and isinstance(s.targets[0], ast.Subscript) and A.norm(s.targets[0].value) == INDEX]
    okpe = okpe and len(pst) == 1 and A.norm(pst[0].targets[0].slice) == A.norm(pl.ast.target.elts[0])
    ck.ob(R, fa.key(pl.ast, "parent-entries"), okpe, "parent entries keep their type and content key and are marked from_parent" if okpe else
          "parent entries are not copied as (result_type, content_key, from_parent=True) under their own key", fa.where(pl.ast))
    # every parent entry is copied: each iteration of the parent loop reaches the index store
    if pst:
        starts = [d for (d, l) in cfg.succ[pl.id] if l == "T"]
        live = cfg.reach(starts, removed=fa.nodes(pst[0]))
        okall = pl.id not in live
        ck.ob(R, fa.key(pl.ast, "every-parent-entry"), okall, "every parent entry is copied into the merged index" if okall else
              "an iteration of the parent loop can skip `index[k] = ...` (continue / early exit): such parent-only keys disappear from the stored child", fa.where(pl.ast))
    refs = [c for c in A.calls_in(pl.ast) if A.call_attr(c) == "reference"]
    okr = bool(refs) and PDS is not None and all([A.norm(a) for a in c.args] == [PDS, "%s.content_key" % PV, "%s.content_key" % PV] for c in refs)
    if okr:
        # the data source named is the parent's own (read off the parent object in the same branch as its index)
        pds_defs = [d for i in fa.nodes(refs[0]) for d in fa.df.reaching(i, PDS)]
        okr = bool(pds_defs) and all(d.value is not None and isinstance(d.value, ast.Attribute) and d.value.attr in ("_data_source", "_parent_data_source") for d in pds_defs)
    ck.ob(R, fa.key(pl.ast, "parent-referenced"), okr, "inherited objects are referenced in the target data source" if okr else
          "inherited objects are not referenced from the parent's data source", fa.where(pl.ast))
    # own keys
    kd = [s for s in fa.stmts(ast.Assign) if KEYS is not None and any(isinstance(t, ast.Name) and t.id == KEYS for t in s.targets)]
    okk = len(kd) == 1 and isinstance(kd[0].value, ast.Call) and A.call_attr(kd[0].value) == "list_keys" and A.norm(A.call_recv(kd[0].value)) == "obj" \
        and A.norm(A.kwarg(kd[0].value, "_include_merge_parent")) == "False"
    ck.ob(R, fa.key(None, "own-keys-only"), okk, "only the partition's own keys are re-stored" if okk else
          "own keys are not taken from obj.list_keys(_include_merge_parent=False): parent data is re-stored or own keys are missed", fa.where())
    oent = [c for c in A.calls_in(ol.ast) if A.call_attr(c) == "_ResultTypeAndContentKey"]
    LK = A.norm(ol.ast.target)
    gets = [s for s in A.walk_local(ol.ast) if isinstance(s, ast.Assign) and isinstance(s.value, ast.Call) and A.call_attr(s.value) == "get" and A.norm(A.call_recv(s.value)) == "obj"]
    VAL = A.norm(gets[0].targets[0]) if len(gets) == 1 else None
    okoe = len(oent) == 1 and VAL is not None and A.norm(A.kwarg(oent[0], "from_parent")) == "False"
    if okoe:
        at = fa.nodes(oent[0])[0]
        okoe = fa.xnorm(A.kwarg(oent[0], "result_type"), at) == "ResultType.from_object(obj.get(%s))" % LK \
            and fa.xnorm(A.kwarg(oent[0], "content_key"), at).startswith("self._codec.store(ResultType.from_object(obj.get(%s)), data_source, " % LK)
    ost = [s for s in A.walk_local(ol.ast) if isinstance(s, ast.Assign) and isinstance(s.targets[0], ast.Subscript) and A.norm(s.targets[0].value) == INDEX]
    okoe = okoe and len(ost) == 1 and A.norm(ost[0].targets[0].slice) == LK \
        and fa.xnorm(ost[0].value, fa.nodes(ost[0])[0]).startswith("_ResultTypeAndContentKey(")
    ck.ob(R, fa.key(ol.ast, "own-entries"), okoe, "own entries are recorded under their key with from_parent=False" if okoe else
          "own entries are not recorded as (result_type, stored key, from_parent=False) under their own key", fa.where(ol.ast))
    # value stored is the value classified
    st = [c for c in A.calls_in(ol.ast) if A.call_attr(c) == "store"]
    okv = len(gets) == 1 and len(st) == 1 and len(st[0].args) >= 4 and [A.norm(a) for a in gets[0].value.args] == [LK]
    if okv:
        at = fa.nodes(st[0])[0]
        okv = fa.xnorm(st[0].args[0], at) == "ResultType.from_object(obj.get(%s))" % LK and fa.xnorm(st[0].args[3], at) == "obj.get(%s)" % LK \
            and A.norm(st[0].args[3]) == VAL
    ck.ob(R, fa.key(ol.ast, "value-per-key"), okv, "each key's value is fetched, classified and stored under its own type" if okv else
          "the per-key value is not (get(k) -> from_object -> codec.store) consistently", fa.where(ol.ast))
    # the same index is what is serialised, after both loops
    ser = [c for c in fa.calls("_serialize_index")]
    oks = len(ser) == 1 and [A.norm(a) for a in ser[0].args] == [INDEX] and all(cfg.must_pass([ol.id], i) for i in fa.nodes(ser[0])) \
        and bool(pst) and bool(ost)
    ck.ob(R, fa.key(None, "one-index"), oks, "the merged index is serialised after both loops" if oks else
          "the serialised index is not the merged `index` built by both loops", fa.where())


def _shape_get(ck, R, cls):
    m = cls.methods.get("get")
    ck.need(m is not None, "%s.get not found" % cls.qual)
    fa = FA(ck, m)
    tests = [i for i in fa.stmts(ast.If) if isinstance(i.test, ast.Compare) and isinstance(i.test.ops[0], ast.NotIn) and A.norm(i.test.left) == "key"]
    ok = len(tests) == 1
    why = "no `key not in <own>` test"
    if ok:
        t = tests[0]
        inner = [i for i in t.body if isinstance(i, ast.If) and A.norm(i.test) == "self._merge_parent"]
        deleg = inner and any(isinstance(s, ast.Return) and A.norm(s.value) == "self._merge_parent.get(key)" for s in inner[0].body)
        rais = any(isinstance(s, ast.Raise) for s in t.body)
        own_ret = [r for r in fa.returns() if not fa.inside(r, t)]
        ok = bool(deleg) and rais and bool(own_ret) and all("_merge_parent" not in A.norm(r.value) for r in own_ret)
        why = "own key first, else parent, else error" if ok else "get() is not 'own first, else delegate to the merge parent, else ValueError'"
    ck.ob(R, fa.key(None, "get-shape"), ok, why, fa.where())


def _shape_list(ck, R, cls):
    m = cls.methods.get("list_keys")
    ck.need(m is not None, "%s.list_keys not found" % cls.qual)
    fa = FA(ck, m)
    tests = [i for i in fa.stmts(ast.If) if "_include_merge_parent" in A.norm(i.test) and "self._merge_parent" in A.norm(i.test)]
    ok = len(tests) == 1
    why = "list_keys() does not branch on `_include_merge_parent and self._merge_parent`"
    if ok:
        t = tests[0]
        txt = " ".join(A.norm(s) for s in t.body)
        union = "self._merge_parent.list_keys()" in txt and ("update(" in txt or "|" in txt or "union(" in txt)
        rin = [r for r in fa.returns() if fa.inside(r, t)]
        rout = [r for r in fa.returns() if not fa.inside(r, t)]
        srt = all(isinstance(r.value, ast.Call) and A.call_attr(r.value) == "sorted" for r in rin + rout)
        own_only = all("_merge_parent" not in A.norm(r.value) for r in rout)
        ok = union and bool(rin) and bool(rout) and srt and own_only
        why = "union of parent and own keys, sorted; own keys only otherwise" if ok else \
            "list_keys() is not 'sorted union of parent and own keys, or sorted own keys'"
    ck.ob(R, fa.key(None, "list-shape"), ok, why, fa.where())


def check_siblings(ck, R):
    ck.rule(R, "sibling agreement: every staging partition class answers get/list_keys as 'own first, else parent, else "
               "error' and 'sorted union'; the stored form filters inherited entries on request", 5)
    for cls in PM.partition_classes(ck):
        if cls.qual == PM.PICKLE_PARTITION:
            continue
        _shape_get(ck, R, cls)
        _shape_list(ck, R, cls)
    lk = FA(ck, PM.PICKLE_PARTITION + ".list_keys")
    flt = [n for n in A.walk_body(lk.node) if isinstance(n, ast.ListComp)]
    ok = len(flt) == 1 and any("from_parent" in A.norm(c) and isinstance(c, ast.UnaryOp) and isinstance(c.op, ast.Not) for c in flt[0].generators[0].ifs)
    g = lk.enclosing(flt[0], ast.If) if flt else None
    ok = ok and g is not None and A.norm(g.test) == "_include_merge_parent" and flt[0] in [n for s in g.orelse for n in ast.walk(s)]
    ck.ob(R, lk.key(None, "stored-form-filter"), ok, "without parents, the stored form lists only entries not marked from_parent" if ok else
          "PicklePartition.list_keys(_include_merge_parent=False) does not filter out inherited entries: a re-stored child duplicates parent data as own", lk.where())


def check_index_tables(ck, R):
    ck.rule(R, "index table agreement: the serialised index entry has exactly the fields the deserialiser reads and "
               "the in-memory entry type declares", 2)
    se = FA(ck, PM.PICKLE_PARTITION + "._serialize_index")
    de = FA(ck, PM.PICKLE_PARTITION + "._deserialize_index")
    enc = set()
    for d in [n for n in A.walk_body(se.node) if isinstance(n, ast.Dict)]:
        for k in d.keys:
            if A.const_str(k):
                enc.add(A.const_str(k))
    dec = set()
    # the per-entry variable: any name bound by a loop / comprehension over the decoded mapping
    ev = set()
    for n in ast.walk(de.node):
        if isinstance(n, (ast.comprehension, ast.For)):
            ev |= {x.id for x in ast.walk(n.target) if isinstance(x, ast.Name)}
    for n in A.walk_body(de.node):
        if isinstance(n, ast.Subscript) and A.const_str(n.slice) and A.norm(n.value) in ev:
            dec.add(A.const_str(n.slice))
        if isinstance(n, ast.Call) and A.call_attr(n) == "get" and A.norm(A.call_recv(n)) in ev and n.args and A.const_str(n.args[0]):
            dec.add(A.const_str(n.args[0]))
    nt = ck.repo.module("storage_base").assigns.get("_ResultTypeAndContentKey")
    fields = set(A.strings_in(nt.args[1])) if isinstance(nt, ast.Call) and len(nt.args) > 1 else set()
    ok = enc == dec == fields and bool(enc)
    ck.ob(R, se.key(None, "entry-fields"), ok, "index entries carry %s on both sides" % sorted(enc) if ok else
          "index entry fields differ: written %s, read %s, declared %s" % (sorted(enc), sorted(dec), sorted(fields)), se.where())
    ctor = [c for c in de.calls("_ResultTypeAndContentKey")]
    okc = len(ctor) == 1 and "ResultType[" in A.norm(A.kwarg(ctor[0], "result_type")) and "decode_versioned_data_source_key" in A.norm(A.kwarg(ctor[0], "content_key"))
    encn = any(".name" in A.norm(v) for d in [n for n in A.walk_body(se.node) if isinstance(n, ast.Dict)] for v in d.values) and \
        "encode_versioned_data_source_key" in A.norm(se.node)
    ck.ob(R, de.key(None, "entry-codecs"), okc and encn, "type is written by name and read by name; keys use the versioned-key codec both ways" if okc and encn else
          "index entry encoding and decoding do not use matching codecs", de.where())


def check_truthiness(ck, R):
    """`if merge_parent:` / `if self._merge_parent:` test the object's truth value.  That is only
    'is there a parent' as long as no Partition class defines __len__ / __bool__."""
    sized = [c for c in PM.partition_classes(ck) + [ck.repo.cls("partition.Partition")] if "__len__" in c.methods or "__bool__" in c.methods]
    tests = []
    for q in [PM.STORE] + [c.qual + "." + m for c in PM.partition_classes(ck) for m in ("get", "list_keys") if m in c.methods]:
        f = ck.repo.try_func(q)
        if f is None:
            continue
        fx = FA(ck, f)
        for n in fx.cfg.nodes:
            if n.kind == "test":
                for a in A.conj_atoms(n.ast) if not isinstance(n.ast, ast.BoolOp) or isinstance(n.ast.op, ast.And) else A.test_atoms(n.ast):
                    if A.norm(a) in ("merge_parent", "self._merge_parent", "obj._merge_parent"):
                        tests.append((fx, a))
    ok = not sized or not tests
    ck.ob(R, "partition::merge-parent-truthiness", ok,
          "%d truthiness tests of a merge parent; no Partition class defines __len__/__bool__" % len(tests) if ok else
          "%s define(s) __len__/__bool__, and %d sites test a merge parent by truth value (e.g. %s): a parent with no own keys counts as "
          "'no parent', so a chain a <- b(empty) <- c loses a's keys" % ([c.name for c in sized], len(tests), tests[0][0].qual),
          A.loc(sized[0], sized[0].node) if sized else "")


def check(ck):
    from .memo import check_new_memo_tables
    ck.run(check_new_memo_tables, ck, "C17.M1", ('partition', 'storage_base', 'storage_filesystem'))
    from .c07 import check_who_may_delete
    ck.rule("C17.R7", "partitions never delete stored objects (who may delete, shared with C07.R4)", 3)
    ck.run(check_who_may_delete, ck, "C17.R7")
    ck.run(check_truthiness, ck, "C17.R4")
    from .c11 import check_versioned_key_codec
    ck.rule("C17.R6", "index entries' versioned keys are written as key#version and split at the last '#' (partition keys may contain '#')", 2)
    ck.run(check_versioned_key_codec, ck, "C17.R6")
    ck.run(check_protocol, ck, "C17.R1")
    ck.run(check_frame_rule, ck, "C17.R2")
    ck.run(check_overlay, ck, "C17.R3")
    ck.run(check_siblings, ck, "C17.R4")
    ck.run(check_index_tables, ck, "C17.R5")
