"""C13 — the in-process version cache is coherent with a from-scratch computation (structural part)."""
from . import hashing as H


def check(ck):
    H.check_update_protocol(ck, "C13.R1")
    H.check_did_change(ck, "C13.R2")
    H.check_resolver_closures(ck, "C13.R3")
    H.check_field_call_lint(ck, "C13.R4")
    H.check_version_taint(ck, "C13.R5")
