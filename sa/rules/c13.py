"""C13 — the in-process version cache is coherent with a from-scratch computation (structural part)."""
from . import hashing as H


def check(ck):
    from .memo import check_new_memo_tables
    ck.run(check_new_memo_tables, ck, "C13.M1", ('memento', 'code_hash', 'configuration'))
    ck.rule("C13.R6", "every referenced symbol is watched by a hash rule", 1)
    ck.run(H.check_every_symbol_watched, ck, "C13.R6")
    ck.run(H.check_update_protocol, ck, "C13.R1")
    ck.run(H.check_did_change, ck, "C13.R2")
    ck.run(H.check_resolver_closures, ck, "C13.R3")
    ck.run(H.check_field_call_lint, ck, "C13.R4")
    ck.run(H.check_version_taint, ck, "C13.R5")
    # "exactly the version a fresh process computes": nothing remembered enters a recomputation
    ck.run(H.check_recompute_from_scratch, ck, "C13.R7")
