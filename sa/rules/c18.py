"""C18 — declarative configuration is honoured, ordered, and reproducible from its dump (structural).

Decides: documented option subset-of read-from-config subset-of dumped (R1); argument-overrides-file
order (R2); registry / type / to_dict agreement (R3); first-match cluster search (R4).
"""
import ast
import re

from .. import astutil as A
from ..fa import FA

# constructor keyword -> configuration key (names differ only here)
ARG_TO_KEY = {"read_only": "readonly"}
BACKENDS = [
    ("storage_filesystem", "FilesystemStorageBackend", "storage"),
    ("storage_memory", "MemoryStorageBackend", "storage"),
    ("storage_null", "NullStorageBackend", "storage"),
    ("runner_local", "LocalRunnerBackend", "runner"),
    ("runner_null", "NullRunnerBackend", "runner"),
]


def _doc_options(module):
    return re.findall(r"^\* (\w+) - ", module.docstring, flags=re.M)


def _config_reads(ck, cls):
    """Keys read from `config` anywhere in the constructor chain of cls."""
    keys = set()
    for c in ck.repo.mro(cls):
        init = c.methods.get("__init__")
        if init is None:
            continue
        for n in A.walk_body(init.node):
            if isinstance(n, ast.Call) and A.call_attr(n) == "get" and A.norm(A.call_recv(n)) in ("config", "self.config") and n.args and A.const_str(n.args[0]):
                keys.add(A.const_str(n.args[0]))
            if isinstance(n, ast.Subscript) and A.norm(n.value) in ("config", "self.config") and A.const_str(n.slice) and isinstance(n.ctx, ast.Load):
                keys.add(A.const_str(n.slice))
    return keys


def _dict_writes(fa: FA, var=None):
    """Keys written into the dict that the function returns (or into `var`)."""
    keys = set()
    if var is None:
        rn = {r.value.id for r in A.walk_body(fa.node) if isinstance(r, ast.Return) and isinstance(r.value, ast.Name)}
        var = sorted(rn)[0] if len(rn) == 1 else "config"
        for r in A.walk_body(fa.node):
            if isinstance(r, ast.Return) and isinstance(r.value, ast.Dict):
                keys |= {A.const_str(k) for k in r.value.keys if A.const_str(k)}
    for n in A.walk_body(fa.node):
        if isinstance(n, ast.Assign):
            for t in n.targets:
                if isinstance(t, ast.Subscript) and A.norm(t.value) == var and A.const_str(t.slice):
                    keys.add(A.const_str(t.slice))
            if any(isinstance(t, ast.Name) and t.id == var for t in n.targets) and isinstance(n.value, ast.Dict):
                keys |= {A.const_str(k) for k in n.value.keys if A.const_str(k)}
    return keys


def check_base_dir_final_before_use(ck, R):
    """`base_dir` follows the same precedence as every other option (argument over configuration), and the relative
    cluster / repository files are resolved against the value that results: no assignment to self.base_dir can
    follow a _load_config(self.base_dir, ...) in the constructors."""
    for q in ("configuration.ConfigurationRepository.__init__", "configuration.Environment.__init__"):
        fa = FA(ck, q)
        loads = [c for c in fa.calls("_load_config") if c.args and "self.base_dir" in fa.xnorm(c.args[0])]
        stores = [s for s in fa.stmts(ast.Assign) if any(A.dotted(t) == "self.base_dir" for t in s.targets)]
        ck.need(loads and stores, "%s: _load_config(self.base_dir, ...) / self.base_dir assignment not found" % q)
        late = []
        for c in loads:
            for i in fa.nodes(c):
                r = fa.cfg.reach([i], include_start=False)
                for s_ in stores:
                    if not (set(fa.nodes(s_)) & r):
                        continue
                    # harmless if the same value was already stored, under the same guard, before the load
                    g_ = fa.enclosing(s_, ast.If)
                    twin = [e_ for e_ in stores if e_ is not s_ and A.norm(e_.value) == A.norm(s_.value)
                            and A.norm(getattr(fa.enclosing(e_, ast.If), "test", None)) == A.norm(getattr(g_, "test", None))
                            and all(fa.cfg.must_pass(fa.nodes(fa.enclosing(e_, ast.If).test if fa.enclosing(e_, ast.If) is not None else e_), i2) for i2 in fa.nodes(c))]
                    if not twin:
                        late.append(s_)
        ck.ob(R, fa.key(None, "base-dir-final-before-use"), not late,
              "relative files are loaded against the final base_dir" if not late else
              "`%s` runs after relative files were already loaded with self.base_dir: an explicit base_dir argument does not apply to the files the "
              "constructor itself loads (they are looked up under the configuration's base_dir, or not found at all)" % A.short(late[0], 50),
              fa.where(late[0]) if late else fa.where())


def check_config_not_mutated(ck, R):
    """A configuration object is the caller's: the same dict is handed to several constructors (the storage
    section of a cluster, a template reused for two backends).  A constructor that writes an explicit argument
    back into it makes every later object built from that dict inherit the override (a second backend silently
    read-only), and makes the dump disagree with the file.  No constructor / factory of the configuration
    modules mutates an object it received as a parameter."""
    from .fresh import param_mutations
    n = 0
    for mn in ("configuration", "storage", "storage_filesystem", "storage_memory", "storage_null", "storage_base", "runner", "runner_local", "runner_null"):
        mod = ck.repo.modules.get(mn)
        if mod is None:
            continue
        for cls in mod.all_classes():
            for name in ("__init__", "from_file", "create"):
                m = cls.methods.get(name)
                if m is None:
                    continue
                params = [p for p in m.params if p in ("config", "configuration", "cfg", "env_config", "storage_config", "runner_config")]
                if not params:
                    continue
                fa = FA(ck, m)
                n += 1
                muts = param_mutations(fa, params)
                ck.ob(R, fa.key(None, "config-not-mutated"), not muts,
                      "%s does not modify the configuration object it is given" % m.qual if not muts else
                      "%s modifies the caller's configuration object (%s): the object is shared (reused for another backend, dumped later), so an explicit "
                      "argument given once leaks into everything built from that dict afterwards" % (m.qual, muts[0][2]),
                      fa.where(muts[0][0]) if muts else fa.where())
    ck.need(n >= 4, "config-not-mutated: only %d constructors with a configuration parameter found" % n)


def check(ck):
    from .memo import check_new_memo_tables
    ck.run(check_new_memo_tables, ck, "C18.M1", ('configuration', 'storage', 'storage_filesystem', 'storage_memory'))
    ck.rule("C18.R5", "constructors never modify the configuration object they are given", 4)
    ck.run(check_config_not_mutated, ck, "C18.R5")
    ck.run(check_base_dir_final_before_use, ck, "C18.R2")
    R1, R2, R3, R4 = ("C18.R%d" % i for i in range(1, 5))
    ck.rule(R1, "option tables: every documented backend option is read from the configuration and written by to_dict; "
                "every constructor keyword has a documented key; cluster / repository / environment read and dump the same keys", 10)
    ck.rule(R2, "precedence: an explicit constructor argument is applied after (and therefore overrides) the value read "
                "from the configuration", 8)
    ck.rule(R3, "registry agreement: the type name given to register(), to the base constructor and under 'type' in "
                "to_dict are equal; the default storage and runner types are registered", 7)
    ck.rule(R4, "cluster search: repositories are searched in list order and the first hit wins; prepend inserts at the "
                "front, append at the back", 3)
    # ---- R1 / R3 backends
    registered = {"storage": {}, "runner": {}}
    for (modname, clsname, kind) in BACKENDS:
        mod = ck.repo.module(modname)
        cls = mod.classes.get(clsname)
        ck.need(cls is not None, "%s.%s not found" % (modname, clsname))
        doc = _doc_options(mod)
        reads = _config_reads(ck, cls)
        td = FA(ck, cls.methods["to_dict"]) if "to_dict" in cls.methods else None
        ck.need(td is not None, "%s.to_dict not found" % cls.qual)
        dumped = _dict_writes(td)
        init = cls.methods.get("__init__")
        if doc:
            for opt in doc:
                ck.ob(R1, "%s::option-read::%s" % (cls.qual, opt), opt in reads,
                      "documented option %r is read from the configuration" % opt if opt in reads else
                      "documented option %r is accepted as a constructor argument but never read from a configuration object/file: "
                      "a cluster configured with it silently ignores it" % opt, A.loc(init or cls, (init or cls).node))
                ck.ob(R1, "%s::option-dumped::%s" % (cls.qual, opt), opt in dumped,
                      "documented option %r is written by to_dict" % opt if opt in dumped else
                      "documented option %r is not written by to_dict: an environment rebuilt from its dump loses it" % opt, td.where())
            if init is not None:
                for p in init.params:
                    if p in ("self", "config"):
                        continue
                    key = ARG_TO_KEY.get(p, p)
                    ck.ob(R1, "%s::argument-documented::%s" % (cls.qual, p), key in doc,
                          "constructor argument %s corresponds to documented option %r" % (p, key) if key in doc else
                          "constructor argument %s has no documented configuration option" % p, A.loc(init, init.node))
        # registry
        reg = [n for n in ast.walk(mod.tree) if isinstance(n, ast.Call) and A.call_attr(n) == "register" and len(n.args) == 2 and A.norm(n.args[1]) == clsname]
        rname = A.const_str(reg[0].args[0]) if len(reg) == 1 else None
        sup = []
        if init is not None:
            sup = [c for c in A.body_calls(init.node) if A.call_attr(c) == "__init__" and isinstance(A.call_recv(c), ast.Call) and A.call_attr(A.call_recv(c)) == "super"]
        sname = A.const_str(sup[0].args[0]) if sup and sup[0].args else None
        tname = None
        for n in A.walk_body(td.node):
            if isinstance(n, ast.Dict):
                for k, v in zip(n.keys, n.values):
                    if A.const_str(k) == "type":
                        tname = A.const_str(v)
            if isinstance(n, ast.Assign) and len(n.targets) == 1 and isinstance(n.targets[0], ast.Subscript) and A.const_str(n.targets[0].slice) == "type":
                tname = A.const_str(n.value)
            if isinstance(n, ast.Call) and A.call_attr(n) in ("dict", "update") and A.kwarg(n, "type") is not None:
                tname = A.const_str(A.kwarg(n, "type"))
        # the dump describes the backend AS IT IS: when it starts from the configuration the backend
        # was given (self.config), every option a constructor argument can override has to be
        # overwritten unconditionally, else the as-given value survives wherever the overlay is skipped
        tdf = td
        base_from_given = []
        for st in tdf.stmts(ast.Assign):
            if len(st.targets) == 1 and isinstance(st.targets[0], ast.Name) and any(
                    isinstance(x, ast.Attribute) and x.attr == "config" and A.norm(x.value) == "self" for x in ast.walk(st.value)):
                base_from_given.append(st)
        for r in tdf.returns():
            if r.value is not None and any(isinstance(x, ast.Attribute) and x.attr == "config" and A.norm(x.value) == "self" for x in ast.walk(r.value)):
                base_from_given.append(r)
        cond_keys = []
        if base_from_given:
            overridable = {ARG_TO_KEY.get(p_, p_) for p_ in (init.params if init is not None else []) if p_ not in ("self", "config")}
            for st in tdf.stmts(ast.Assign):
                if len(st.targets) == 1 and isinstance(st.targets[0], ast.Subscript):
                    k_ = A.const_str(st.targets[0].slice)
                    if k_ in overridable and tdf.enclosing(st, ast.If) is not None:
                        cond_keys.append(k_)
            missing = sorted(overridable - {A.const_str(st.targets[0].slice) for st in tdf.stmts(ast.Assign)
                                            if len(st.targets) == 1 and isinstance(st.targets[0], ast.Subscript)})
            cond_keys += missing
        okb = not cond_keys
        ck.ob(R3, cls.qual + "::dump-from-effective-state", okb,
              "to_dict is built from the backend's effective state" if not base_from_given else
              "to_dict starts from the as-given configuration and unconditionally overwrites every overridable option" if okb else
              "to_dict starts from the configuration the backend was given (`%s`) and writes %s only conditionally (or not at all): where an explicit "
              "constructor argument overrode the configuration and the overlay is skipped (e.g. memory_cache_mb=0 over a configured 8), the dump "
              "carries the overridden value and the rebuilt environment differs" % (A.short(base_from_given[0], 50), sorted(set(cond_keys))),
              tdf.where(base_from_given[0]) if base_from_given else "")
        ok = rname is not None and rname == sname == tname
        ck.ob(R3, cls.qual + "::type-name", ok, "registered, constructed and dumped as %r" % rname if ok else
              "type names disagree: register(%r), base constructor %r, to_dict %r: a dump cannot be turned back into this backend" % (rname, sname, tname), A.loc(cls, cls.node))
        if rname:
            registered[kind][rname] = clsname
    cfgm = ck.repo.module("configuration")
    for (const, kind) in (("_DEFAULT_STORAGE_TYPE", "storage"), ("_DEFAULT_RUNNER_TYPE", "runner")):
        v = cfgm.assigns.get(const)
        name = A.const_str(v) if v is not None else None
        ck.ob(R3, "configuration::" + const, name in registered[kind], "default %s type %r is registered" % (kind, name) if name in registered[kind] else
              "default %s type %r is not a registered type" % (kind, name), cfgm.relpath)
    for q in ("storage.StorageBackend.create", "runner.RunnerBackend.create"):
        fa = FA(ck, q)
        txt = A.norm(fa.node)
        okc = ".get(%s)(config)" % fa.fi.params[1] in txt and "not in" in txt
        ck.ob(R3, fa.key(None), okc, "create() instantiates the registered class with the configuration" if okc else
              "create() does not instantiate the registered class with the configuration object", fa.where())
    # filesystem specifics: path fallback; cache size in MB both ways
    fsi = FA(ck, "storage_filesystem.FilesystemStorageBackend.__init__")
    sup = fsi.one([c for c in fsi.calls("__init__") if isinstance(A.call_recv(c), ast.Call)], "super().__init__ call")
    for kw in ("memory_cache_mb", "config", "read_only"):
        okk = A.kwarg(sup, kw) is not None and A.norm(A.kwarg(sup, kw)) == kw
        ck.ob(R1, fsi.key(sup, "forwards-" + kw), okk, "%s is forwarded to the base backend" % kw if okk else "%s is not forwarded to the base backend" % kw, fsi.where(sup))
    ds = [c for c in fsi.calls("_FilesystemDataSource")]
    okd = {A.norm(c.args[0]) for c in ds if c.args} == {"self.config_path", "self.metadata_config_path"}
    ck.ob(R1, fsi.key(None, "paths-used"), okd, "data and metadata sources are rooted at the configured paths" if okd else
          "the data / metadata sources are not built from config_path / metadata_config_path", fsi.where())
    # an option derived from another option (metadata path defaults to the data path) must see
    # the FINAL value of that option, i.e. the same definitions that reach the store into self.<field>
    finals = {}
    for st in fsi.stmts(ast.Assign):
        if len(st.targets) == 1 and A.dotted(st.targets[0]) and A.dotted(st.targets[0]).startswith("self.") and isinstance(st.value, ast.Name):
            finals[st.value.id] = st
    for st in fsi.stmts(ast.Assign):
        tgt = st.targets[0]
        if not isinstance(tgt, ast.Name):
            continue
        for n in ast.walk(st.value):
            if isinstance(n, ast.Name) and n.id in finals and n.id != tgt.id and isinstance(n.ctx, ast.Load):
                fin = finals[n.id]
                same = all(fsi.df.same_defs(n.id, a, b) for a in fsi.nodes(st) for b in fsi.nodes(fin))
                ck.ob(R2, fsi.key(st, "derived-from-final:" + n.id), same,
                      "%s is derived from the final value of %s" % (tgt.id, n.id) if same else
                      "%s is derived from %s before the explicit argument / default for %s is applied: with config path A and argument path=B "
                      "the derived option still points at A" % (tgt.id, n.id, n.id), fsi.where(st))
    sbi = FA(ck, "storage_base.StorageBackendBase.__init__")
    mc = [c for c in sbi.calls("MemoryCache")]
    okm = len(mc) == 1 and [A.norm(a) for a in mc[0].args] == ["memory_cache_mb"]
    ck.ob(R1, sbi.key(None, "cache-size"), okm, "the cache is created with the configured size" if okm else "MemoryCache is not created with memory_cache_mb", sbi.where())
    # ---- R1 for cluster / repository / environment
    for clsname, extra_dump in (("FunctionCluster", set()), ("ConfigurationRepository", set()), ("Environment", set())):
        cls = cfgm.classes[clsname]
        reads = _config_reads(ck, cls)
        # `"storage" in self.config` style
        init = cls.methods["__init__"]
        for n in A.walk_body(init.node):
            if isinstance(n, ast.Compare) and isinstance(n.ops[0], (ast.In, ast.NotIn)) and A.const_str(n.left) and A.norm(n.comparators[0]) in ("self.config", "config"):
                reads.add(A.const_str(n.left))
        td = FA(ck, cls.methods["to_dict"])
        dumped = _dict_writes(td)
        ok = reads == dumped
        ck.ob(R1, cls.qual + "::read-equals-dumped", ok, "%s reads and dumps the same keys %s" % (clsname, sorted(reads)) if ok else
              "%s reads %s from its configuration but dumps %s" % (clsname, sorted(reads - dumped) or "{}", sorted(dumped - reads) or "{}"), td.where())
    # ---- R2 precedence
    n2 = 0
    for q in ("configuration.FunctionCluster.__init__", "configuration.ConfigurationRepository.__init__", "configuration.Environment.__init__",
              "storage_filesystem.FilesystemStorageBackend.__init__", "storage.StorageBackend.__init__"):
        fa = FA(ck, q)
        for p in fa.fi.params:
            if p in ("self", "config"):
                continue
            # assignment from the parameter under `if p is not None`
            arg_asg = []
            for s in fa.stmts(ast.Assign):
                if isinstance(s.value, ast.Name) and s.value.id == p and not isinstance(s.targets[0], ast.Name) or \
                        isinstance(s.value, ast.Name) and s.value.id == p and isinstance(s.targets[0], ast.Name) and s.targets[0].id != p:
                    arg_asg.append(s)
            if not arg_asg:
                continue
            tgt = A.norm(arg_asg[0].targets[0])
            cfg_asg = [s for s in fa.stmts(ast.Assign) if A.norm(s.targets[0]) == tgt and s is not arg_asg[0] and
                       ("config.get(" in A.norm(s.value) or "config[" in A.norm(s.value))]
            if not cfg_asg:
                continue
            n2 += 1
            # every config assignment precedes the override; none follows it
            an = fa.nodes(arg_asg[0])
            after = fa.cfg.reach(an, include_start=False)
            late = [s for s in cfg_asg if set(fa.nodes(s)) & after]
            ok = not late
            ck.ob(R2, fa.key(None, "override:" + p), ok, "argument %s overrides the configured value" % p if ok else
                  "the configured value is assigned after the explicit argument %s: the file overrides the argument" % p, fa.where(arg_asg[0]))
    ck.need(n2 >= 8, "precedence rule: only %d argument/config pairs recognised" % n2)
    # cluster storage / runner: explicit object wins over config, config over default
    fc = FA(ck, "configuration.FunctionCluster.__init__")
    for what, factory in (("storage", "StorageBackend"), ("runner", "RunnerBackend")):
        ifs = [i for i in fc.stmts(ast.If) if A.norm(i.test) == "%s is not None" % what]
        ok = len(ifs) == 1 and any(A.norm(s) == "self.%s = %s" % (what, what) for s in ifs[0].body)
        if ok:
            el = ifs[0].orelse
            ok = len(el) == 1 and isinstance(el[0], ast.If) and A.norm(el[0].test) == "'%s' not in self.config" % what
            if ok:
                creates = [c for c in A.calls_in(el[0]) if A.call_dotted(c) == factory + ".create"]
                ok = len(creates) == 2 and any(A.norm(c.args[0]).startswith("_DEFAULT") for c in creates) and \
                    any([fc.xnorm(a, fc.nodes(c)[0]) for a in c.args] == ["self.config['%s']['type']" % what, "self.config['%s']" % what] for c in creates)
        ck.ob(R2, fc.key(None, what + "-precedence"), ok, "%s: argument, else configured type+config, else default" % what if ok else
              "the cluster's %s is not chosen as argument > configuration > default" % what, fc.where())
    # file loaders: sibling agreement — both split the path into (directory, file name) so that a
    # relative path is resolved against its own directory
    for q in ("configuration.ConfigurationRepository.from_file", "configuration.Environment.from_file"):
        f = FA(ck, q)
        lc = f.one(f.calls("_load_config"), "_load_config call")
        pth = f.fi.params[0] if f.fi.is_static else f.fi.params[1]
        a0 = f.deps(lc.args[0]) if lc.args else set()
        a1 = f.deps(lc.args[1]) if len(lc.args) > 1 else set()
        ok = "call:dirname" in a0 and "call:basename" not in a0 and ("param:" + pth) in a0 and ("param:" + pth) in a1
        ck.ob(R1, f.key(None, "relative-file"), ok, "the configuration file is resolved against its own directory" if ok else
              "%s passes `%s` as the base directory of the file: a relative path (also a relative MEMENTO_ENV) is looked up under "
              "'<file name>/<path>' and cannot be loaded" % (q.split(".")[-2] + ".from_file", A.short(lc.args[0], 50) if lc.args else "?"), f.where(lc))
    # ---- R4
    gc = FA(ck, "configuration.Environment.get_cluster")
    loops = [n.ast for n in gc.cfg.nodes if n.kind == "for"]
    ok = len(loops) == 1 and A.norm(loops[0].iter) == "self.repos"
    if ok:
        rets = [s for s in A.walk_local(loops[0]) if isinstance(s, ast.Return)]
        lv = A.norm(loops[0].target)
        ok = len(rets) == 1 and A.norm(rets[0].value) == "%s.clusters[cluster_name]" % lv and gc.enclosing(rets[0], ast.If) is not None \
            and ("cluster_name in %s.clusters" % lv) in A.norm(gc.enclosing(rets[0], ast.If).test)
        tail = [r for r in gc.returns() if not gc.inside(r, loops[0]) and A.is_none(r.value)]
        ok = ok and len(tail) == 1
    ck.ob(R4, gc.key(None, "first-match"), ok, "repositories are searched in order; the first that defines the cluster wins; None otherwise" if ok else
          "get_cluster does not return the first repository (in self.repos order) defining the cluster, or None", gc.where())
    dflt = [i for i in gc.stmts(ast.If) if A.norm(i.test) == "cluster_name is None"]
    okd = len(dflt) == 1 and any(A.norm(s) == "return self.default_cluster" for s in dflt[0].body)
    ck.ob(R4, gc.key(None, "default-cluster"), okd, "no name means the default cluster" if okd else "get_cluster(None) does not return the default cluster", gc.where())
    pr = FA(ck, "configuration.Environment.prepend_repo")
    ap = FA(ck, "configuration.Environment.append_repo")
    okp = any(A.norm(c) == "self.repos.insert(0, repo)" for c in pr.calls("insert")) and any(A.norm(c) == "self.repos.append(repo)" for c in ap.calls("append"))
    ck.ob(R4, pr.key(None, "priority-ends"), okp, "prepend = highest priority, append = lowest" if okp else
          "prepend_repo / append_repo do not insert at the front / back of self.repos", pr.where())
    ei = FA(ck, "configuration.Environment.__init__")
    rp = [s for s in ei.stmts(ast.Assign) if A.norm(s.targets[0]) == "self.repos" and isinstance(s.value, ast.ListComp)]
    okr = len(rp) == 1 and A.norm(rp[0].value.generators[0].iter) == "config.get('repos', [])" and not rp[0].value.generators[0].ifs
    ck.ob(R4, ei.key(None, "repo-order"), okr, "configured repositories keep their file order" if okr else
          "repositories are not loaded in the order of the 'repos' list", ei.where())
