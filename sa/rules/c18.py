"""C18 — declarative configuration is honoured, ordered, and reproducible from its dump (structural).

Decides: documented option subset-of read-from-config subset-of dumped (R1); argument-overrides-file
order (R2); registry / type / to_dict agreement (R3); first-match cluster search (R4).

The rules decide the clauses on *values per path class*, not on the spelling of statements: `_sym_paths`
walks the acyclic paths of a constructor keeping, per path, what every local / `self.<field>` holds (as an
expression over the parameters) and under which branch literals; "argument over configuration" is then a
statement about these (literals, value) pairs and holds alike for `x = cfg; if p is not None: x = p`,
`x = cfg if p is None else p`, nested / inverted ifs, temporaries and helpers that return the value.
"""
import ast
import copy
import re

from .. import astutil as A
from ..fa import FA
from ..loader import AnalysisError, FuncInfo
from . import partition_model as PM

# constructor keyword -> configuration key (names differ only here)
ARG_TO_KEY = {"read_only": "readonly"}
BACKENDS = [
    ("storage_filesystem", "FilesystemStorageBackend", "storage"),
    ("storage_memory", "MemoryStorageBackend", "storage"),
    ("storage_null", "NullStorageBackend", "storage"),
    ("runner_local", "LocalRunnerBackend", "runner"),
    ("runner_null", "NullRunnerBackend", "runner"),
]


# =====================================================================================================
# one spelling: literal loops unrolled, constant-keyed scratch dicts as locals, setattr / getattr with a constant
# name as attribute access, map(lambda) as a comprehension
# =====================================================================================================
def _subst_names(node, env):
    class S(ast.NodeTransformer):
        def visit_Name(self, n):
            if n.id in env and isinstance(n.ctx, ast.Load):
                return copy.deepcopy(env[n.id])
            return n

    return S().visit(copy.deepcopy(node))


def _const_attr_access(node):
    """setattr(o, 'a', v) as a statement -> o.a = v; getattr(o, 'a') -> o.a; list(map(lambda x: E, IT)) -> [E for x in IT]"""
    class G(ast.NodeTransformer):
        def visit_Call(self, n):
            self.generic_visit(n)
            if isinstance(n.func, ast.Name) and n.func.id == "getattr" and len(n.args) == 2 and not n.keywords and A.const_str(n.args[1]) \
                    and A.const_str(n.args[1]).isidentifier():
                return ast.copy_location(ast.Attribute(value=n.args[0], attr=A.const_str(n.args[1]), ctx=ast.Load()), n)
            if isinstance(n.func, ast.Name) and n.func.id in ("list", "tuple") and len(n.args) == 1 and not n.keywords and isinstance(n.args[0], ast.Call) \
                    and isinstance(n.args[0].func, ast.Name) and n.args[0].func.id == "map" and len(n.args[0].args) == 2 and not n.args[0].keywords \
                    and isinstance(n.args[0].args[0], ast.Lambda):
                lam, it = n.args[0].args
                a = lam.args
                if len(a.args) == 1 and not (a.vararg or a.kwarg or a.kwonlyargs or a.posonlyargs or a.defaults):
                    gen = ast.comprehension(target=ast.Name(id=a.args[0].arg, ctx=ast.Store()), iter=it, ifs=[], is_async=0)
                    return ast.copy_location(ast.ListComp(elt=lam.body, generators=[gen]), n)
            return n

    node = G().visit(node)
    if isinstance(node, ast.Expr) and isinstance(node.value, ast.Call) and isinstance(node.value.func, ast.Name) and node.value.func.id == "setattr" \
            and len(node.value.args) == 3 and not node.value.keywords and A.const_str(node.value.args[1]) and A.const_str(node.value.args[1]).isidentifier():
        c = node.value
        tgt = ast.Attribute(value=c.args[0], attr=A.const_str(c.args[1]), ctx=ast.Store())
        return ast.fix_missing_locations(ast.copy_location(ast.Assign(targets=[tgt], value=c.args[2], type_comment=None), node))
    return node


def _literal_dicts(node):
    """{name: Dict node} for the locals that are bound once, to a dict display / dict(k=v) with constant keys, and
    never changed afterwards (no item store, no mutating call, not handed to anything but `**`)."""
    pm = A.parent_map(node)
    occ = {}
    for x in A.walk_body(node):
        if isinstance(x, ast.Name):
            occ.setdefault(x.id, []).append(x)
    out = {}
    for name, xs in occ.items():
        inits, ok = [], True
        for x in xs:
            p_ = pm.get(x)
            if isinstance(p_, ast.Assign) and len(p_.targets) == 1 and p_.targets[0] is x:
                inits.append(p_.value)
            elif isinstance(x.ctx, ast.Store):
                ok = False
            elif isinstance(p_, ast.Subscript) and p_.value is x and isinstance(p_.ctx, (ast.Store, ast.Del)):
                ok = False
            elif isinstance(p_, ast.Attribute) and p_.value is x and p_.attr in _MUTATORS:
                ok = False
        if not ok or len(inits) != 1:
            continue
        v = inits[0]
        if isinstance(v, ast.Call) and isinstance(v.func, ast.Name) and v.func.id == "dict" and not v.args and v.keywords and all(k.arg for k in v.keywords):
            v = ast.Dict(keys=[ast.Constant(k.arg) for k in v.keywords], values=[k.value for k in v.keywords])
        if isinstance(v, ast.Dict) and v.keys and all(k is not None and A.const_str(k) is not None for k in v.keys):
            out[name] = v
        elif isinstance(v, (ast.Tuple, ast.List)) and v.elts and not any(isinstance(x, ast.Starred) for x in v.elts):
            out[name] = v  # a literal sequence walked by a loop
    return out


def _plain_stmt(mod, tables):
    def one(st):
        for p_ in PM._lower_stmt(st, pour_only=True):
            if p_ is not st:
                PM._rewrite_blocks(p_, one)
                return one(p_)
        if isinstance(st, ast.For) and not st.orelse:
            it = st.iter
            if isinstance(it, ast.Name) and it.id in mod.assigns:
                it = mod.assigns[it.id]
            # a local table: `for k, v in overrides.items()` / `for k in overrides`
            tbl, view_ = it, "keys"
            if isinstance(it, ast.Call) and isinstance(it.func, ast.Attribute) and it.func.attr in ("items", "keys", "values") and not it.args and not it.keywords:
                tbl, view_ = it.func.value, it.func.attr
            if isinstance(it, ast.Name) and isinstance(tables.get(it.id), (ast.Tuple, ast.List)):
                it = tables[it.id]
            elif isinstance(tbl, ast.Name) and isinstance(tables.get(tbl.id), ast.Dict):
                d = tables[tbl.id]
                rows_ = {"items": [ast.Tuple(elts=[k, v], ctx=ast.Load()) for k, v in zip(d.keys, d.values)], "keys": list(d.keys), "values": list(d.values)}[view_]
                it = ast.Tuple(elts=rows_, ctx=ast.Load())
            names = [st.target.id] if isinstance(st.target, ast.Name) else \
                ([x.id for x in st.target.elts] if isinstance(st.target, (ast.Tuple, ast.List)) and all(isinstance(x, ast.Name) for x in st.target.elts) else None)
            jumps = any(isinstance(x, (ast.Break, ast.Continue)) for b in st.body for x in A.walk_local(b))
            rebinds = names is not None and any(isinstance(x, ast.Name) and isinstance(x.ctx, ast.Store) and x.id in names for b in st.body for x in ast.walk(b))
            if isinstance(it, (ast.Tuple, ast.List)) and 0 < len(it.elts) <= 16 and names is not None and not jumps and not rebinds \
                    and not any(isinstance(e, ast.Starred) for e in it.elts):
                rows = []
                for e in it.elts:
                    if isinstance(st.target, ast.Name):
                        rows.append({names[0]: e})
                    elif isinstance(e, (ast.Tuple, ast.List)) and len(e.elts) == len(names) and not any(isinstance(x, ast.Starred) for x in e.elts):
                        rows.append(dict(zip(names, e.elts)))
                    else:
                        rows = None
                        break
                # an element is put in as often as the body mentions the loop variable: only elements without effects
                # (reading names / attributes, comparing, arithmetic, a conditional expression over such: nothing is called)
                simple = lambda x: not any(isinstance(y, (ast.Call, ast.Await, ast.Yield, ast.YieldFrom, ast.NamedExpr, ast.Lambda, ast.ListComp, ast.SetComp,
                                                          ast.DictComp, ast.GeneratorExp, ast.Starred)) for y in ast.walk(x))
                if rows is not None and all(simple(v) for r_ in rows for v in r_.values()):
                    out = []
                    for r_ in rows:
                        for b in st.body:
                            nb = _subst_names(b, r_)
                            PM._rewrite_blocks(nb, one)
                            out += one(ast.fix_missing_locations(nb))
                    return out
        if isinstance(st, (ast.Expr, ast.Assign, ast.AnnAssign, ast.AugAssign, ast.Return)):
            # f(a, **common) with `common` a literal table: the keywords written out
            for c in [x for x in A.walk_local(st) if isinstance(x, ast.Call)]:
                kws = []
                for k in c.keywords:
                    if k.arg is None and isinstance(k.value, ast.Name) and isinstance(tables.get(k.value.id), ast.Dict):
                        d = tables[k.value.id]
                        if all(A.const_str(kk).isidentifier() for kk in d.keys):
                            kws += [ast.keyword(arg=A.const_str(kk), value=vv) for kk, vv in zip(d.keys, d.values)]
                            continue
                    kws.append(k)
                c.keywords = kws
            return [_const_attr_access(st)]
        if isinstance(st, (ast.If, ast.While)):
            st.test = _const_attr_access(st.test)
        return [st]

    return one


def _scalarise(node):
    """A local dict that is only ever used as `d['k']` with constant keys (after `d = {}` / a literal with constant
    keys) is a bundle of locals: d['k'] -> d__k."""
    uses = {}
    pm = A.parent_map(node)
    for x in A.walk_body(node):
        if isinstance(x, ast.Name):
            uses.setdefault(x.id, []).append(x)
    params = {a.arg for a in node.args.posonlyargs + node.args.args + node.args.kwonlyargs} | ({node.args.vararg.arg} if node.args.vararg else set()) | \
        ({node.args.kwarg.arg} if node.args.kwarg else set())
    for name, occ in uses.items():
        if name in params:
            continue
        inits, ok = [], True
        for x in occ:
            p_ = pm.get(x)
            if isinstance(p_, ast.Assign) and len(p_.targets) == 1 and p_.targets[0] is x and (
                    _is_empty_dict(p_.value) or (isinstance(p_.value, ast.Dict) and p_.value.keys and all(k is not None and A.const_str(k) for k in p_.value.keys))):
                inits.append(p_)
            elif isinstance(p_, ast.Subscript) and p_.value is x and A.const_str(p_.slice) and not isinstance(pm.get(p_), ast.Delete):
                pass
            else:
                ok = False
        if not ok or len(inits) != 1:
            continue
        local = lambda k: "%s__%s" % (name, re.sub(r"\W", "_", k))

        class R(ast.NodeTransformer):
            def visit_Subscript(self, n):
                self.generic_visit(n)
                if isinstance(n.value, ast.Name) and n.value.id == name and A.const_str(n.slice):
                    return ast.copy_location(ast.Name(id=local(A.const_str(n.slice)), ctx=n.ctx), n)
                return n

        init = inits[0]

        def one(st):
            if st is init:
                if isinstance(init.value, ast.Dict) and init.value.keys:
                    return [ast.fix_missing_locations(ast.copy_location(ast.Assign(targets=[ast.Name(id=local(A.const_str(k)), ctx=ast.Store())], value=v, type_comment=None), init))
                            for k, v in zip(init.value.keys, init.value.values)]
                return []
            return [st]

        PM._rewrite_blocks(node, one)
        R().visit(node)
        ast.fix_missing_locations(node)
    return node


def _index_loops(node):
    """`i = 0` ... `while i < len(S): x = S[i]; BODY; i += 1` with the counter used for nothing else  ->
    `for x in S: BODY` (the positions of a sequence visited in order are its elements in order)."""
    uses = {}
    for x in A.walk_body(node):
        if isinstance(x, ast.Name):
            uses.setdefault(x.id, []).append(x)
    pm = A.parent_map(node)

    def one(st):
        if not (isinstance(st, ast.While) and not st.orelse and len(st.body) >= 2):
            return [st]
        t = st.test
        if not (isinstance(t, ast.Compare) and len(t.ops) == 1 and isinstance(t.ops[0], ast.Lt) and isinstance(t.left, ast.Name)
                and isinstance(t.comparators[0], ast.Call) and isinstance(t.comparators[0].func, ast.Name) and t.comparators[0].func.id == "len"
                and len(t.comparators[0].args) == 1):
            return [st]
        i, seq = t.left.id, t.comparators[0].args[0]
        first, last = st.body[0], st.body[-1]
        if not (isinstance(first, ast.Assign) and len(first.targets) == 1 and isinstance(first.targets[0], ast.Name) and isinstance(first.value, ast.Subscript)
                and A.norm(first.value.value) == A.norm(seq) and isinstance(first.value.slice, ast.Name) and first.value.slice.id == i):
            return [st]
        if not (isinstance(last, ast.AugAssign) and isinstance(last.op, ast.Add) and isinstance(last.target, ast.Name) and last.target.id == i
                and isinstance(last.value, ast.Constant) and last.value.value == 1):
            return [st]
        if any(isinstance(x, ast.Continue) for b in st.body for x in A.walk_local(b)):
            return [st]
        # the counter: set to 0 before, tested, used to pick the element, stepped -- nothing else
        for x in uses.get(i, []):
            p_ = pm.get(x)
            fine = x is t.left or x is first.value.slice or x is last.target or \
                (isinstance(p_, ast.Assign) and len(p_.targets) == 1 and p_.targets[0] is x and isinstance(p_.value, ast.Constant) and p_.value.value == 0)
            if not fine:
                return [st]
        # the sequence is not changed while it is walked
        seq_txt = A.norm(seq)
        for b in st.body:
            for x in A.walk_local(b):
                if isinstance(x, (ast.Assign, ast.AugAssign, ast.Delete)) and seq_txt in A.norm(x).split(" = ")[0] and x is not first:
                    return [st]
                if isinstance(x, ast.Call) and isinstance(x.func, ast.Attribute) and A.norm(x.func.value) == seq_txt and x.func.attr in _MUTATORS:
                    return [st]
        loop = ast.For(target=first.targets[0], iter=seq, body=st.body[1:-1] or [ast.Pass()], orelse=[], type_comment=None)
        return [ast.fix_missing_locations(ast.copy_location(loop, st))]

    PM._rewrite_blocks(node, one)
    return node


def _hoist_nested_accumulators(node):
    """`d = {..., 'k': {}}` ... `d['k'][x] = v` / `d['k'].append(v)`  ->  `d__k_acc = {}`; `d = {..., 'k': d__k_acc}` ...
    `d__k_acc[x] = v`: a collection filled through the entry of the dictionary that holds it is the collection filled
    under a name of its own (the same object either way), which is the form the image rules read."""
    pm = A.parent_map(node)
    uses = {}
    for x in A.walk_body(node):
        if isinstance(x, ast.Name):
            uses.setdefault(x.id, []).append(x)

    def empty(v):
        return _is_empty_dict(v) or (isinstance(v, (ast.List, ast.Dict)) and not (v.elts if isinstance(v, ast.List) else v.keys)) or \
            (isinstance(v, ast.Call) and isinstance(v.func, ast.Name) and v.func.id in ("list", "dict") and not v.args and not v.keywords)

    for name, occ in uses.items():
        inits = [pm.get(x) for x in occ if isinstance(pm.get(x), ast.Assign) and len(pm.get(x).targets) == 1 and pm.get(x).targets[0] is x]
        if len(inits) != 1 or sum(1 for x in occ if isinstance(x.ctx, ast.Store)) != 1 or not isinstance(inits[0].value, ast.Dict):
            continue
        init = inits[0]
        for i, (k, v) in enumerate(zip(init.value.keys, init.value.values)):
            key = A.const_str(k) if k is not None else None
            if key is None or not empty(v):
                continue
            refs = [pm.get(x) for x in occ if isinstance(pm.get(x), ast.Subscript) and pm.get(x).value is x and A.const_str(pm.get(x).slice) == key]
            if not refs or any(not isinstance(r.ctx, ast.Load) for r in refs):
                continue
            # filled through the entry: d['k'][..] = .. / d['k'].method(..)
            filled = [r for r in refs if (isinstance(pm.get(r), ast.Subscript) and pm.get(r).value is r and isinstance(pm.get(r).ctx, ast.Store)) or
                      (isinstance(pm.get(r), ast.Attribute) and pm.get(r).value is r and isinstance(pm.get(pm.get(r)), ast.Call) and pm.get(pm.get(r)).func is pm.get(r))]
            if not filled:
                continue
            acc = "%s__%s_acc" % (name, re.sub(r"\W", "_", key))
            if acc in uses:
                continue
            refset = {id(r) for r in refs}

            class R(ast.NodeTransformer):
                def visit_Subscript(self, n):
                    if id(n) in refset:
                        return ast.copy_location(ast.Name(id=acc, ctx=ast.Load()), n)
                    return self.generic_visit(n)

            first = ast.fix_missing_locations(ast.copy_location(ast.Assign(targets=[ast.Name(id=acc, ctx=ast.Store())], value=v, type_comment=None), init))
            init.value.values[i] = ast.copy_location(ast.Name(id=acc, ctx=ast.Load()), v)
            PM._rewrite_blocks(node, lambda st: [first, st] if st is init else [st])
            R().visit(node)
            ast.fix_missing_locations(node)
            return _hoist_nested_accumulators(node)  # tables are stale: start over for a further one
    return node


def _plain(ck, fi):
    memo = ck.__dict__.setdefault("_c18_plain", {})
    key = (fi.qual, id(fi.node))
    if key not in memo:
        node = copy.deepcopy(fi.node)
        try:
            PM._rewrite_blocks(node, _plain_stmt(fi.module, _literal_dicts(node)))
            node = _hoist_nested_accumulators(node)
            node = _scalarise(node)
            node = _index_loops(node)
            changed = ast.dump(node) != ast.dump(fi.node)
        except RecursionError:
            changed = False
        memo[key] = FuncInfo(fi.module, ast.fix_missing_locations(node), fi.qual, cls=fi.cls, parent=fi.parent) if changed else fi
    return memo[key]


def _FA(ck, qual_or_fi):
    """The per-function bundle of the function in its plain spelling (see above)."""
    fi = ck.fn(qual_or_fi) if isinstance(qual_or_fi, str) else qual_or_fi
    return FA(ck, _plain(ck, fi))


def _field_from_ctor_chain(ck, cls, init, field, bound, depth=4):
    """The string constant a constructor chain leaves in `self.<field>`: the field is assigned from a constructor
    parameter somewhere up the chain, and every `super().__init__(...)` on the way hands a constant (or its own
    parameter, itself bound to a constant) down.  `bound`: parameter -> constant for `init`.  None when unknown."""
    if depth <= 0 or init is None:
        return None
    for st_ in A.all_stmts(init.node):
        if isinstance(st_, ast.Assign) and any(A.dotted(t_) == field for t_ in st_.targets):
            v = st_.value
            if isinstance(v, ast.Name) and v.id in bound:
                return bound[v.id]
            return _str_const(ck, init.module, cls, v)
    sup = [c for c in A.body_calls(init.node) if A.call_attr(c) == "__init__" and isinstance(A.call_recv(c), ast.Call) and A.call_attr(A.call_recv(c)) == "super"]
    owner = init.cls
    if len(sup) != 1 or owner is None:
        return None
    mro = ck.repo.mro(owner)
    binit = next((c.methods["__init__"] for c in mro[1:] if "__init__" in c.methods), None)
    if binit is None:
        return None
    nb = {}
    for i, p_ in enumerate([x for x in binit.params if x != "self"]):
        a_ = A.arg_or_kw(sup[0], i, p_)
        if a_ is None:
            continue
        if isinstance(a_, ast.Name) and a_.id in bound:
            nb[p_] = bound[a_.id]
        else:
            c_ = _str_const(ck, init.module, cls, a_)
            if c_ is not None:
                nb[p_] = c_
    return _field_from_ctor_chain(ck, cls, binit, field, nb, depth - 1)


def _str_const(ck, mod, cls, e, depth=3):
    """The string an expression denotes: a literal, a module-level constant, a class-level constant (`self.X` / `cls.X` /
    `Class.X`, also of a base class)."""
    if e is None or depth <= 0:
        return None
    if A.const_str(e) is not None:
        return A.const_str(e)
    if isinstance(e, ast.Name):
        v = mod.assigns.get(e.id)
        return _str_const(ck, mod, cls, v, depth - 1) if v is not None else None
    if isinstance(e, ast.Attribute) and isinstance(e.value, ast.Name):
        owner = cls if e.value.id in ("self", "cls") else mod.classes.get(e.value.id)
        for c in (ck.repo.mro(owner) if owner is not None else []):
            for st in c.node.body:
                if isinstance(st, ast.Assign) and any(isinstance(t, ast.Name) and t.id == e.attr for t in st.targets):
                    return _str_const(ck, c.module, c, st.value, depth - 1)
                if isinstance(st, ast.AnnAssign) and isinstance(st.target, ast.Name) and st.target.id == e.attr and st.value is not None:
                    return _str_const(ck, c.module, c, st.value, depth - 1)
    return None


def _doc_options(module):
    return re.findall(r"^\* (\w+) - ", module.docstring, flags=re.M)


# =====================================================================================================
# small expression helpers
# =====================================================================================================
def _is_empty_dict(e) -> bool:
    return (isinstance(e, ast.Dict) and not e.keys) or \
        (isinstance(e, ast.Call) and isinstance(e.func, ast.Name) and e.func.id == "dict" and not e.args and not e.keywords)


def _strip_default(e):
    """`X if X is not None else {}` / `{} if X is None else X` / `X or {}`  ->  X  (reading from an empty
    dict and reading from "no configuration" are the same thing); anything else unchanged."""
    if isinstance(e, ast.IfExp) and isinstance(e.test, ast.Compare) and len(e.test.ops) == 1 and A.is_none(e.test.comparators[0]):
        op = e.test.ops[0]
        if isinstance(op, (ast.Is, ast.IsNot)):
            keep, dflt = (e.body, e.orelse) if isinstance(op, ast.IsNot) else (e.orelse, e.body)
            if A.norm(keep) == A.norm(e.test.left) and _is_empty_dict(dflt):
                return keep
    if isinstance(e, ast.BoolOp) and isinstance(e.op, ast.Or) and len(e.values) == 2 and _is_empty_dict(e.values[1]):
        return e.values[0]
    return e


def _branches(v):
    """The alternatives a value expression can evaluate to (conditional expression / `a or b`)."""
    if isinstance(v, ast.IfExp):
        return _branches(v.body) + _branches(v.orelse)
    if isinstance(v, ast.BoolOp) and isinstance(v.op, ast.Or):
        out = []
        for x in v.values:
            out += _branches(x)
        return out
    return [v]


_DECIDED = "\u00a7decided"  # a test whose outcome is fixed by the values the path has put in: (_DECIDED, False) cannot be taken


def _decided(t):
    """Outcome of a test that no input can change once the path's own bindings are put in (`None is None`, `{} is
    None`, a constant): True / False, None when it depends on something."""
    def fresh(e):
        return isinstance(e, (ast.Dict, ast.List, ast.Tuple, ast.Set, ast.JoinedStr, ast.ListComp, ast.DictComp, ast.SetComp)) or \
            (isinstance(e, ast.Constant) and e.value is not None)
    if isinstance(t, ast.Compare) and len(t.ops) == 1 and isinstance(t.ops[0], (ast.Is, ast.IsNot)):
        l, r = t.left, t.comparators[0]
        same = None
        if A.is_none(l) and A.is_none(r):
            same = True
        elif (A.is_none(l) and fresh(r)) or (A.is_none(r) and fresh(l)):
            same = False
        if same is not None:
            return same if isinstance(t.ops[0], ast.Is) else not same
    return None


def _atoms(t, positive):
    """Branch test taken with a polarity -> literals (text, polarity); `not`, `and` taken true / `or` taken false,
    `is not` / `!=` / `not in` are normalised away (same conventions as FA.conditions)."""
    if isinstance(t, ast.UnaryOp) and isinstance(t.op, ast.Not):
        return _atoms(t.operand, not positive)
    d = _decided(t)
    if d is not None:
        return [(_DECIDED, d == positive)]
    if isinstance(t, ast.BoolOp) and ((isinstance(t.op, ast.And) and positive) or (isinstance(t.op, ast.Or) and not positive)):
        out = []
        for v in t.values:
            out += _atoms(v, positive)
        return out
    if isinstance(t, ast.Compare) and len(t.ops) == 1:
        op = t.ops[0]
        neg = {ast.IsNot: "is", ast.NotEq: "==", ast.NotIn: "in"}
        sym = {ast.Is: "is", ast.Eq: "==", ast.In: "in", ast.Lt: "<", ast.Gt: ">", ast.LtE: "<=", ast.GtE: ">="}
        lt, rt = A.norm(t.left), A.norm(t.comparators[0])
        if type(op) in neg:
            s, positive = neg[type(op)], not positive
        else:
            s = sym.get(type(op), type(op).__name__)
        if s == "==" and rt < lt:
            lt, rt = rt, lt
        return [("%s %s %s" % (lt, s, rt), positive)]
    return [(A.norm(t), positive)]


def _test_cases(t, depth=4):
    """A test that contains a conditional expression, as the cases of that expression: [(literals, test)]."""
    ife = next((x for x in ast.walk(t) if isinstance(x, ast.IfExp)), None)
    if ife is None or depth <= 0:
        return [([], t)]
    res = []
    for (pol, br) in ((True, ife.body), (False, ife.orelse)):
        t2 = _replace(t, ife, br)
        for (l, t3) in _test_cases(t2, depth - 1):
            res.append((_atoms(ife.test, pol) + l, t3))
    return res


def _replace(root, old, new):
    """`root` with the node `old` (by identity) replaced by `new` (unchanged parts are shared)."""
    def rec(n):
        if n is old:
            return new
        if not isinstance(n, ast.AST):
            return n
        ch = {}
        for f, v in ast.iter_fields(n):
            if isinstance(v, list):
                nv = [rec(x) for x in v]
                if any(a is not b for a, b in zip(nv, v)):
                    ch[f] = nv
            elif isinstance(v, ast.AST):
                nv = rec(v)
                if nv is not v:
                    ch[f] = nv
        if not ch:
            return n
        m = copy.copy(n)
        for f, v in ch.items():
            setattr(m, f, v)
        return m

    return rec(root)


def _consistent(lits, extra) -> bool:
    return not any((a[0], not a[1]) in lits or a == (_DECIDED, False) for a in extra)


def _alts(v):
    """[(literals, expression)]: the cases of a value that is a conditional expression / `a or b`."""
    if isinstance(v, ast.IfExp):
        out = [(_atoms(v.test, True) + l, e) for (l, e) in _alts(v.body)]
        out += [(_atoms(v.test, False) + l, e) for (l, e) in _alts(v.orelse)]
        return [(l, e) for (l, e) in out if all(_consistent(l[:i], [x]) for i, x in enumerate(l))]
    if isinstance(v, ast.BoolOp) and isinstance(v.op, ast.Or) and len(v.values) == 2:
        a_, b_ = v.values
        return [(_atoms(a_, True), a_)] + [(_atoms(a_, False) + l, e) for (l, e) in _alts(b_)]
    return [([], v)]


def _mentions_config(e) -> bool:
    """Does the (path-substituted) expression read the configuration object?"""
    for x in ast.walk(e):
        if isinstance(x, ast.Name) and x.id == "config":
            return True
        if isinstance(x, ast.Attribute) and x.attr == "config" and A.norm(x.value) == "self":
            return True
    return False


def _cfg_key_read(e, key=None):
    """`config.get(K[, d])` / `config[K]` on the configuration object itself -> K (None otherwise)."""
    if isinstance(e, ast.Call) and A.call_attr(e) == "get" and e.args and A.norm(A.call_recv(e)) in ("config", "self.config"):
        k = A.const_str(e.args[0])
    elif isinstance(e, ast.Subscript) and A.norm(e.value) in ("config", "self.config"):
        k = A.const_str(e.slice)
    else:
        return None
    return k if key is None or k == key else None


# =====================================================================================================
# path-sensitive symbolic walk
# =====================================================================================================
class _Path:
    __slots__ = ("lits", "env", "end", "node", "value", "obs")

    def __init__(self, lits, env, end, node, value, obs):
        self.lits, self.env, self.end, self.node, self.value, self.obs = lits, env, end, node, value, obs

    def has(self, text, pol):
        return (text, pol) in self.lits


def _subst(e, env):
    """`e` with every local / self.<field> replaced by what it holds on this path (unchanged parts are shared, nothing
    is modified in place)."""
    if not any(v is not None for v in env.values()):
        return e
    bound = set()
    for x in ast.walk(e):
        if isinstance(x, ast.comprehension):
            bound |= {n.id for n in ast.walk(x.target) if isinstance(n, ast.Name)}
        if isinstance(x, ast.Lambda):
            bound |= {a.arg for a in x.args.args + x.args.kwonlyargs + x.args.posonlyargs}

    def rec(n):
        if isinstance(n, ast.Name):
            if isinstance(n.ctx, ast.Load) and n.id not in bound and env.get(n.id) is not None:
                return env[n.id]
            return n
        if isinstance(n, ast.Attribute) and isinstance(n.ctx, ast.Load):
            d = A.dotted(n)
            if d and env.get(d) is not None:
                return env[d]
        new = {}
        for f, v in ast.iter_fields(n):
            if isinstance(v, list):
                nv = [rec(x) if isinstance(x, ast.AST) else x for x in v]
                if any(a is not b for a, b in zip(nv, v)):
                    new[f] = nv
            elif isinstance(v, ast.AST):
                nv = rec(v)
                if nv is not v:
                    new[f] = nv
        if not new:
            return n
        m = copy.copy(n)
        for f, v in new.items():
            setattr(m, f, v)
        return m

    return rec(e)


def _kill(env, name):
    env[name] = None
    for k in list(env):
        if k.startswith(name + "."):
            env[k] = None


def _assign(env, target, value):
    if isinstance(target, ast.Name):
        _kill(env, target.id)
        env[target.id] = value
    elif isinstance(target, ast.Attribute) and A.dotted(target) and A.dotted(target).startswith("self."):
        _kill(env, A.dotted(target))
        env[A.dotted(target)] = value
    elif isinstance(target, (ast.Tuple, ast.List)):
        if isinstance(value, (ast.Tuple, ast.List)) and len(value.elts) == len(target.elts) and not any(isinstance(x, ast.Starred) for x in target.elts):
            for t, v in zip(target.elts, value.elts):
                _assign(env, t, v)
        else:
            for x in ast.walk(target):
                if isinstance(x, ast.Name):
                    _kill(env, x.id)
    # subscript stores change the content of an object, not what a name is bound to


def _sym_paths(fa: FA, env0=None, stops=(), observe=None, cap=6000):
    """Acyclic paths from the entry to the normal exit / a `return` / one of the `stops` (CFG node ids), each with
    its branch literals (tests evaluated over the path's own bindings) and the bindings at its end.  A `for` head
    may be passed twice (once into the body, once out of the loop).  `observe(node, env)` may return an item that
    is recorded on the path.  Exception edges are not followed.  None when there are more than `cap` paths."""
    cfg = fa.cfg
    stops = set(stops)
    out = []
    count = [0]
    params = set(fa.fi.params)

    def dfs(n, seen, lits, env, obs):
        if count[0] > cap:
            return
        nd = cfg.node(n)
        if n in stops:
            count[0] += 1
            out.append(_Path(lits, env, "stop", n, None, obs))
            return
        if n == cfg.exit:
            count[0] += 1
            out.append(_Path(lits, env, "exit", n, ast.Constant(None), obs))
            return
        if observe is not None and nd.ast is not None:
            it = observe(nd, env)
            if it is not None:
                obs = obs + [it]
        a = nd.ast
        if nd.kind == "stmt":
            if isinstance(a, ast.Return):
                count[0] += 1
                out.append(_Path(lits, env, "return", n, _subst(a.value, env) if a.value is not None else ast.Constant(None), obs))
                return
            if isinstance(a, (ast.Assign, ast.AnnAssign)) and getattr(a, "value", None) is not None:
                v = _strip_default(_subst(a.value, env))
                env = dict(env)
                for t in (a.targets if isinstance(a, ast.Assign) else [a.target]):
                    if isinstance(t, ast.Name) and _is_empty_dict(v) and t.id in params and env.get(t.id) is None:
                        continue  # `if p is None: p = {}`: reading the stand-in is reading "no configuration"
                    _assign(env, t, v)
            elif isinstance(a, ast.AugAssign):
                env = dict(env)
                for x in ast.walk(a.target):
                    if isinstance(x, ast.Name):
                        _kill(env, x.id)
                if A.dotted(a.target):
                    _kill(env, A.dotted(a.target))
            elif isinstance(a, ast.Delete):
                env = dict(env)
                for t in a.targets:
                    if A.dotted(t):
                        _kill(env, A.dotted(t))
        elif nd.kind in ("for", "with", "except"):
            env = dict(env)
            tg = [a.target] if nd.kind == "for" else ([i.optional_vars for i in a.items if i.optional_vars is not None] if nd.kind == "with" else [])
            for t in tg:
                for x in ast.walk(t):
                    if isinstance(x, ast.Name):
                        _kill(env, x.id)
            if nd.kind == "except" and a.name:
                _kill(env, a.name)
        for (d, l) in cfg.succ[n]:
            if l == "exc":
                continue
            limit = 2 if cfg.node(d).kind == "for" else 1
            if seen.get(d, 0) >= limit:
                continue
            adds = [[]]
            if nd.kind == "test" and l in ("T", "F") and not isinstance(fa.pm.get(a), ast.While):
                adds = [extra + _atoms(t_, l == "T") for (extra, t_) in _test_cases(_subst(a, env))]
            for add in adds:
                if not _consistent(lits, add) or not all(_consistent(add[:i], [x]) for i, x in enumerate(add)):
                    continue
                seen[d] = seen.get(d, 0) + 1
                dfs(d, seen, lits + [x for x in add if x not in lits and x[0] != _DECIDED], env, obs)
                seen[d] -= 1

    dfs(cfg.entry, {cfg.entry: 1}, [], dict(env0 or {}), [])
    if count[0] > cap:
        return None
    return out


def _class_method(ck, fi, call):
    """The private method of fi's class that `call` (self.m(...) / cls.m(...) / Class.m(...)) designates, or None."""
    f = call.func
    if fi.cls is None or not isinstance(f, ast.Attribute) or not isinstance(f.value, ast.Name):
        return None
    if f.value.id not in ("self", "cls", fi.cls.name):
        return None
    if not f.attr.startswith("_") or f.attr.startswith("__"):
        return None
    return ck.repo.find_method(fi.cls, f.attr)


def _bind(callee: FuncInfo, call: ast.Call):
    """parameter -> argument expression for a plain call (None when the call cannot be bound structurally)."""
    params = list(callee.params)
    a = callee.node.args
    if a.vararg or a.kwarg or any(isinstance(x, ast.Starred) for x in call.args) or any(k.arg is None for k in call.keywords):
        return None
    if not callee.is_static and params:
        params = params[1:]
    if len(call.args) > len(params):
        return None
    env = dict(zip(params, call.args))
    for k in call.keywords:
        if k.arg not in params or k.arg in env:
            return None
        env[k.arg] = k.value
    pos = [x.arg for x in a.posonlyargs + a.args]
    for name, d in zip(pos[len(pos) - len(a.defaults):], a.defaults):
        env.setdefault(name, d)
    for x, d in zip(a.kwonlyargs, a.kw_defaults):
        if d is not None:
            env.setdefault(x.arg, d)
    if any(p not in env for p in params):
        return None
    return env


def _value_cases(ck, fa: FA, lits, value, env, depth=3):
    """[(literals, expression)] for a value on a path: conditional expressions split into their cases, and a call of
    a private helper of the same class replaced by what the helper returns (per path class of the helper, its tests
    read over the caller's bindings).  Cases that contradict the path's literals are dropped."""
    out = []
    for (l, e) in _alts(value):
        if not _consistent(lits, l):
            continue
        ll = lits + [x for x in l if x not in lits]
        callee = _class_method(ck, fa.fi, e) if isinstance(e, ast.Call) and depth > 0 else None
        bound = _bind(callee, e) if callee is not None else None
        if bound is None:
            out.append((ll, e))
            continue
        env0 = {k: v for k, v in env.items() if k.startswith("self.")}
        env0.update(bound)
        cfa = _FA(ck, callee)
        ps = _sym_paths(cfa, env0)
        if ps is None:
            out.append((ll, e))
            continue
        for p in ps:
            if p.end not in ("return", "exit") or not _consistent(ll, p.lits):
                continue
            out += _value_cases(ck, cfa, ll + [x for x in p.lits if x not in ll], p.value, p.env, depth - 1)
    return out


def _final_cases(ck, fa: FA, paths, target):
    """[(literals, expression | None)] : what `target` holds at the end of every path (None = never assigned)."""
    out = []
    for p in paths:
        v = p.env.get(target)
        if v is None:
            out.append((p.lits, None))
        else:
            out += _value_cases(ck, fa, p.lits, v, p.env)
    return out


# =====================================================================================================
# what a constructor chain reads from the configuration; what a to_dict writes
# =====================================================================================================
def _config_reads(ck, cls, membership=False):
    """Keys read from the configuration object anywhere in the constructor chain of cls: `.get(K)` / `[K]`
    (/ `K in`) on anything that IS the configuration object there — the parameter, `self.config`, a local bound to
    either (also through `x if x is not None else {}`), a parameter of a private helper that receives it."""
    keys = set()
    seen = set()

    def scan(fi, cfg_params, depth):
        tag = (fi.qual, tuple(sorted(cfg_params)))
        if tag in seen or depth > 3:
            return
        seen.add(tag)
        fa = _FA(ck, fi)

        def is_cfg(e, at, stack=()):
            """True (the configuration object) / 'empty' (an empty dict standing in for it) / False"""
            if _is_empty_dict(e):
                return "empty"
            if isinstance(e, ast.Attribute):
                return A.dotted(e) == "self.config"
            if isinstance(e, ast.IfExp):
                r = [is_cfg(e.body, at, stack), is_cfg(e.orelse, at, stack)]
                return all(r) and (True in r)
            if isinstance(e, ast.BoolOp) and isinstance(e.op, ast.Or):
                r = [is_cfg(x, at, stack) for x in e.values]
                return all(r) and (True in r)
            if isinstance(e, ast.Name):
                ds = fa.df.reaching(at, e.id)
                if not ds:
                    return False
                r = []
                for d in ds:
                    if d.kind == "param":
                        r.append(e.id in cfg_params)
                    elif d.kind == "assign" and d.value is not None and (d.node, d.name) not in stack:
                        r.append(is_cfg(d.value, d.node, stack + ((d.node, d.name),)))
                    else:
                        r.append(False)
                return all(r) and (True in r)
            return False

        def key_consts(k, at):
            """the constant key(s) an expression denotes: a string constant, or the variable of a loop over a literal
            tuple / list of string constants"""
            if A.const_str(k) is not None:
                return [A.const_str(k)]
            if isinstance(k, ast.Name):
                ds = fa.df.reaching(at, k.id)
                if len(ds) == 1 and ds[0].kind == "for" and isinstance(ds[0].stmt, ast.For) and isinstance(ds[0].stmt.target, ast.Name) \
                        and isinstance(ds[0].value, (ast.Tuple, ast.List)) and ds[0].value.elts and all(A.const_str(x) is not None for x in ds[0].value.elts):
                    return [A.const_str(x) for x in ds[0].value.elts]
            return []

        for n in A.walk_body(fa.node):
            if not isinstance(n, (ast.Call, ast.Subscript, ast.Compare)):
                continue
            ids = fa.nodes(n)
            if not ids:
                continue
            at = ids[0]
            if isinstance(n, ast.Call) and A.call_attr(n) == "get" and n.args and key_consts(n.args[0], at) and is_cfg(A.call_recv(n), at) is True:
                keys.update(key_consts(n.args[0], at))
            elif isinstance(n, ast.Subscript) and isinstance(n.ctx, ast.Load) and key_consts(n.slice, at) and is_cfg(n.value, at) is True:
                keys.update(key_consts(n.slice, at))
            elif isinstance(n, ast.Compare) and membership and len(n.ops) == 1 and isinstance(n.ops[0], (ast.In, ast.NotIn)) \
                    and key_consts(n.left, at) and is_cfg(n.comparators[0], at) is True:
                keys.update(key_consts(n.left, at))
            if isinstance(n, ast.Call):
                callee = _class_method(ck, fi, n)
                bound = _bind(callee, n) if callee is not None else None
                if bound is not None:
                    scan(callee, {p for p, a_ in bound.items() if is_cfg(a_, at) is True}, depth + 1)

    for c in ck.repo.mro(cls):
        init = c.methods.get("__init__")
        if init is not None:
            scan(init, {"config"} & set(init.params), 0)
    return keys


class _Entry:
    __slots__ = ("key", "value", "conditional", "stmt", "how")

    def __init__(self, key, value, conditional, stmt, how):
        self.key, self.value, self.conditional, self.stmt, self.how = key, value, conditional, stmt, how


def _dump_entries(fa: FA):
    """Every (key, value) the dictionary returned by a to_dict can carry, however it is put there: a dict display
    / dict(k=v) that is returned or bound to the returned name, `d[K] = v`, `d.update({...})` / `d.update(k=v)` /
    `d.update({k: v for k, v in ((K1, v1), ...) if ...})`, `d.setdefault(K, v)`.  `conditional` says whether the
    entry is written on every call."""
    entries = []
    pruned = set()  # dictionaries whose entries pass a filter on their way into the returned one
    names = {r.value.id for r in fa.returns() if isinstance(r.value, ast.Name)}

    def bases(e):
        """names of dictionaries an expression copies its entries from: {**x}, dict(x, ...), x.copy(), x | y"""
        if isinstance(e, ast.Name):
            return {e.id}
        if isinstance(e, ast.Dict):
            out = set()
            for k, v in zip(e.keys, e.values):
                if k is None:
                    out |= bases(v)  # **x, **{k: v for k, v in x.items() if ...}
            return out
        if isinstance(e, ast.Call) and isinstance(e.func, ast.Name) and e.func.id == "dict":
            out = set()
            for a_ in e.args:
                out |= bases(a_)
            for k in e.keywords:
                if k.arg is None:
                    out |= bases(k.value)
            return out
        if isinstance(e, ast.Call) and A.call_attr(e) == "copy" and isinstance(A.call_recv(e), ast.Name) and not e.args:
            return {A.call_recv(e).id}
        if isinstance(e, ast.BinOp) and isinstance(e.op, ast.BitOr):
            return bases(e.left) | bases(e.right)
        if isinstance(e, ast.DictComp) and len(e.generators) == 1:
            # {k: v for k, v in x.items() if <filter>}: the entries of x, each one possibly left out
            g = e.generators[0]
            if isinstance(g.iter, ast.Call) and A.call_attr(g.iter) == "items" and not g.iter.args and isinstance(A.call_recv(g.iter), ast.Name) \
                    and isinstance(g.target, (ast.Tuple, ast.List)) and len(g.target.elts) == 2 and A.norm(e.key) == A.norm(g.target.elts[0]) \
                    and A.norm(e.value) == A.norm(g.target.elts[1]):
                if g.ifs:
                    pruned.add(A.call_recv(g.iter).id)
                return {A.call_recv(g.iter).id}
        return set()

    for r in fa.returns():
        if r.value is not None:
            names |= bases(r.value)
    grew = True
    while grew:
        grew = False
        for st in fa.stmts(ast.Assign):
            if any(isinstance(t, ast.Name) and t.id in names for t in st.targets):
                new = bases(st.value) - names
                if new:
                    names |= new
                    grew = True

    def cond(st):
        c = fa.conditions(st)
        return c is None or c != {frozenset()}

    def expanded(e, st):
        try:
            return fa.expand(e, (fa.nodes(st) or [None])[0])
        except AnalysisError:
            return e

    def from_mapping(e, st, conditional, how):
        if isinstance(e, ast.Dict):
            for k, v in zip(e.keys, e.values):
                if k is None:
                    from_mapping(v, st, conditional, how)
                elif A.const_str(k) is not None:
                    entries.append(_Entry(A.const_str(k), v, conditional, st, how))
        elif isinstance(e, ast.Call) and isinstance(e.func, ast.Name) and e.func.id == "dict":
            for a_ in e.args:
                from_mapping(a_, st, conditional, how)
            for k in e.keywords:
                if k.arg is not None:
                    entries.append(_Entry(k.arg, k.value, conditional, st, how))
                else:
                    from_mapping(k.value, st, conditional, how)
        elif isinstance(e, (ast.List, ast.Tuple)) and e.elts and all(isinstance(x, (ast.Tuple, ast.List)) and len(x.elts) == 2 for x in e.elts):
            # a sequence of (key, value) pairs on its way into dict(...)
            for x in e.elts:
                if A.const_str(x.elts[0]) is not None:
                    entries.append(_Entry(A.const_str(x.elts[0]), x.elts[1], conditional, st, how))
        elif isinstance(e, ast.BinOp) and isinstance(e.op, (ast.Add, ast.BitOr)):
            from_mapping(e.left, st, conditional, how)
            from_mapping(e.right, st, conditional, how)
        elif isinstance(e, ast.DictComp) and len(e.generators) == 1 and isinstance(e.key, ast.Name):
            g = e.generators[0]
            it = g.iter
            tg = g.target
            if isinstance(it, (ast.Tuple, ast.List)) and isinstance(tg, (ast.Tuple, ast.List)) and tg.elts and A.norm(tg.elts[0]) == e.key.id:
                for pair in it.elts:
                    if isinstance(pair, (ast.Tuple, ast.List)) and pair.elts and A.const_str(pair.elts[0]) is not None:
                        entries.append(_Entry(A.const_str(pair.elts[0]), pair.elts[1] if len(pair.elts) > 1 else None,
                                              conditional or bool(g.ifs), st, how))

    for r in fa.returns():
        if r.value is not None and not isinstance(r.value, ast.Name):
            from_mapping(expanded(r.value, r), r, cond(r), "literal")
    for st in fa.stmts():
        if isinstance(st, (ast.Assign, ast.AnnAssign)) and getattr(st, "value", None) is not None:
            tg = st.targets if isinstance(st, ast.Assign) else [st.target]
            for t in tg:
                if isinstance(t, ast.Name) and t.id in names:
                    from_mapping(st.value if isinstance(st.value, (ast.Dict, ast.Call, ast.List, ast.Tuple)) else expanded(st.value, st), st,
                                 cond(st) or t.id in pruned, "literal")
                if isinstance(t, ast.Subscript) and isinstance(t.value, ast.Name) and t.value.id in names:
                    if A.const_str(t.slice) is not None:
                        entries.append(_Entry(A.const_str(t.slice), st.value, cond(st), st, "store"))
                    elif isinstance(t.slice, ast.Name):
                        # `for key, value in (("a", self.a), ("b", self.b)): ... d[key] = value`
                        loop = fa.enclosing(st, ast.For)
                        while loop is not None and not any(isinstance(x, ast.Name) and x.id == t.slice.id for x in ast.walk(loop.target)):
                            loop = fa.enclosing(loop, ast.For)
                        if loop is not None and isinstance(loop.iter, (ast.Tuple, ast.List)):
                            tgt = loop.target.elts if isinstance(loop.target, (ast.Tuple, ast.List)) else [loop.target]
                            pos = [i for i, x in enumerate(tgt) if isinstance(x, ast.Name) and x.id == t.slice.id]
                            for item in loop.iter.elts:
                                parts = item.elts if isinstance(item, (ast.Tuple, ast.List)) and isinstance(loop.target, (ast.Tuple, ast.List)) else [item]
                                if pos and pos[0] < len(parts) and A.const_str(parts[pos[0]]) is not None:
                                    inner = fa.enclosing(st, ast.If)
                                    entries.append(_Entry(A.const_str(parts[pos[0]]), parts[1] if len(parts) > 1 else None,
                                                          inner is not None and fa.inside(inner, loop) or cond(loop), st, "store"))
        elif isinstance(st, ast.Expr) and isinstance(st.value, ast.Call) and isinstance(st.value.func, ast.Attribute) \
                and isinstance(st.value.func.value, ast.Name) and st.value.func.value.id in names:
            c = st.value
            if c.func.attr == "update":
                for a_ in c.args:
                    from_mapping(expanded(a_, st), st, cond(st), "store")
                for k in c.keywords:
                    if k.arg is not None:
                        entries.append(_Entry(k.arg, k.value, cond(st), st, "store"))
            elif c.func.attr == "setdefault" and c.args and A.const_str(c.args[0]) is not None:
                entries.append(_Entry(A.const_str(c.args[0]), c.args[1] if len(c.args) > 1 else None, True, st, "store"))
            elif c.func.attr in ("append", "insert") and c.args and not c.keywords:
                # the returned dictionary is made of a list of (key, value) pairs
                from_mapping(ast.List(elts=[expanded(c.args[-1], st)], ctx=ast.Load()), st, cond(st), "store")
            elif c.func.attr == "extend" and len(c.args) == 1 and not c.keywords:
                from_mapping(expanded(c.args[0], st), st, cond(st), "store")
        elif isinstance(st, ast.AugAssign) and isinstance(st.target, ast.Name) and st.target.id in names and isinstance(st.op, (ast.Add, ast.BitOr)):
            from_mapping(expanded(st.value, st), st, cond(st), "store")
    return entries


def _option_fields(ck, cls, options):
    """{option: fields of the backend that hold it}: a field whose constructor-assigned value derives from the
    constructor argument of the option, anywhere along the chain of base constructors (argument names are kept along
    the chain); of several fields fed by an option, those fed by the fewest options (the metadata path falls back to the
    data path, so it is fed by both options -- the data path is held by the field fed by `path` alone)."""
    feeds = {}
    for c in ck.repo.mro(cls):
        init = c.methods.get("__init__")
        if init is None:
            continue
        fa = _FA(ck, init)
        for st in fa.stmts((ast.Assign, ast.AnnAssign)):
            ids = fa.nodes(st)
            for (t, v) in PM._flat_targets(st):
                f = A.dotted(t) if isinstance(t, ast.Attribute) else None
                if not (f and f.startswith("self.") and f.count(".") == 1) or v is None or not ids:
                    continue
                try:
                    atoms = fa.deps(v, ids[0])
                except AnalysisError:
                    continue
                ks = {ARG_TO_KEY.get(a_[6:], a_[6:]) for a_ in atoms if a_.startswith("param:")} & set(options)
                if ks:
                    feeds.setdefault(f[5:], set()).update(ks)
    out = {}
    for k in options:
        fs = [f for f, ks in feeds.items() if k in ks]
        if fs:
            least = min(len(feeds[f]) for f in fs)
            out[k] = {f for f in fs if len(feeds[f]) == least}
    return out


def _self_fields_read(fa, e, st):
    """First-level fields of self an expression reads (locals expanded)."""
    try:
        e = fa.expand(e, (fa.nodes(st) or [None])[0])
    except AnalysisError:
        pass
    out = set()
    for x in ast.walk(e):
        if isinstance(x, ast.Attribute) and isinstance(x.value, ast.Name) and x.value.id == "self":
            out.add(x.attr)
    return out


def _dumped_from_fields(ck, R1, cls, td, entries, options):
    holders = _option_fields(ck, cls, options)
    for e in entries:
        if e.key not in holders or e.value is None:
            continue
        got = _self_fields_read(td, e.value, e.stmt)
        if not got:
            continue
        okh = bool(got & holders[e.key])
        ck.ob(R1, "%s::dumped-from-its-field::%s" % (cls.qual, e.key), okh,
              "option %r is dumped from the field that holds it" % e.key if okh else
              "to_dict writes option %r from %s, while the constructor keeps that option in %s: the environment rebuilt from the dump "
              "gets another option's value for it" % (e.key, sorted("self." + g for g in got), sorted("self." + h for h in holders[e.key])),
              td.where(e.stmt))


# =====================================================================================================
# R8: what an option does is decided by that option alone
# =====================================================================================================
# documented derivations (module documentation): the metadata path is the data path "if different from the data path" is not given
DERIVED_FROM = {"metadata_path": {"path"}}


def _is_config_object(e) -> bool:
    """The configuration object itself: the `config` parameter (defaulted `config if config is not None else {}`, `config or {}`,
    `dict(config)`) or the field it is kept in -- not something read out of it."""
    seen = False
    for x in ast.walk(e):
        if isinstance(x, ast.Subscript) or (isinstance(x, ast.Call) and not (isinstance(x.func, ast.Name) and x.func.id == "dict")):
            return False
        if isinstance(x, ast.Name) and isinstance(x.ctx, ast.Load):
            if x.id == "config":
                seen = True
            elif x.id not in ("self", "dict"):
                return False
        if isinstance(x, ast.Attribute):
            if x.attr == "config" and A.norm(x.value) == "self":
                seen = True
            else:
                return False
    return seen


def _option_key_read(e):
    """(key, sub-expressions still to look at) when `e` reads / tests one key of the configuration object."""
    if isinstance(e, ast.Call) and A.call_attr(e) in ("get", "pop", "setdefault") and e.args and _is_config_object(A.call_recv(e)):
        k = A.const_str(e.args[0])
        if k is not None:
            return k, list(e.args[1:]) + [kw.value for kw in e.keywords]
    if isinstance(e, ast.Subscript) and _is_config_object(e.value):
        k = A.const_str(e.slice)
        if k is not None:
            return k, []
    if isinstance(e, ast.Compare) and len(e.ops) == 1 and isinstance(e.ops[0], (ast.In, ast.NotIn)) and _is_config_object(e.comparators[0]):
        k = A.const_str(e.left)
        if k is not None:
            return k, []
    return None


class _Influence:
    """Everything that can make a difference to a value at a program point: the parameters, configuration keys and fields of self
    its expression is computed from, and -- transitively, through every local on the way -- those the branch conditions are
    computed from under which the contributing assignments are reached.  Conditions come from `FA.conditions` (branches that do
    not matter to whether the assignment is reached are resolved away; literals every normal completion of the function passes
    -- argument validation -- are left out: they do not tell one configuration from another)."""

    def __init__(self, ck, fa: FA):
        self.ck, self.fa = ck, fa
        self.seen = set()
        self.roots = {}  # ("param"|"key"|"field", name) -> a witness text
        self._must = None
        self.defs = {}
        for n, ds in fa.df.gen.items():
            for d in ds:
                if d.kind != "param":
                    self.defs.setdefault(d.name, []).append(d)

    def must(self):
        if self._must is None:
            cs = self.fa.conditions(self.fa.cfg.exit)
            self.ck.need(cs is not None, "%s: too many paths" % self.fa.qual)
            cs = list(cs)
            self._must = frozenset.intersection(*[frozenset(c) for c in cs]) if cs else frozenset()
        return self._must

    def reached(self, node_id):
        """roots of the conditions under which CFG node `node_id` is reached"""
        self.reached_any([node_id])

    def reached_any(self, node_ids):
        """roots of the conditions under which one of the CFG nodes is reached"""
        from ..fa import _prime_implicants
        cs = set()
        for i in node_ids:
            c1 = self.fa.conditions(i)
            self.ck.need(c1 is not None, "%s: too many paths" % self.fa.qual)
            cs |= {frozenset(c) for c in c1}
        node_id = node_ids[0]
        for c in (_prime_implicants(cs) if len(node_ids) > 1 else cs):
            for lit in c:
                if lit in self.must() or (lit[0], not lit[1]) in self.must():
                    continue
                try:
                    t = ast.parse(lit[0], mode="eval").body
                except SyntaxError:
                    raise AnalysisError("%s: branch condition `%s` cannot be read back" % (self.fa.qual, lit[0][:60]))
                self.walk(t, node_id, lit[0])

    def value(self, expr, at):
        try:
            e = self.fa.expand(expr, at)
        except AnalysisError:
            e = expr
        self.walk(e, at, A.short(expr, 50))

    def definition(self, d):
        if (d.node, d.name) in self.seen:
            return
        self.seen.add((d.node, d.name))
        self.reached(d.node)
        if d.value is not None:
            self.value(d.value, d.node)

    def walk(self, e, at, why):
        kr = _option_key_read(e)
        if kr is not None:
            self.roots.setdefault(("key", kr[0]), why)
            for x in kr[1]:
                self.walk(x, at, why)
            return
        if isinstance(e, ast.Attribute) and isinstance(e.value, ast.Name) and e.value.id == "self":
            if e.attr == "config":
                return
            ds = self.defs.get("self." + e.attr)
            if ds:
                for d in ds:
                    self.definition(d)
            else:
                self.roots.setdefault(("field", e.attr), why)
            return
        if isinstance(e, ast.Name):
            if not isinstance(e.ctx, ast.Load) or e.id == "self" or not self.fa.df.is_local(e.id):
                return
            if e.id in self.fa.df.params and e.id != "config":
                self.roots.setdefault(("param", e.id), why)
            for d in self.defs.get(e.id, ()):
                self.definition(d)
            return
        for c in ast.iter_child_nodes(e):
            self.walk(c, at, why)


def _foreign(roots, allowed, options, holders):
    """The roots that belong to ANOTHER documented option: its constructor argument, its configuration key, a field that holds it."""
    out = []
    for (kind, name), why in sorted(roots.items()):
        if kind == "param":
            k = ARG_TO_KEY.get(name, name)
            if k in options and k not in allowed:
                out.append((k, "argument `%s`" % name, why))
        elif kind == "key":
            if name not in allowed:
                out.append((name, "configuration key %r" % name, why))
        elif kind == "field":
            ks = {k for k, fs in holders.items() if name in fs}
            if ks and not (ks & allowed):
                out.append((sorted(ks)[0], "field `self.%s`" % name, why))
    return out


def check_option_alone(ck, R):
    """The claim ranges over the full matrix of option combinations: an option given in a configuration (or as an argument) has its
    effect whatever the other options are.  Structurally: the field a backend keeps an option in -- and the value a constructor
    hands on to its base constructor for it -- is computed from, and assigned under conditions on, that option's own argument and
    configuration key only (and the options it is documented to default to); likewise the entry to_dict writes for it."""
    n = 0
    for (modname, clsname, kind) in BACKENDS:
        mod = ck.repo.module(modname)
        cls = mod.classes.get(clsname)
        doc = _doc_options(mod) if cls is not None else []
        if not doc:
            continue
        holders = _option_fields(ck, cls, doc)
        inits = [c.methods["__init__"] for c in ck.repo.mro(cls) if "__init__" in c.methods]
        for opt in doc:
            allowed = {opt} | DERIVED_FROM.get(opt, set())
            bad = None
            for fi in inits:
                fa = _FA(ck, fi)
                # the field(s) holding the option
                for f in sorted(holders.get(opt, ())):
                    # per VALUE the field can be given: the places that assign the same value count as one (the same
                    # assignment repeated in both arms of an unrelated branch does not depend on that branch)
                    groups = {}
                    for d in _Influence(ck, fa).defs.get("self." + f, ()):
                        try:
                            txt = fa.xnorm(d.value, d.node) if d.value is not None else "<%s>" % d.kind
                        except AnalysisError:
                            txt = A.norm(d.value)
                        groups.setdefault(txt, []).append(d)
                    for txt, ds in sorted(groups.items()):
                        one = _Influence(ck, fa)
                        one.reached_any([d.node for d in ds])
                        for d in ds:
                            one.seen.add((d.node, d.name))
                            if d.value is not None:
                                one.value(d.value, d.node)
                        n += 1
                        fo = _foreign(one.roots, allowed, doc, holders)
                        if fo and bad is None:
                            bad = (fa, ds[0].stmt, ds[0].node, "`self.%s`" % f, fo[0])
                # what is handed on to the base constructor for it
                for c in fa.calls("__init__"):
                    if not (isinstance(A.call_recv(c), ast.Call) and A.call_attr(A.call_recv(c)) == "super") or not fa.nodes(c):
                        continue
                    nxt = inits[inits.index(fi) + 1:]
                    bpar = [p_ for p_ in nxt[0].params if p_ != "self"] if nxt else []
                    handed = [(kw.arg, kw.value) for kw in c.keywords if kw.arg is not None]
                    handed += [(bpar[i], a_) for i, a_ in enumerate(c.args) if i < len(bpar) and not isinstance(a_, ast.Starred)]
                    for (pname, pval) in handed:
                        if ARG_TO_KEY.get(pname, pname) == opt:
                            kw = ast.keyword(arg=pname, value=pval)
                            one = _Influence(ck, fa)
                            one.value(kw.value, fa.nodes(c)[0])
                            n += 1
                            fo = _foreign(one.roots, allowed, doc, holders)
                            if fo and bad is None:
                                bad = (fa, c, fa.nodes(c)[0], "the `%s` handed to the base constructor" % kw.arg, fo[0])
            ck.ob(R, "%s::option-alone::%s" % (cls.qual, opt), bad is None,
                  "what option %r configures is decided by that option alone" % opt if bad is None else
                  "%s: what option %r configures (%s) also depends on option %r (%s in `%s`): given together, one of the two options is not "
                  "honoured as it is when given alone -- the backend differs from the one the equivalent constructor argument / configuration entry "
                  "builds in the rest of the option matrix" % (bad[0].qual, opt, bad[3], bad[4][0], bad[4][1], bad[4][2][:60]),
                  (bad[0].where(bad[1]) if bad[1] is not None else bad[0].where()) if bad is not None else A.loc(cls, cls.node))
        # the dump: the entry of an option is written under conditions on the fields that hold that option
        td = _FA(ck, cls.methods["to_dict"]) if "to_dict" in cls.methods else None
        if td is None:
            continue
        worst = {}
        for en in _dump_entries(td):
            if en.key not in doc or en.stmt is None or not td.nodes(en.stmt):
                continue
            allowed = {en.key} | DERIVED_FROM.get(en.key, set())
            one = _Influence(ck, td)
            one.reached(td.nodes(en.stmt)[0])
            n += 1
            fo = _foreign(one.roots, allowed, doc, holders)
            if fo or en.key not in worst:
                worst[en.key] = (fo, en.stmt)
        for key, (fo, st) in sorted(worst.items()):
            ck.ob(R, "%s::dumped-alone::%s" % (cls.qual, key), not fo,
                  "whether option %r is dumped is decided by that option alone" % key if not fo else
                  "to_dict writes option %r only under a condition on option %r (%s in `%s`): with both set the dump loses it and the rebuilt "
                  "environment differs" % (key, fo[0][0], fo[0][1], fo[0][2][:60]), td.where(st))
    ck.need(n >= 6, "option independence: only %d option holders / dump entries recognised" % n)


# =====================================================================================================
# R2: base_dir
# =====================================================================================================
def check_base_dir_final_before_use(ck, R):
    """`base_dir` follows the same precedence as every other option (argument over configuration), and the relative
    cluster / repository files are resolved against the value that results: on every path class, the directory
    handed to _load_config(...) inside the constructor is the value self.base_dir finally holds."""
    for q in ("configuration.ConfigurationRepository.__init__", "configuration.Environment.__init__"):
        fa = _FA(ck, q)
        lcf = ck.repo.try_func("configuration._load_config")
        first = lcf.params[0] if lcf is not None and lcf.params else "base_dir"
        loads = [c for c in fa.calls("_load_config") if A.arg_or_kw(c, 0, first) is not None]
        stores = [s for s in fa.stmts(ast.Assign) if any(A.dotted(t) == "self.base_dir" for t in s.targets)]
        ck.need(loads and stores, "%s: _load_config(<base dir>, ...) / self.base_dir assignment not found" % q)
        finals = _sym_paths(fa)
        ck.need(finals is not None, "%s: too many paths" % q)
        fin = [(l, v) for (l, v) in _final_cases(ck, fa, finals, "self.base_dir")]
        late = []
        for c in loads:
            uses = _sym_paths(fa, stops=fa.nodes(c))
            ck.need(uses is not None, "%s: too many paths" % q)
            for u in uses:
                if u.end != "stop":
                    continue
                for (ul, uv) in _value_cases(ck, fa, u.lits, _subst(A.arg_or_kw(c, 0, first), u.env), u.env):
                    for (fl, fv) in fin:
                        if not _consistent(ul, fl):
                            continue
                        if fv is None or A.norm(fv) != A.norm(uv):
                            late.append((c, uv, fv))
        ck.ob(R, fa.key(None, "base-dir-final-before-use"), not late,
              "relative files are loaded against the final base_dir" if not late else
              "`%s` resolves relative files against `%s` while self.base_dir ends up as `%s`: an explicit base_dir argument does not apply to the "
              "files the constructor itself loads (they are looked up under the configuration's base_dir, or not found at all)"
              % (A.short(late[0][0], 50), A.short(late[0][1], 40), A.short(late[0][2], 40) if late[0][2] is not None else "<unset>"),
              fa.where(late[0][0]) if late else fa.where())


def check_config_not_mutated(ck, R):
    """A configuration object is the caller's: the same dict is handed to several constructors (the storage
    section of a cluster, a template reused for two backends).  A constructor that writes an explicit argument
    back into it makes every later object built from that dict inherit the override (a second backend silently
    read-only), and makes the dump disagree with the file.  No constructor / factory of the configuration
    modules mutates an object it received as a parameter."""
    from .fresh import param_mutations
    n = 0
    for mn in ("configuration", "storage", "storage_filesystem", "storage_memory", "storage_null", "storage_base", "runner", "runner_local", "runner_null"):
        mod = ck.repo.modules.get(mn)
        if mod is None:
            continue
        for cls in mod.all_classes():
            for name in ("__init__", "from_file", "create"):
                m = cls.methods.get(name)
                if m is None:
                    continue
                params = [p for p in m.params if p in ("config", "configuration", "cfg", "env_config", "storage_config", "runner_config")]
                if not params:
                    continue
                fa = _FA(ck, m)
                n += 1
                # a local that IS the caller's object (`cfg = config`, `cfg = {} if config is None else config`)
                grew = True
                while grew:
                    grew = False
                    for st in fa.stmts(ast.Assign):
                        if len(st.targets) == 1 and isinstance(st.targets[0], ast.Name) and st.targets[0].id not in params \
                                and any(isinstance(b, ast.Name) and b.id in params for b in _branches(st.value)):
                            params.append(st.targets[0].id)
                            grew = True
                muts = param_mutations(fa, params)
                ck.ob(R, fa.key(None, "config-not-mutated"), not muts,
                      "%s does not modify the configuration object it is given" % m.qual if not muts else
                      "%s modifies the caller's configuration object (%s): the object is shared (reused for another backend, dumped later), so an explicit "
                      "argument given once leaks into everything built from that dict afterwards" % (m.qual, muts[0][2]),
                      fa.where(muts[0][0]) if muts else fa.where())
    ck.need(n >= 4, "config-not-mutated: only %d constructors with a configuration parameter found" % n)


# =====================================================================================================
# R2: argument over configuration, per constructor parameter
# =====================================================================================================
def _precedence(ck, R2, q):
    """For every constructor parameter p that is stored somewhere (a field or a local that also receives a value read
    from the configuration): on no path class does a configuration-derived value end up there unless `p is None`,
    and on some path class p itself does.  -> number of (parameter, slot) pairs decided."""
    fa = _FA(ck, q)
    paths = _sym_paths(fa)
    ck.need(paths is not None, "%s: too many paths" % q)
    paths = [p for p in paths if p.end == "exit"]
    n = 0
    for p in fa.fi.params:
        if p in ("self", "config"):
            continue
        used = any(isinstance(x, ast.Name) and x.id == p and isinstance(x.ctx, ast.Load) for x in ast.walk(fa.node))
        if not used:
            ck.ob(R2, fa.key(None, "argument-applied:" + p), False,
                  "the explicit argument %s is accepted and never used: whatever the caller passes, the configured (or default) value stays" % p, fa.where())
            continue
        slots = {}
        for s in fa.stmts(ast.Assign):
            if len(s.targets) != 1:
                continue
            t = s.targets[0]
            if not (isinstance(t, ast.Name) or (A.dotted(t) or "").startswith("self.")):
                continue
            br = _branches(s.value)
            if any(isinstance(b, ast.Name) and b.id == p for b in br) and A.norm(t) != p:
                slots.setdefault(A.norm(t), s)
            elif A.norm(t) == p and _mentions_config(s.value):
                slots.setdefault(p, s)
        for slot, first in sorted(slots.items()):
            cases = _final_cases(ck, fa, paths, slot)
            from_cfg = [(l, v) for (l, v) in cases if v is not None and _mentions_config(v) and not (isinstance(v, ast.Name) and v.id == p)]
            if not from_cfg:
                continue
            n += 1
            is_arg = [(l, v) for (l, v) in cases if (v is None and slot == p) or (isinstance(v, ast.Name) and v.id == p)]
            bad = [(l, v) for (l, v) in from_cfg if ("%s is None" % p, True) not in l]
            ok = bool(is_arg) and not bad
            ck.ob(R2, fa.key(None, "override:" + p), ok, "argument %s overrides the configured value" % p if ok else
                  ("the configured value `%s` ends up in %s although the explicit argument %s was given: the file overrides the argument"
                   % (A.short(bad[0][1], 50), slot, p) if bad else
                   "%s never ends up holding the explicit argument %s: the configured value is assigned after it" % (slot, p)), fa.where(first))
    return n


def _cluster_backend_precedence(ck, R2, cfgm):
    """FunctionCluster: the storage / runner is the explicit object when one is given; otherwise the backend created
    from the configured section (its 'type' and the section itself) when the configuration has one; otherwise the
    default type with the default configuration."""
    fc = _FA(ck, "configuration.FunctionCluster.__init__")
    paths = _sym_paths(fc)
    ck.need(paths is not None, "FunctionCluster.__init__: too many paths")
    paths = [p for p in paths if p.end == "exit"]
    for what, factory in (("storage", "StorageBackend"), ("runner", "RunnerBackend")):
        cases = _final_cases(ck, fc, paths, "self." + what)
        why = None
        if not any(isinstance(v, ast.Name) and v.id == what for (l, v) in cases if v is not None):
            why = "the explicit %s object is never used" % what
        n_default = n_configured = 0
        member = "'%s' in config" % what
        for (l, v) in cases:
            if why:
                break
            if v is None:
                why = "self.%s is not assigned on some path" % what
                break
            if isinstance(v, ast.Name) and v.id == what:
                continue
            lits = {(re.sub(r"\bself\.config\b", "config", t), pol) for (t, pol) in l}
            if ("%s is None" % what, True) not in lits:
                why = "`%s` is used although an explicit %s was given" % (A.short(v, 50), what)
            elif not (isinstance(v, ast.Call) and A.call_dotted(v) == factory + ".create" and len(v.args) == 2 and not v.keywords):
                why = "`%s` is not %s.create(type, config)" % (A.short(v, 50), factory)
            else:
                a0, a1 = (re.sub(r"\bself\.config\b", "config", A.norm(x)) for x in v.args)
                dflt_t = "_DEFAULT_%s_TYPE" % what.upper()
                dflt_c = "_DEFAULT_%s_CONFIG" % what.upper()
                consts = {dflt_t: cfgm.assigns.get(dflt_t), dflt_c: cfgm.assigns.get(dflt_c)}
                is_default = (a0 == dflt_t or (consts[dflt_t] is not None and a0 == A.norm(consts[dflt_t]))) and \
                             (a1 == dflt_c or (consts[dflt_c] is not None and a1 == A.norm(consts[dflt_c])))
                is_configured = a1 == "config['%s']" % what and a0 == "config['%s']['type']" % what
                if is_default and (member, False) in lits:
                    n_default += 1
                elif is_configured and (member, True) in lits:
                    n_configured += 1
                else:
                    why = "`%s` is neither the configured backend under \"'%s' in config\" nor the default without it" % (A.short(v, 60), what)
        if not why and not (n_default and n_configured):
            why = "no path creates the %s backend" % ("default" if not n_default else "configured")
        ck.ob(R2, fc.key(None, what + "-precedence"), not why, "%s: argument, else configured type+config, else default" % what if not why else
              "the cluster's %s is not chosen as argument > configuration > default: %s" % (what, why), fc.where())


# =====================================================================================================
# R3: create()
# =====================================================================================================
def _registry_name(ck, q):
    """The module-level table that register() stores into (found by what register() does)."""
    fa = _FA(ck, q)
    names = set()
    for s in fa.stmts(ast.Assign):
        for t in s.targets:
            if isinstance(t, ast.Subscript) and isinstance(t.value, ast.Name) and not (len(fa.fi.params) > 1 and t.value.id in fa.fi.params):
                names.add(t.value.id)
    for c in fa.calls():
        if A.call_attr(c) in ("__setitem__", "setdefault", "update") and isinstance(A.call_recv(c), ast.Name):
            names.add(A.call_recv(c).id)
    return fa.one(sorted(names), "registry table written by register()")


def _create_rule(ck, R3):
    for q in ("storage.StorageBackend.create", "runner.RunnerBackend.create"):
        fa = _FA(ck, q)
        reg = _registry_name(ck, q.rsplit(".", 1)[0] + ".register")
        params = [p for p in fa.fi.params if p not in ("cls", "self")]
        ck.need(len(params) == 2, "%s: expected (type, config) parameters" % q)
        tp, cp = params
        paths = _sym_paths(fa)
        ck.need(paths is not None, "%s: too many paths" % q)
        why = None
        n = 0
        for p in paths:
            for (l, v) in _value_cases(ck, fa, p.lits, p.value, p.env):
                n += 1
                if not (isinstance(v, ast.Call) and len(v.args) == 1 and not v.keywords and A.norm(v.args[0]) == cp):
                    why = "`%s` does not pass the configuration object to the registered class" % A.short(v, 60)
                    continue
                f = v.func
                looked_up = guarded = False
                if isinstance(f, ast.Subscript) and A.norm(f.value) == reg and A.norm(f.slice) == tp:
                    looked_up = guarded = True  # an unknown type raises by itself
                elif isinstance(f, ast.Call) and A.call_attr(f) == "get" and A.norm(A.call_recv(f)) == reg and len(f.args) == 1 and A.norm(f.args[0]) == tp:
                    looked_up = True
                    guarded = ("%s in %s" % (tp, reg), True) in l or ("%s is None" % A.norm(f), False) in l
                if not looked_up:
                    why = "`%s` is not the class registered under the requested type" % A.short(f, 60)
                elif not guarded:
                    why = "an unregistered type is not refused before `%s`" % A.short(v, 60)
        okc = n > 0 and why is None
        ck.ob(R3, fa.key(None), okc, "create() instantiates the registered class with the configuration" if okc else
              "create() does not instantiate the registered class with the configuration object%s" % (": " + why if why else ""), fa.where())


# =====================================================================================================
# R4: cluster search
# =====================================================================================================
def _first_match(ck, R4):
    gc = _FA(ck, "configuration.Environment.get_cluster")
    nm = [p for p in gc.fi.params if p != "self"][0]
    cfg = gc.cfg
    heads = [n for n in cfg.nodes if n.kind == "for" and n.id in cfg.reachable_nodes()]
    over_repos = [n for n in heads if any(A.dotted(x) == "self.repos" for x in ast.walk(n.ast.iter))]
    why = None
    where = gc.where()
    lazy_ok = set()  # texts of `next((r.clusters[name] for r in self.repos if name in r.clusters), None)`: first match by construction
    eager_ok = set()  # texts of `[r.clusters[name] for r in self.repos if name in r.clusters]`: all hits, in repository order
    if not over_repos:
        comp = [x for x in A.walk_body(gc.node) if isinstance(x, (ast.ListComp, ast.GeneratorExp, ast.SetComp, ast.DictComp))
                and any(A.dotted(y) == "self.repos" for y in ast.walk(x))]
        for x in comp:
            call = gc.pm.get(x)
            g = x.generators[0]
            lv = A.norm(g.target)
            shape = isinstance(x, ast.GeneratorExp) and isinstance(call, ast.Call) and A.call_dotted(call) == "next" and len(call.args) == 2 \
                and call.args[0] is x and not call.keywords and len(x.generators) == 1
            if not shape and isinstance(x, ast.ListComp) and len(x.generators) == 1:
                # every hit collected in repository order: what the function then answers with is judged per path below
                # (the first element where there is one, None where there is none)
                if A.norm(g.iter) != "self.repos":
                    why = "the repositories are searched as `%s`, not in self.repos order" % A.norm(g.iter)
                elif not (A.norm(x.elt) == "%s.clusters[%s]" % (lv, nm) and [A.norm(c) for c in g.ifs] == ["%s in %s.clusters" % (nm, lv)]):
                    why = "`%s` does not collect the clusters of the repositories defining the name" % A.short(x, 60)
                else:
                    eager_ok.add(A.norm(x))
                continue
            ck.need(shape, "get_cluster: the search over self.repos is a comprehension of a shape this rule cannot decide")
            if not A.is_none(call.args[1]):
                why = "without a hit the function returns `%s`, not None" % A.short(call.args[1], 40)
            elif A.norm(g.iter) != "self.repos":
                why = "the repositories are searched as `%s`, not in self.repos order" % A.norm(g.iter)
            elif not (A.norm(x.elt) == "%s.clusters[%s]" % (lv, nm) and [A.norm(c) for c in g.ifs] == ["%s in %s.clusters" % (nm, lv)]):
                why = "`%s` does not yield the cluster of the first repository defining the name" % A.short(x, 60)
            else:
                lazy_ok.add(A.norm(call))
    if lazy_ok or eager_ok or (why and not over_repos):
        pass
    elif len(over_repos) != 1:
        why = "%d loops over self.repos" % len(over_repos)
    else:
        head = over_repos[0]
        loop = head.ast
        it = gc.xnorm(loop.iter, head.id)
        lv = A.norm(loop.target)
        if it not in ("self.repos", "list(self.repos)", "tuple(self.repos)", "self.repos[:]"):
            why = "the repositories are searched as `%s`, not in self.repos order" % it
        hits = []  # (stmt, node ids)
        for s in A.walk_local(loop):
            if not isinstance(s, (ast.Return, ast.Assign)) or s.value is None or why:
                continue
            if any(gc.inside(s, b) for b in loop.orelse):
                continue  # runs once the repositories are exhausted: judged with the no-hit exits below
            if isinstance(s, ast.Assign) and not (len(s.targets) == 1 and isinstance(s.targets[0], ast.Name)):
                continue
            ids = gc.nodes(s)
            if not ids:
                continue
            v = gc.xnorm(s.value, ids[0])
            need = None
            if v == "%s.clusters[%s]" % (lv, nm):
                need = ("%s in %s.clusters" % (nm, lv), True)
            else:
                m = re.fullmatch(re.escape("%s.clusters.get(%s" % (lv, nm)) + r"(?:, (\w+))?\)", v)
                if m:
                    need = ("%s is %s" % (v, m.group(1) or "None"), False)
            if need is None:
                if isinstance(s, ast.Return):
                    why = "`%s` inside the search loop does not return the cluster of the repository at hand" % A.short(s, 50)
                    where = gc.where(s)
                continue
            conds = gc.conditions(s)
            if isinstance(s, ast.Assign) and not (conds and all(need in c for c in conds)):
                continue  # a probe (`hit = repo.clusters.get(name, MISSING)`), not yet an answer
            if conds is None or not conds or not all(need in c for c in conds):
                why = "`%s` is not guarded by the repository defining the cluster" % A.short(s, 50)
                where = gc.where(s)
                continue
            hits.append((s, ids))
        if not why and not hits:
            why = "no statement in the loop yields %s.clusters[%s]" % (lv, nm)
        hit_nodes = [i for (_s, ids) in hits for i in ids]
        for (s, ids) in hits:
            if why or isinstance(s, ast.Return):
                continue
            r = s.targets[0].id
            after = cfg.reach(ids, include_start=False, edge_ok=lambda a, b, l: l != "exc")
            if head.id in after:
                why = "the search goes on after a hit (`%s`): a later repository overrides an earlier one" % A.short(s, 50)
                where = gc.where(s)
                continue
            for i in after:
                a = cfg.node(i).ast
                if cfg.node(i).kind != "stmt":
                    continue
                if isinstance(a, ast.Return) and not (isinstance(a.value, ast.Name) and a.value.id == r):
                    why = "after the hit `%s` the function returns `%s`" % (A.short(s, 40), A.short(a.value, 30))
                if isinstance(a, (ast.Assign, ast.AugAssign)) and any(isinstance(x, ast.Name) and x.id == r and isinstance(x.ctx, ast.Store) for x in ast.walk(a)):
                    why = "the hit is overwritten by `%s`" % A.short(a, 40)
        if not why:
            # no hit: None
            miss = cfg.reach([head.id], removed=hit_nodes, edge_ok=lambda a, b, l: l != "exc")
            for i in miss:
                a = cfg.node(i).ast
                if cfg.node(i).kind != "stmt" or not isinstance(a, ast.Return) or a.value is None or A.is_none(a.value):
                    continue
                ok_none = False
                if isinstance(a.value, ast.Name):
                    ds = [d for d in gc.df.reaching(i, a.value.id) if d.node not in hit_nodes and (d.node == -1 or head.id in cfg.reach([d.node]))]
                    ok_none = bool(ds) and all(d.kind == "assign" and d.value is not None and A.is_none(d.value) for d in ds)
                if not ok_none:
                    why = "without a hit the function returns `%s`, not None" % A.short(a.value, 40)
                    where = gc.where(a)
    # every answer that does not come out of the search is the default cluster, for "no name" only (a remembered
    # answer returned before / instead of the search is not the first repository *now* defining the name)
    head_ids = {n.id for n in over_repos}
    paths = _sym_paths(gc, observe=lambda nd, env: "searched" if nd.id in head_ids else None)
    ck.need(paths is not None, "get_cluster: too many paths")
    for p in paths:
        if why or "searched" in p.obs:
            continue
        for (l, v) in _value_cases(ck, gc, p.lits, p.value, p.env):
            if A.norm(v) in lazy_ok and ("%s is None" % nm, False) in l:
                continue
            # the hits collected first: the first of them where there is one, None where there is none
            if any(A.norm(v) == c_ + "[0]" and (c_, True) in l for c_ in eager_ok) and ("%s is None" % nm, False) in l:
                continue
            if A.is_none(v) and any((c_, False) in l for c_ in eager_ok) and ("%s is None" % nm, False) in l:
                continue
            if any(c_ in A.norm(v) for c_ in eager_ok):
                why = "of the clusters found in repository order the function answers with `%s`, not with the first" % A.short(v, 60).replace(
                    next(c_ for c_ in eager_ok if c_ in A.norm(v)), "<hits>")
                continue
            if not (("%s is None" % nm, True) in l and A.norm(v) == "self.default_cluster"):
                why = "`%s` is returned without searching the repositories" % A.short(v, 50)
                if p.end == "return":
                    where = gc.where(cfg.node(p.node).ast)
    ok = why is None
    ck.ob(R4, gc.key(None, "first-match"), ok, "repositories are searched in order; the first that defines the cluster wins; None otherwise" if ok else
          "get_cluster does not return the first repository (in self.repos order) defining the cluster, or None: %s" % why, where)
    # no name: the default cluster
    dflt = [p for p in paths if p.has("%s is None" % nm, True)]
    vals = [A.norm(v) for p in dflt for (l, v) in _value_cases(ck, gc, p.lits, p.value, p.env)]
    okd = bool(vals) and all(v == "self.default_cluster" for v in vals)
    ck.ob(R4, gc.key(None, "default-cluster"), okd, "no name means the default cluster" if okd else "get_cluster(None) does not return the default cluster", gc.where())


def _priority_ends(ck, R4):
    pr = _FA(ck, "configuration.Environment.prepend_repo")
    ap = _FA(ck, "configuration.Environment.append_repo")

    def shapes(fa):
        p = [x for x in fa.fi.params if x != "self"][0]
        found = set()
        for c in fa.calls():
            if A.norm(A.call_recv(c)) != "self.repos":
                continue
            args = [fa.xnorm(a_) for a_ in c.args]
            if A.call_attr(c) == "insert" and args == ["0", p]:
                found.add("front")
            elif A.call_attr(c) == "insert":
                found.add("other")
            elif A.call_attr(c) == "append" and args == [p]:
                found.add("back")
            elif A.call_attr(c) == "extend" and args in (["[%s]" % p], ["(%s,)" % p]):
                found.add("back")
        for s in fa.stmts((ast.Assign, ast.AugAssign)):
            tg = s.targets if isinstance(s, ast.Assign) else [s.target]
            v = fa.xnorm(s.value)
            for t in tg:
                if A.norm(t) == "self.repos[:0]" and v == "[%s]" % p:
                    found.add("front")
                if A.norm(t) != "self.repos":
                    continue
                if isinstance(s, ast.AugAssign):
                    found.add("back" if isinstance(s.op, ast.Add) and v in ("[%s]" % p, "(%s,)" % p) else "other")
                elif v in ("[%s] + self.repos" % p, "[%s, *self.repos]" % p):
                    found.add("front")
                elif v in ("self.repos + [%s]" % p, "[*self.repos, %s]" % p):
                    found.add("back")
                else:
                    found.add("other")
        return found

    okp = shapes(pr) == {"front"} and shapes(ap) == {"back"}
    ck.ob(R4, pr.key(None, "priority-ends"), okp, "prepend = highest priority, append = lowest" if okp else
          "prepend_repo / append_repo do not insert at the front / back of self.repos", pr.where())


def _repo_order(ck, R4):
    """Environment.__init__: the configured repositories are built by ONE pass over the 'repos' list of the
    configuration, in list order (a comprehension without filter, or a loop that appends)."""
    ei = _FA(ck, "configuration.Environment.__init__")

    def reads_repos(e, at):
        try:
            x = _strip_default(ei.expand(e, at))
        except AnalysisError:
            x = e
        k = None
        if isinstance(x, ast.Call) and A.call_attr(x) == "get" and x.args:
            k, recv = A.const_str(x.args[0]), A.call_recv(x)
        elif isinstance(x, ast.Subscript):
            k, recv = A.const_str(x.slice), x.value
        elif isinstance(x, ast.IfExp) and isinstance(x.body, ast.Subscript) and (_is_empty_dict(x.orelse) or (isinstance(x.orelse, (ast.List, ast.Tuple)) and not x.orelse.elts)):
            k, recv = A.const_str(x.body.slice), x.body.value
        if k != "repos":
            return False
        return A.norm(_strip_default(recv)) in ("config", "self.config")

    def mentions_repos_key(e):
        return any(A.const_str(x) == "repos" for x in ast.walk(e))

    good, bad = [], []
    for n in A.walk_body(ei.node):
        if isinstance(n, ast.ListComp):
            ids = ei.nodes(n)
            if not ids or not any(mentions_repos_key(g.iter) or reads_repos(g.iter, ids[0]) for g in n.generators):
                continue
            g = n.generators[0]
            if len(n.generators) == 1 and not g.ifs and reads_repos(g.iter, ids[0]):
                good.append(n)
            else:
                bad.append(n)
        elif isinstance(n, (ast.SetComp, ast.DictComp, ast.GeneratorExp)) and any(mentions_repos_key(g.iter) for g in n.generators):
            bad.append(n)
    for h in ei.cfg.nodes:
        if h.kind != "for" or h.id not in ei.cfg.reachable_nodes():
            continue
        loop = h.ast
        if not (mentions_repos_key(loop.iter) or reads_repos(loop.iter, h.id)):
            continue
        muts = [c for c in A.calls_in(loop) if A.call_attr(c) in ("append", "insert", "extend", "add", "appendleft")
                and not any(c is x for b in loop.orelse for x in A.calls_in(b))]
        if reads_repos(loop.iter, h.id) and len(muts) == 1 and A.call_attr(muts[0]) == "append" and ei.enclosing(muts[0], ast.If) is None:
            good.append(loop)
        else:
            bad.append(loop)
    ck.need(good or bad, "Environment.__init__: no pass over the configured 'repos' list found")
    okr = len(good) == 1 and not bad
    ck.ob(R4, ei.key(None, "repo-order"), okr, "configured repositories keep their file order" if okr else
          "repositories are not loaded in the order of the 'repos' list", ei.where((bad or good)[0]))


# =====================================================================================================
# R6: nested configured objects are dumped as the structural image of the field that holds them
# =====================================================================================================
_KEY, _VAL = "§key", "§value"  # one element of the source collection (not identifiers: cannot clash with a local)
_COPY_WRAPPERS = ("dict", "deepcopy", "copy.deepcopy", "copy.copy", "OrderedDict")


class _Image:
    """A collection derived element by element from ONE collection field of the object: `key` / `val` are
    expressions over the element's key (_KEY) and value (_VAL) in that field."""
    __slots__ = ("src", "kind", "key", "val", "ordered", "total", "why")

    def __init__(self, src, kind, key, val, ordered=True, total=True, why=None):
        self.src, self.kind, self.key, self.val, self.ordered, self.total, self.why = src, kind, key, val, ordered, total, why

    def but(self, **kw):
        d = {s: getattr(self, s) for s in self.__slots__}
        d.update(kw)
        return _Image(**d)


def _ph(name):
    return ast.Name(id=name, ctx=ast.Load())


def _pair(a, b):
    return ast.Tuple(elts=[a, b], ctx=ast.Load())


def _bind_target(tg, value, env):
    """Bind a comprehension / loop target to the expression one element denotes (-> False when it cannot be bound)."""
    if isinstance(tg, ast.Name):
        env[tg.id] = value
        return True
    if isinstance(tg, (ast.Tuple, ast.List)) and isinstance(value, ast.Tuple) and len(tg.elts) == len(value.elts) \
            and not any(isinstance(x, ast.Starred) for x in tg.elts):
        return all(_bind_target(t, v, env) for t, v in zip(tg.elts, value.elts))
    return False


class _Srcs:
    """The collections an image may be derived from: dotted field -> 'map' | 'seq', plus (optionally) a recogniser
    `match(fa, expr, at) -> source text | None` for sources that are not a field (a section of the configuration)."""

    def __init__(self, kinds, match=None, markers=()):
        self.kinds, self.match = dict(kinds), match
        # a branch literal that mentions one of these only asks whether the source is there / non-empty
        self.markers = tuple(markers) or tuple(self.kinds)

    def find(self, fa, e, at):
        if isinstance(e, ast.Attribute) and A.dotted(e) in self.kinds:
            return A.dotted(e)
        if self.match is not None and isinstance(e, (ast.Call, ast.Subscript, ast.Name, ast.BoolOp, ast.IfExp)):
            return self.match(fa, e, at)
        return None


def _presence_test(text, markers):
    """Is a branch literal / test (normalised text) only the question whether a source is there / has elements?"""
    text = text.strip()
    while text.startswith("not "):
        text = text[4:].strip()
    for m in markers:
        if text in (m, "len(%s)" % m, "bool(%s)" % m, "%s is None" % m, "%s is not None" % m, "len(%s) > 0" % m, "len(%s) == 0" % m, "0 == len(%s)" % m,
                    "len(%s) != 0" % m, "0 < len(%s)" % m, "len(%s) >= 1" % m) or text.startswith(m + " in ") or text.startswith(m + " not in "):
            return True
    return False


def _elem_expr(fa, e, at, env, src, srcs):
    """An element expression of a comprehension / accumulating loop over the placeholders: bound variables replaced
    by what they denote, other temporaries by their definition, `SRC[key]` / `SRC.get(key)` read as the element's
    value, `(a, b)[i]` projected, casts dropped."""
    class S(ast.NodeTransformer):
        def visit_Name(self, n):
            v = env.get(n.id)
            return copy.deepcopy(v) if isinstance(v, ast.AST) and isinstance(n.ctx, ast.Load) else n

    # bound variables first (they shadow locals of the same name), then temporaries, then the loop variables the
    # temporaries were computed from
    e = S().visit(copy.deepcopy(e))
    try:
        e = S().visit(fa.expand(e, at))
    except AnalysisError:
        pass

    def is_src(x):
        if any(isinstance(y, ast.Name) and y.id in (_KEY, _VAL) for y in ast.walk(x)):
            return False
        return srcs.find(fa, x, at) == src

    class R(ast.NodeTransformer):
        def visit_Subscript(self, n):
            self.generic_visit(n)
            if A.norm(n.slice) == _KEY and is_src(n.value):
                return _ph(_VAL)
            if isinstance(n.value, ast.Tuple) and isinstance(n.slice, ast.Constant) and isinstance(n.slice.value, int) \
                    and -len(n.value.elts) <= n.slice.value < len(n.value.elts):
                return n.value.elts[n.slice.value]
            return n

        def visit_Call(self, n):
            self.generic_visit(n)
            if A.call_attr(n) == "get" and len(n.args) == 1 and not n.keywords and A.norm(n.args[0]) == _KEY and is_src(A.call_recv(n)):
                return _ph(_VAL)
            if isinstance(n.func, ast.Name) and n.func.id == "cast" and len(n.args) == 2:
                return n.args[1]
            return n

    return R().visit(e)


def _strip_copies(e):
    """`dict(x)` / `copy.deepcopy(x)` / `{**x}` / `x.copy()` -> x (a copy of a dump is the same dump)."""
    while True:
        if isinstance(e, ast.Call) and A.call_dotted(e) in _COPY_WRAPPERS and len(e.args) == 1 and not e.keywords:
            e = e.args[0]
        elif isinstance(e, ast.Call) and A.call_attr(e) == "copy" and not e.args and not e.keywords and A.call_recv(e) is not None:
            e = A.call_recv(e)
        elif isinstance(e, ast.Dict) and len(e.keys) == 1 and e.keys[0] is None:
            e = e.values[0]
        else:
            return e


_MUTATORS = ("append", "extend", "insert", "update", "setdefault", "pop", "popitem", "clear", "remove", "add", "sort", "reverse", "__setitem__", "__delitem__")


def _content_mutations(fa, text):
    """Statements that change the content of the object a local / field (`text`) is bound to: stores / deletes of its
    items, calls of its mutating methods, augmented assignments."""
    out = []
    for st in fa.stmts():
        if isinstance(st, ast.Assign) and any(isinstance(t, ast.Subscript) and A.norm(t.value) == text for t in st.targets):
            out.append(st)
        elif isinstance(st, ast.AugAssign) and (A.norm(st.target) == text or (isinstance(st.target, ast.Subscript) and A.norm(st.target.value) == text)):
            out.append(st)
        elif isinstance(st, ast.Delete) and any(isinstance(t, ast.Subscript) and A.norm(t.value) == text for t in st.targets):
            out.append(st)
        elif isinstance(st, ast.Expr) and isinstance(st.value, ast.Call) and isinstance(st.value.func, ast.Attribute) \
                and A.norm(st.value.func.value) == text and st.value.func.attr in _MUTATORS:
            out.append(st)
    return out


def _keyed(img, srcs):
    """A mapping built from the elements of the source: unless it is keyed by the source's own (unique) keys, elements
    that share a key collapse into one."""
    if srcs.kinds.get(img.src) == "map" and A.norm(img.key) == _KEY:
        return img
    return img.but(total=False, why=img.why or "elements that share the key `%s` collapse into one" % A.norm(img.key).replace(_KEY, "<key>").replace(_VAL, "<element>"))


def _is_empty_list(e):
    return (isinstance(e, ast.List) and not e.elts) or (isinstance(e, ast.Call) and isinstance(e.func, ast.Name) and e.func.id == "list" and not e.args and not e.keywords)


def _accumulated(fa, text, dstmt, dvalue, srcs, depth):
    """`acc = {}` / `[]` (a local or a field, `text`) that is filled by ONE statement of ONE loop: the image the
    comprehension spelt out by that loop denotes.  None when the filling has another shape."""
    muts = _content_mutations(fa, text)
    as_map, as_seq = _is_empty_dict(dvalue), _is_empty_list(dvalue)
    if not (as_map or as_seq) or len(muts) != 1:
        return None
    m = muts[0]
    loop = fa.enclosing(m, (ast.For, ast.While))
    if not isinstance(loop, ast.For) or fa.enclosing(loop, (ast.For, ast.While)) is not None or loop.orelse:
        return None
    # the loop runs whenever the empty container was created — except under tests of the source itself (`if K in config`,
    # `if self.x:`), under which skipping the loop leaves exactly the empty image
    lc, dc = fa.conditions(loop), fa.conditions(dstmt)
    if lc is None or dc is None:
        return None
    lc = {frozenset(l for l in c if not _presence_test(l[0], srcs.markers)) for c in lc}
    if lc != dc:
        return None
    mid, hid, did = fa.nodes(m), fa.nodes(loop), fa.nodes(dstmt)
    if not mid or not hid or not did:
        return None
    # the empty container is the one the loop fills (no other binding of the name / field in between)
    ds = fa.df.reaching(mid[0], text)
    if len(ds) != 1 or ds[0].node != did[0]:
        return None
    it = _image(fa, loop.iter, hid[0], {}, srcs, depth - 1)
    if it is None:
        return None
    lenv = {}
    if not _bind_target(loop.target, it.key if it.kind == "map" else it.val, lenv):
        return None
    inner = fa.enclosing(m, (ast.If, ast.Try, ast.With, ast.Match))
    filtered = inner is not None and fa.inside(inner, loop)
    jumps = any(isinstance(x, (ast.Break, ast.Continue, ast.Return, ast.Raise)) for x in A.walk_local(loop))
    total = it.total and not filtered and not jumps
    why = it.why or ("some elements are skipped (`%s` is not executed for every element)" % A.short(m, 40) if filtered or jumps else None)
    ex = lambda x: _elem_expr(fa, x, mid[0], lenv, it.src, srcs)
    if isinstance(m, ast.Assign) and len(m.targets) == 1 and isinstance(m.targets[0], ast.Subscript) and as_map:
        return _keyed(_Image(it.src, "map", ex(m.targets[0].slice), ex(m.value), it.ordered, total, why), srcs)
    if isinstance(m, ast.Expr):
        c = m.value
        if c.func.attr == "append" and len(c.args) == 1 and not c.keywords and as_seq:
            return _Image(it.src, "seq", None, ex(c.args[0]), it.ordered, total, why)
        if c.func.attr in ("__setitem__", "setdefault") and len(c.args) == 2 and as_map:
            return _keyed(_Image(it.src, "map", ex(c.args[0]), ex(c.args[1]), it.ordered, total, why), srcs)
        if c.func.attr == "update" and len(c.args) == 1 and not c.keywords and isinstance(c.args[0], ast.Dict) and len(c.args[0].keys) == 1 \
                and c.args[0].keys[0] is not None and as_map:
            return _keyed(_Image(it.src, "map", ex(c.args[0].keys[0]), ex(c.args[0].values[0]), it.ordered, total, why), srcs)
    return None


def _image(fa, e, at, env, srcs, depth=8):
    """The _Image an expression (evaluated at CFG node `at`) denotes; None when it is not one this evaluator
    understands.  `env`: comprehension variables -> expression over the placeholders."""
    if e is None or depth <= 0:
        return None
    rec = lambda x: _image(fa, x, at, env, srcs, depth - 1)
    as_seq = lambda x: x if x.kind == "seq" else x.but(kind="seq", key=None, val=x.key)
    if not (isinstance(e, ast.Name) and e.id in env):
        s = srcs.find(fa, e, at)
        if s is not None:
            return _Image(s, srcs.kinds[s], _ph(_KEY), _ph(_VAL))
    if isinstance(e, ast.Name):
        if e.id in env:
            return None
        ds = fa.df.reaching(at, e.id)
        if len(ds) != 1 or ds[0].kind != "assign" or ds[0].value is None:
            return None
        d = ds[0]
        if not _content_mutations(fa, e.id):
            return _image(fa, d.value, d.node, {}, srcs, depth - 1)
        return _accumulated(fa, e.id, d.stmt if d.stmt is not None else d.node, d.value, srcs, depth) if d.stmt is not None else None
    if isinstance(e, (ast.ListComp, ast.GeneratorExp, ast.SetComp, ast.DictComp)):
        if len(e.generators) != 1 or e.generators[0].is_async:
            return None
        g = e.generators[0]
        it = rec(g.iter)
        if it is None:
            return None
        cenv = dict(env)
        if not _bind_target(g.target, it.key if it.kind == "map" else it.val, cenv):
            return None
        total = it.total and not g.ifs
        why = it.why or ("elements are filtered by `%s`" % A.short(g.ifs[0], 40) if g.ifs else None)
        ex = lambda x: _elem_expr(fa, x, at, cenv, it.src, srcs)
        if isinstance(e, ast.DictComp):
            return _keyed(_Image(it.src, "map", ex(e.key), ex(e.value), it.ordered, total, why), srcs)
        ordered = it.ordered and not isinstance(e, ast.SetComp)
        return _Image(it.src, "seq", None, ex(e.elt), ordered, total, why if ordered or why else "a set has no order")
    if isinstance(e, ast.IfExp) or (isinstance(e, ast.BoolOp) and isinstance(e.op, ast.Or) and len(e.values) == 2):
        # `IMAGE if <the source is there> else {}` / `IMAGE or {}`: without elements the image is the empty container anyway
        a_, b_ = (e.body, e.orelse) if isinstance(e, ast.IfExp) else e.values
        empty = lambda x: _is_empty_dict(x) or _is_empty_list(x) or (isinstance(x, ast.Tuple) and not x.elts)
        about_src = isinstance(e, ast.BoolOp) or _presence_test(A.norm(e.test), srcs.markers)
        if about_src and empty(b_):
            return rec(a_)
        if about_src and empty(a_) and isinstance(e, ast.IfExp):
            return rec(b_)
        return None
    if isinstance(e, ast.Subscript) and isinstance(e.slice, ast.Slice):
        x = rec(e.value)
        if x is None or x.kind != "seq":
            return None
        if e.slice.lower is None and e.slice.upper is None and e.slice.step is None:
            return x
        return x.but(total=False, why=x.why or "only the slice `%s` of it is taken" % A.short(e, 40))
    if isinstance(e, ast.Dict) and len(e.keys) == 1 and e.keys[0] is None:
        x = rec(e.values[0])
        return x if x is not None and x.kind == "map" else None
    if isinstance(e, (ast.List, ast.Tuple)) and len(e.elts) == 1 and isinstance(e.elts[0], ast.Starred):
        x = rec(e.elts[0].value)
        return None if x is None else as_seq(x)
    if isinstance(e, ast.Call):
        f = e.func
        if isinstance(f, ast.Attribute) and not e.args and not e.keywords:
            x = rec(f.value)
            if x is None:
                return None
            if f.attr == "copy":
                return x
            if x.kind == "map" and f.attr == "items":
                return x.but(kind="seq", key=None, val=_pair(x.key, x.val))
            if x.kind == "map" and f.attr == "values":
                return x.but(kind="seq", key=None)
            if x.kind == "map" and f.attr == "keys":
                return x.but(kind="seq", key=None, val=x.key)
            return None
        name = A.call_dotted(e)
        if name in ("list", "tuple", "iter") and len(e.args) == 1 and not e.keywords:
            x = rec(e.args[0])
            return None if x is None else as_seq(x)
        if name in ("sorted", "reversed", "set", "frozenset") and len(e.args) == 1:
            x = rec(e.args[0])
            if x is None:
                return None
            return as_seq(x).but(ordered=False, why=x.why or "`%s(...)` does not keep the order of %s" % (name, x.src))
        if name in ("dict", "OrderedDict") and len(e.args) == 1 and not e.keywords:
            x = rec(e.args[0])
            if x is None:
                return None
            if x.kind == "map":
                return x
            if isinstance(x.val, ast.Tuple) and len(x.val.elts) == 2:
                return _keyed(x.but(kind="map", key=x.val.elts[0], val=x.val.elts[1]), srcs)
            return None
        if name == "zip" and len(e.args) == 2 and not e.keywords:
            a_, b_ = rec(e.args[0]), rec(e.args[1])
            if a_ is None or b_ is None or a_.src != b_.src:
                return None
            a_, b_ = as_seq(a_), as_seq(b_)
            if not (a_.ordered and b_.ordered):
                return None
            return _Image(a_.src, "seq", None, _pair(a_.val, b_.val), True, a_.total and b_.total, a_.why or b_.why)
    return None


def _value_roots(fa, e, at, depth=4):
    """What a value can be, read through conditional expressions and through the locals it is handed on by (every
    definition of the local that reaches the place): the expressions at the far end."""
    out = []
    for b in _branches(e):
        if isinstance(b, ast.Name) and b.id not in fa.fi.params and depth > 0 and at is not None:
            vals = [(d.value, d.node) for d in fa.df.reaching(at, b.id) if d.kind == "assign" and d.value is not None]
            if vals:
                for (v, n_) in vals:
                    out += _value_roots(fa, v, n_, depth - 1)
                continue
        out.append(b)
    return out


def _field_shape(ck, cls, init_fa, field):
    """How a field holds objects that dump themselves: ('one' | 'map' | 'seq', element class) or None.  From the
    declared type of the field, else the annotation of the constructor parameter that is stored in it."""
    texts = [ck.repo.field_type(cls, field)]
    for s in init_fa.stmts(ast.Assign):
        if any(A.dotted(t) == "self." + field for t in s.targets):
            for b in _value_roots(init_fa, s.value, (init_fa.nodes(s) or [None])[0]):
                if isinstance(b, ast.Name) and b.id in init_fa.fi.params:
                    texts.append(init_fa.fi.param_annotation(b.id))
    for t in texts:
        if not t:
            continue
        t = t.strip().strip("'\"")
        m = re.match(r"^(?:typing\.)?Optional\[(.*)\]$", t)
        if m:
            t = m.group(1).strip()
        shape, inner = "one", t
        m = re.match(r"^(?:typing\.)?(Dict|dict|Mapping|MutableMapping|OrderedDict)\[(.*)\]$", t)
        if m:
            shape, inner = "map", ck.cg._subscript_type_text(t)
        else:
            m = re.match(r"^(?:typing\.)?(List|list|Sequence|Tuple|tuple)\[(.*)\]$", t)
            if m:
                shape, inner = "seq", m.group(2).split(",")[0].strip()
        ec = ck.cg.class_of_typename(inner, cls) if inner else None
        if ec is None or ec == "builtin":
            continue
        if ck.repo.find_method(ec, "to_dict") is not None:
            return shape, ec
    return None


def _raw_entry_value(en):
    """The value expression of a dump entry as written (the entry table may carry an expanded copy)."""
    v = getattr(en.stmt, "value", None)
    if isinstance(v, ast.Dict):
        for k, x in zip(v.keys, v.values):
            if k is not None and A.const_str(k) == en.key:
                return x
    return en.value


def check_nested_dumps(ck, R, reads_of):
    """A cluster / repository / environment holds other configured objects (its storage and runner, its clusters
    by registration key, its repositories in priority order).  The environment rebuilt from a dump resolves names
    through exactly these containers, so the dump must be their structural image: a single object as its own
    to_dict(); a map with the SAME keys, each value the to_dict() of the object registered under that key; a list
    in the SAME order, each element the to_dict() of the object at that position, nothing skipped."""
    cfgm = ck.repo.module("configuration")
    n = 0
    for clsname in ("FunctionCluster", "ConfigurationRepository", "Environment"):
        cls = cfgm.classes[clsname]
        init = _FA(ck, cls.methods["__init__"])
        td = _FA(ck, cls.methods["to_dict"])
        entries = _dump_entries(td)
        fields = set()
        for s in init.stmts(ast.Assign):
            for t in s.targets:
                d = A.dotted(t) or ""
                if d.startswith("self.") and d.count(".") == 1 and any(isinstance(b, ast.Name) and b.id in init.fi.params and b.id != "self"
                                                                       for b in _value_roots(init, s.value, (init.nodes(s) or [None])[0])):
                    fields.add(d[5:])
        for field in sorted(fields):
            shape = _field_shape(ck, cls, init, field)
            if shape is None:
                continue
            kind, ec = shape
            src = "self." + field
            srcs = _Srcs({src: kind})
            n += 1
            # the configuration key(s) the constructor fills the field from
            keys_in = set()
            for s in init.stmts((ast.Assign, ast.Expr)):
                tgt = []
                if isinstance(s, ast.Assign):
                    tgt = [t.value if isinstance(t, ast.Subscript) else t for t in s.targets]
                    val = s.value
                elif isinstance(s.value, ast.Call) and A.call_attr(s.value) in ("append", "update", "setdefault", "extend", "insert"):
                    tgt = [A.call_recv(s.value)]
                    val = s.value
                if not any(A.dotted(t) == src for t in tgt) or not init.nodes(s):
                    continue
                try:
                    atoms = init.deps(val, init.nodes(s)[0])
                except AnalysisError:
                    continue
                keys_in |= {k for k in reads_of[clsname] if ("const:%r" % k) in atoms}
            mine = []
            for en in entries:
                ids = td.nodes(en.stmt)
                v = _raw_entry_value(en)
                if v is None or not ids:
                    continue
                try:
                    derived = any(a == "attr:" + src or a.startswith("attr:" + src + ".") for a in td.deps(v, ids[0]))
                except AnalysisError:
                    derived = any(A.dotted(x) == src for x in ast.walk(v))
                if derived or any(_image(td, x, ids[0], {}, srcs) is not None for x in ast.walk(v) if isinstance(x, ast.Name)):
                    mine.append((en, v, ids[0]))
            key = "%s::nested-dump::%s" % (cls.qual, field)
            what = {"one": "the %s object" % ec.name, "map": "the %s objects by registration key" % ec.name, "seq": "the %s objects in order" % ec.name}[kind]
            if not mine:
                ck.ob(R, key, False, "%s holds %s but to_dict writes nothing derived from it: the rebuilt object does not contain them" % (src, what), td.where())
                continue
            why = None
            at_stmt = mine[0][0].stmt
            for (en, v, at) in mine:
                if why:
                    break
                at_stmt = en.stmt
                if keys_in and en.key not in keys_in:
                    why = "%s is dumped under %r while the constructor fills it from %s" % (src, en.key, sorted(keys_in))
                    break
                if en.conditional:
                    conds = td.conditions(en.stmt)
                    if conds is None or any(not _presence_test(t, srcs.markers) for c in conds for (t, _p) in c):
                        why = "the entry %r is only written under a condition that is not about %s" % (en.key, src)
                        break
                if kind == "one":
                    if A.norm(_strip_copies(_elem_expr(td, v, at, {}, src, srcs))) != "%s.to_dict()" % src:
                        why = "the entry %r is `%s`, not %s.to_dict()" % (en.key, A.short(v, 50), src)
                    continue
                img = _image(td, v, at, {}, srcs)
                if img is None:
                    raise AnalysisError("%s.to_dict: the entry %r (`%s`) is derived from %s in a way this rule cannot decide" % (cls.qual, en.key, A.short(v, 60), src))
                show = lambda x: A.norm(x).replace(_KEY, "<key>").replace(_VAL, "<%s>" % ec.name)
                if img.kind != kind:
                    why = "the entry %r is a %s, %s is a %s" % (en.key, {"map": "mapping", "seq": "sequence"}[img.kind], src, {"map": "mapping", "seq": "sequence"}[kind])
                elif kind == "map" and A.norm(img.key) != _KEY:
                    why = "the entry %r is keyed by `%s`, not by the key each %s is registered under in %s: a name that resolved before the dump " \
                          "resolves to nothing (or to a lower-priority repository) after rebuilding whenever the two differ" % (en.key, show(img.key), ec.name, src)
                elif not img.total:
                    why = "the entry %r does not contain every element of %s: %s" % (en.key, src, img.why or "elements are skipped")
                elif kind == "seq" and not img.ordered:
                    why = "the entry %r does not keep the order of %s (%s): the priority order of the rebuilt object differs" % (en.key, src, img.why or "reordered")
                elif A.norm(_strip_copies(img.val)) != "%s.to_dict()" % _VAL:
                    why = "the entry %r holds `%s` for each element, not the element's own to_dict()" % (en.key, show(img.val))
            ck.ob(R, key, why is None, "%s (%s) is dumped as its structural image" % (src, what) if why is None else
                  "to_dict does not dump %s (%s) as its structural image: %s" % (src, what, why), td.where(at_stmt))
            if kind == "map" and len(keys_in) == 1:
                _nested_load(ck, R, cls, init, field, ec, next(iter(keys_in)))
    ck.need(n >= 4, "nested-dump rule: only %d fields holding configured objects recognised" % n)


def _section_reader(key):
    """Recogniser for `<configuration>.get(key[, {}])` / `<configuration>[key]` / `... or {}` (through temporaries)."""
    src = "config[%r]" % key

    def match(fa, e, at):
        try:
            x = fa.expand(e, at)
        except AnalysisError:
            x = e
        x = _strip_default(x)
        if isinstance(x, ast.IfExp) and (_is_empty_dict(x.orelse) or _is_empty_dict(x.body)):
            x = x.body if _is_empty_dict(x.orelse) else x.orelse
        k = recv = None
        if isinstance(x, ast.Call) and A.call_attr(x) == "get" and x.args and (len(x.args) == 1 or _is_empty_dict(x.args[1]) or A.is_none(x.args[1])):
            k, recv = A.const_str(x.args[0]), A.call_recv(x)
        elif isinstance(x, ast.Subscript) and not isinstance(x.slice, ast.Slice):
            k, recv = A.const_str(x.slice), x.value
        if k != key or recv is None:
            return None
        return src if A.norm(_strip_default(recv)) in ("config", "self.config") else None

    return src, match


def _nested_load(ck, R, cls, init, field, ec, cfg_key):
    """The mirror of the dump clause on the reading side: the constructor registers one object per entry of the
    configured section, under the key the entry has there (that key is the name get_cluster resolves), built from
    the configuration given for that key."""
    src, match = _section_reader(cfg_key)
    srcs = _Srcs({src: "map"}, match, markers=(repr(cfg_key),))
    tgt = "self." + field
    why = None
    where = init.where()
    n_img = 0
    for s in init.stmts(ast.Assign):
        if not any(A.dotted(t) == tgt for t in s.targets) or not init.nodes(s):
            continue
        at = init.nodes(s)[0]
        for b in _branches(s.value):
            if why or (isinstance(b, ast.Name) and b.id in init.fi.params) or A.is_none(b):
                continue
            if (_is_empty_dict(b) and _content_mutations(init, tgt)):
                img = _accumulated(init, tgt, s, b, srcs, 8)
            else:
                img = _image(init, b, at, {}, srcs)
            if img is None:
                if _is_empty_dict(b) and not _content_mutations(init, tgt):
                    continue
                raise AnalysisError("%s: `%s` fills %s from the configuration in a way this rule cannot decide" % (init.qual, A.short(s, 60), tgt))
            n_img += 1
            where = init.where(s)
            show = lambda x: A.norm(x).replace(_KEY, "<key>").replace(_VAL, "<section of that key>")
            v = img.val
            if img.kind != "map":
                why = "`%s` is not a mapping" % A.short(s, 50)
            elif A.norm(img.key) != _KEY:
                why = "each %s is registered under `%s`, not under the key it has in the %r section of the configuration: the configured name " \
                      "does not resolve (get_cluster looks names up by registration key), and a rebuilt environment differs from the dumped one" \
                      % (ec.name, show(img.key), cfg_key)
            elif not img.total:
                why = "not every entry of the %r section is registered: %s" % (cfg_key, img.why or "entries are skipped")
            elif not (isinstance(v, ast.Call) and A.call_dotted(v) == ec.name and any(isinstance(x, ast.Name) and x.id == _VAL for a_ in v.args + [k.value for k in v.keywords] for x in ast.walk(a_))):
                why = "the object registered under a key is `%s`, not a %s built from the configuration given for that key" % (show(v), ec.name)
    if not why and not n_img:
        why = "no statement fills %s from the %r section of the configuration" % (tgt, cfg_key)
    ck.ob(R, "%s::nested-load::%s" % (cls.qual, field), why is None,
          "%s registers one %s per entry of the configured %r section, under the entry's key" % (tgt, ec.name, cfg_key) if why is None else
          "the constructor does not rebuild %s as the image of the configured %r section: %s" % (tgt, cfg_key, why), where)


def _path_part(fa, e, at, pth, depth=10):
    """Which part of the file path parameter `pth` an expression denotes: 'whole' (the path itself, possibly made
    absolute / normalised / wrapped in Path or str), 'dir' (its directory), 'name' (its last component), None."""
    if e is None or depth <= 0:
        return None
    rec = lambda x: _path_part(fa, x, at, pth, depth - 1)
    if isinstance(e, ast.Name):
        if e.id == pth and all(d.kind == "param" for d in fa.df.reaching(at, e.id)):
            return "whole"
        ds = fa.df.reaching(at, e.id)
        if len(ds) != 1 or ds[0].value is None:
            return None
        d = ds[0]
        if d.kind == "assign":
            return _path_part(fa, d.value, d.node, pth, depth - 1)
        if d.kind == "unpack" and isinstance(d.stmt, ast.Assign) and len(d.stmt.targets) == 1 and isinstance(d.stmt.targets[0], (ast.Tuple, ast.List)):
            names = [A.norm(x) for x in d.stmt.targets[0].elts]
            v = d.value
            if e.id in names and len(names) == 2 and isinstance(v, ast.Call) and A.call_dotted(v) in ("os.path.split", "split") \
                    and len(v.args) == 1 and _path_part(fa, v.args[0], d.node, pth, depth - 1) == "whole":
                return ("dir", "name")[names.index(e.id)]
            if e.id in names and isinstance(v, (ast.Tuple, ast.List)) and len(v.elts) == len(names):
                return _path_part(fa, v.elts[names.index(e.id)], d.node, pth, depth - 1)
        return None
    if isinstance(e, ast.Call):
        name = A.call_dotted(e) or ""
        last = name.split(".")[-1]
        if isinstance(e.func, ast.Attribute) and not e.args and last in ("resolve", "absolute", "expanduser", "as_posix", "__fspath__", "__str__"):
            return rec(e.func.value)
        if len(e.args) == 1 and not e.keywords:
            inner = rec(e.args[0])
            if last in ("str", "Path", "PurePath", "fspath", "abspath", "realpath", "normpath", "expanduser", "cast"):
                return inner
            if last == "dirname":
                return "dir" if inner == "whole" else None
            if last == "basename":
                return "name" if inner == "whole" else None
        if last == "cast" and len(e.args) == 2:
            return rec(e.args[1])
        return None
    if isinstance(e, ast.Attribute):
        inner = rec(e.value)
        if e.attr == "parent":
            return "dir" if inner == "whole" else None
        if e.attr == "name":
            return "name" if inner == "whole" else None
        return None
    if isinstance(e, ast.Subscript) and isinstance(e.slice, ast.Constant) and e.slice.value in (0, 1, -1, -2) and isinstance(e.value, ast.Call) \
            and A.call_dotted(e.value) in ("os.path.split", "split") and len(e.value.args) == 1 and rec(e.value.args[0]) == "whole":
        return "dir" if e.slice.value in (0, -2) else "name"
    return None


# =====================================================================================================
# R7: template parameters reach the parsed configuration as given
# =====================================================================================================
# Environment(...) parameters in positional order (Template(source, ...) takes the same ones after the source)
_JINJA_ORDER = ("block_start_string", "block_end_string", "variable_start_string", "variable_end_string", "comment_start_string", "comment_end_string",
                "line_statement_prefix", "line_comment_prefix", "trim_blocks", "lstrip_blocks", "newline_sequence", "keep_trailing_newline", "extensions",
                "optimized", "undefined", "finalize", "autoescape")
_JINJA_SYNTAX = {"block_start_string": "{%", "block_end_string": "%}", "variable_start_string": "{{", "variable_end_string": "}}",
                 "comment_start_string": "{#", "comment_end_string": "#}", "line_statement_prefix": None, "line_comment_prefix": None}
_JINJA_TEMPLATE = ("jinja2:Template", "jinja2.environment:Template")
_JINJA_ENVIRONMENT = ("jinja2:Environment", "jinja2.environment:Environment", "jinja2.sandbox:SandboxedEnvironment", "jinja2.sandbox:ImmutableSandboxedEnvironment")
_PARSERS = ("json:load", "json:loads", "yaml:safe_load", "yaml:load", "yaml:full_load", "yaml:unsafe_load")


class _Imports:
    """The import table of a module, extended by the imports a function makes itself."""

    def __init__(self, mod, func_node=None):
        self.imports = dict(mod.imports)
        self.assigns = mod.assigns
        self.tree = mod.tree
        for st in (ast.walk(func_node) if func_node is not None else ()):
            if isinstance(st, ast.Import):
                for a in st.names:
                    self.imports[a.asname or a.name.split(".")[0]] = a.name
            elif isinstance(st, ast.ImportFrom):
                for a in st.names:
                    self.imports[a.asname or a.name] = ("." * st.level) + (st.module or "") + ":" + a.name


def _origin(mod, f):
    """'package:name' of the imported thing a callee expression denotes (`Template`, `jinja2.Template`, an alias)."""
    if isinstance(f, ast.Name):
        o = mod.imports.get(f.id)
        if o is None:
            return None
        return o if ":" in o else o + ":"
    if isinstance(f, ast.Attribute):
        d = A.dotted(f)
        if not d:
            return None
        head, rest = d.split(".", 1)
        o = mod.imports.get(head)
        if o is None:
            return None
        if ":" in o:  # from jinja2 import sandbox -> sandbox.SandboxedEnvironment
            pkg, name = o.split(":")
            parts = [name] + rest.split(".")
            return "%s.%s:%s" % (pkg, ".".join(parts[:-1]), parts[-1])
        if o.startswith(head + "."):  # `import jinja2.sandbox` binds the name jinja2
            o = head
        parts = rest.split(".")
        return "%s:%s" % (".".join([o] + parts[:-1]), parts[-1])
    return None


def _module_value(mod, e, depth=4):
    """A module-level name replaced by the value it is bound to (once, at module level)."""
    while isinstance(e, ast.Name) and depth > 0 and e.id in mod.assigns:
        e = mod.assigns[e.id]
        depth -= 1
    return e


def _jinja_options(ck, mod, call, skip_first):
    """{option: expression} of a Template(...) / Environment(...) construction; AnalysisError when the call spreads
    a mapping / sequence this rule cannot see into."""
    if any(isinstance(a_, ast.Starred) for a_ in call.args) or any(k.arg is None for k in call.keywords):
        raise AnalysisError("configuration._load_config: `%s` takes its options from a mapping this rule cannot see into" % A.short(call, 60))
    opts = {}
    pos = call.args[1:] if skip_first else call.args
    for name, a_ in zip(_JINJA_ORDER, pos):
        opts[name] = a_
    for k in call.keywords:
        if not (skip_first and k.arg == "source"):
            opts[k.arg] = k.value
    return opts


def _escapes_strings(ck, mod, e):
    """Does the `autoescape` setting `e` switch escaping on for a template made from a string (which has no name)?"""
    e = _module_value(mod, e)
    if isinstance(e, ast.Constant):
        return bool(e.value)
    if isinstance(e, ast.Call) and _origin(mod, e.func) in ("jinja2:select_autoescape", "jinja2.utils:select_autoescape"):
        if any(isinstance(a_, ast.Starred) for a_ in e.args) or any(k.arg is None for k in e.keywords):
            raise AnalysisError("configuration._load_config: `%s` cannot be decided" % A.short(e, 60))
        d = A.arg_or_kw(e, 2, "default_for_string")
        d = _module_value(mod, d) if d is not None else None
        if d is None:
            return True  # select_autoescape: default_for_string=True
        if isinstance(d, ast.Constant):
            return bool(d.value)
        raise AnalysisError("configuration._load_config: `%s` cannot be decided" % A.short(e, 60))
    if isinstance(e, ast.Lambda) and isinstance(e.body, ast.Constant):
        return bool(e.body.value)
    raise AnalysisError("configuration._load_config: autoescape setting `%s` cannot be decided" % A.short(e, 60))


def _option_faults(ck, mod, opts, what):
    """Why a template construction with these options does not substitute parameters as given ([] when it does)."""
    out = []
    if "autoescape" in opts and _escapes_strings(ck, mod, opts["autoescape"]):
        out.append("%s switches HTML escaping on for templates made from a string (`autoescape=%s`): a parameter value containing & < > ' or \" "
                   "arrives as &amp; &lt; ... in the parsed configuration, so a path or name given through a file differs from the same value given as "
                   "constructor argument or inline dict" % (what, A.short(opts["autoescape"], 50)))
    fin = opts.get("finalize")
    if fin is not None and not A.is_none(_module_value(mod, fin)):
        out.append("%s passes every substituted value through `%s` before it is parsed" % (what, A.short(fin, 40)))
    for k, dflt in _JINJA_SYNTAX.items():
        if k in opts:
            v = _module_value(mod, opts[k])
            if not (isinstance(v, ast.Constant) and v.value == dflt):
                out.append("%s changes the template syntax (`%s=%s`): the documented {{ parameter }} form is no longer substituted" % (what, k, A.short(opts[k], 30)))
    return out


def check_template_parameters_verbatim(ck, R):
    """A configuration file is a jinja2 template over the keyword arguments of from_file(...).  A parameter has the
    same effect as the equivalent constructor argument / inline value only if it reaches the parsed text as given:
    the text that is parsed is the rendered template, the template is rendered with exactly the caller's
    parameters, and it is built without value-transforming options (autoescape on, finalize) or another syntax."""
    ck.rule(R, "template parameters of a configuration file reach the parsed configuration as given: the parsed text is the rendered template, "
               "rendered with the caller's keyword arguments, by a template built without escaping / finalizing / another syntax", 4)
    fa = _FA(ck, "configuration._load_config")
    mod = _Imports(fa.fi.module, fa.node)
    ck.need(fa.node.args.kwarg is not None, "configuration._load_config: no **kwargs parameter (the template parameters)")
    KW = fa.node.args.kwarg.arg
    parses = [c for c in fa.calls() if _origin(mod, c.func) in _PARSERS and c.args and fa.nodes(c)]
    if not parses:
        # the parser chosen first (a table by file extension, a conditional expression) and called through a local
        def parser_ref(atom):
            if not atom.startswith(("attr:", "global:")):
                return False
            try:
                return _origin(mod, ast.parse(atom.split(":", 1)[1], mode="eval").body) in _PARSERS
            except SyntaxError:
                return False
        for c in fa.calls():
            if c.args and fa.nodes(c) and not isinstance(c.func, ast.Attribute) and any(parser_ref(a_) for a_ in fa.deps(c.func, fa.nodes(c)[0])):
                parses.append(c)
    ck.need(parses, "configuration._load_config: no json / yaml parse call found")
    renders = [c for c in fa.calls("render") if isinstance(c.func, ast.Attribute) and fa.nodes(c)]
    for c in parses:
        ok = "call:render" in fa.deps(c.args[0], fa.nodes(c)[0])
        ck.ob(R, fa.key(c, "parsed-text-is-rendered"), ok, "`%s` parses the rendered template" % A.short(c, 40) if ok else
              "`%s` parses text that did not go through the template: parameters given to from_file(...) are not substituted" % A.short(c, 50), fa.where(c))
    # every loader that accepts template parameters hands them on to _load_config, all of them, as given
    n_fwd = 0
    for f in fa.fi.module.all_funcs():
        if f.node.args.kwarg is None or f.qual == fa.qual or f.parent is not None:
            continue
        ff = _FA(ck, f)
        for c in ff.calls(fa.fi.name):
            if not ff.nodes(c):
                continue
            n_fwd += 1
            kw = f.node.args.kwarg.arg
            spread = [ff.xnorm(k.value, ff.nodes(c)[0]) for k in c.keywords if k.arg is None]
            okf = any(x in (kw, "dict(%s)" % kw, "{**%s}" % kw, "%s.copy()" % kw) for x in spread)
            ck.ob(R, ff.key(c, "parameters-forwarded"), okf, "%s hands its template parameters to the loader" % f.qual if okf else
                  "%s accepts template parameters (**%s) but `%s` does not pass them on as given: the file is rendered without them"
                  % (f.qual, kw, A.short(c, 50)), ff.where(c))
    ck.need(n_fwd >= 1, "no file loader with template parameters (**kwargs) calling _load_config found")
    if not renders:
        return
    for c in renders:
        at = fa.nodes(c)[0]
        # the caller's parameters, all of them, as given
        handed = False
        for a_ in [x.value if isinstance(x, ast.Starred) else x for x in c.args] + [k.value for k in c.keywords if k.arg is None]:
            x = fa.xnorm(a_, at)
            if x in (KW, "dict(%s)" % KW, "{**%s}" % KW, "dict(**%s)" % KW, "%s.copy()" % KW):
                handed = True
        ck.ob(R, fa.key(c, "parameters-handed-over"), handed, "the template is rendered with the caller's parameters" if handed else
              "`%s` does not render the template with the caller's parameters (`**%s`) as given" % (A.short(c, 50), KW), fa.where(c))
        # the template: built from the file's text, nothing that transforms substituted values
        t = fa.expand(A.call_recv(c), at)
        while isinstance(t, ast.Call) and isinstance(t.func, ast.Name) and t.func.id == "cast" and len(t.args) == 2:
            t = t.args[1]
        faults, src = [], None
        if isinstance(t, ast.Call) and _origin(mod, t.func) in _JINJA_TEMPLATE:
            src = A.arg_or_kw(t, 0, "source")
            faults = _option_faults(ck, mod, _jinja_options(ck, mod, t, True), "`%s`" % A.short(t, 40))
        elif isinstance(t, ast.Call) and A.call_attr(t) == "from_string" and A.call_recv(t) is not None:
            src = A.arg_or_kw(t, 0, "source")
            envx = A.call_recv(t)
            env = _module_value(mod, envx)
            if not (isinstance(env, ast.Call) and _origin(mod, env.func) in _JINJA_ENVIRONMENT):
                raise AnalysisError("configuration._load_config: the template environment `%s` is not a jinja2 Environment construction this rule can see" % A.short(envx, 40))
            what = "the template environment `%s`" % (A.norm(envx) if isinstance(envx, ast.Name) else A.short(env, 40))
            opts = _jinja_options(ck, mod, env, False)
            if isinstance(envx, ast.Name):
                # settings applied to the shared environment after it was made
                for x in ast.walk(mod.tree):
                    if isinstance(x, ast.Assign):
                        for tg in x.targets:
                            if isinstance(tg, ast.Attribute) and isinstance(tg.value, ast.Name) and tg.value.id == envx.id:
                                opts[tg.attr] = x.value
            faults = _option_faults(ck, mod, opts, what)
        else:
            raise AnalysisError("configuration._load_config: `%s` is rendered, which is not a jinja2 Template / Environment.from_string construction this rule can see" % A.short(t, 60))
        cfgp = fa.fi.params[1] if len(fa.fi.params) > 1 else "config"
        if src is None or ("param:" + cfgp) not in fa.deps(src, at):
            faults.append("the template is not made from the text of the configuration file")
        ck.ob(R, fa.key(c, "substituted-as-given"), not faults, "parameters are substituted as given (no escaping, no finalizer, default syntax)" if not faults else
              faults[0], fa.where(c))


def check(ck):
    from .memo import check_new_memo_tables
    ck.run(check_template_parameters_verbatim, ck, "C18.R7")
    ck.run(check_new_memo_tables, ck, "C18.M1", ('configuration', 'storage', 'storage_filesystem', 'storage_memory'))
    ck.rule("C18.R8", "an option has its effect in every combination with the other options: the field holding it, the value handed to the base "
                      "constructor for it and its dump entry depend on that option's own argument / configuration key only", 4)
    ck.run(check_option_alone, ck, "C18.R8")
    ck.rule("C18.R5", "constructors never modify the configuration object they are given", 4)
    ck.run(check_config_not_mutated, ck, "C18.R5")
    ck.run(check_base_dir_final_before_use, ck, "C18.R2")
    R1, R2, R3, R4 = ("C18.R%d" % i for i in range(1, 5))
    ck.rule(R1, "option tables: every documented backend option is read from the configuration and written by to_dict; "
                "every constructor keyword has a documented key; cluster / repository / environment read and dump the same keys", 10)
    ck.rule(R2, "precedence: an explicit constructor argument is applied after (and therefore overrides) the value read "
                "from the configuration", 8)
    ck.rule(R3, "registry agreement: the type name given to register(), to the base constructor and under 'type' in "
                "to_dict are equal; the default storage and runner types are registered", 7)
    ck.rule(R4, "cluster search: repositories are searched in list order and the first hit wins; prepend inserts at the "
                "front, append at the back", 3)
    # ---- R1 / R3 backends
    registered = {"storage": {}, "runner": {}}
    for (modname, clsname, kind) in BACKENDS:
        mod = ck.repo.module(modname)
        cls = mod.classes.get(clsname)
        ck.need(cls is not None, "%s.%s not found" % (modname, clsname))
        doc = _doc_options(mod)
        reads = _config_reads(ck, cls)
        td = _FA(ck, cls.methods["to_dict"]) if "to_dict" in cls.methods else None
        ck.need(td is not None, "%s.to_dict not found" % cls.qual)
        entries = _dump_entries(td)
        dumped = {e.key for e in entries}
        init = cls.methods.get("__init__")
        if doc:
            for opt in doc:
                ck.ob(R1, "%s::option-read::%s" % (cls.qual, opt), opt in reads,
                      "documented option %r is read from the configuration" % opt if opt in reads else
                      "documented option %r is accepted as a constructor argument but never read from a configuration object/file: "
                      "a cluster configured with it silently ignores it" % opt, A.loc(init or cls, (init or cls).node))
                ck.ob(R1, "%s::option-dumped::%s" % (cls.qual, opt), opt in dumped,
                      "documented option %r is written by to_dict" % opt if opt in dumped else
                      "documented option %r is not written by to_dict: an environment rebuilt from its dump loses it" % opt, td.where())
            # what is dumped under an option is read off the field that holds that option (not off the field of another
            # option: a dump that writes the data path as the metadata path rebuilds a different backend)
            _dumped_from_fields(ck, R1, cls, td, entries, doc)
            if init is not None:
                for p in init.params:
                    if p in ("self", "config"):
                        continue
                    key = ARG_TO_KEY.get(p, p)
                    ck.ob(R1, "%s::argument-documented::%s" % (cls.qual, p), key in doc,
                          "constructor argument %s corresponds to documented option %r" % (p, key) if key in doc else
                          "constructor argument %s has no documented configuration option" % p, A.loc(init, init.node))
        # registry
        reg = [n for n in ast.walk(mod.tree) if isinstance(n, ast.Call) and A.call_attr(n) == "register" and len(n.args) == 2 and A.norm(n.args[1]) == clsname]
        rname = _str_const(ck, mod, cls, reg[0].args[0]) if len(reg) == 1 else None
        sup = []
        if init is not None:
            sup = [c for c in A.body_calls(init.node) if A.call_attr(c) == "__init__" and isinstance(A.call_recv(c), ast.Call) and A.call_attr(A.call_recv(c)) == "super"]
        sname = None
        if sup:
            binit = next((c.methods["__init__"] for c in ck.repo.mro(cls)[1:] if "__init__" in c.methods), None)
            first = [p for p in binit.params if p != "self"][0] if binit is not None and len(binit.params) > 1 else "storage_type"
            a0 = A.arg_or_kw(sup[0], 0, first)
            sname = _str_const(ck, mod, cls, a0) if a0 is not None else None
        def type_value(e):
            v = _str_const(ck, mod, cls, e)
            f = A.dotted(e) if isinstance(e, ast.Attribute) else None
            if v is None and f and f.startswith("self.") and f.count(".") == 1 and init is not None:
                # `self.storage_type`: the field a base constructor keeps its type-name parameter in
                again = [s2 for m_ in cls.methods.values() if m_.name != "__init__" for s2 in A.all_stmts(m_.node) if isinstance(s2, (ast.Assign, ast.AugAssign))
                         and any(A.dotted(t_) == f for t_ in (s2.targets if isinstance(s2, ast.Assign) else [s2.target]))]
                if not again:
                    return _field_from_ctor_chain(ck, cls, init, f, {})
            return v
        tvals = {type_value(e.value) for e in entries if e.key == "type"}
        tname = next(iter(tvals)) if len(tvals) == 1 else None
        # the dump describes the backend AS IT IS: when it starts from the configuration the backend
        # was given (self.config), every option a constructor argument can override has to be
        # overwritten unconditionally, else the as-given value survives wherever the overlay is skipped
        tdf = td
        base_from_given = []
        for st in tdf.stmts(ast.Assign):
            if len(st.targets) == 1 and isinstance(st.targets[0], ast.Name) and any(
                    isinstance(x, ast.Attribute) and x.attr == "config" and A.norm(x.value) == "self" for x in ast.walk(st.value)):
                base_from_given.append(st)
        for r in tdf.returns():
            if r.value is not None and any(isinstance(x, ast.Attribute) and x.attr == "config" and A.norm(x.value) == "self" for x in ast.walk(r.value)):
                base_from_given.append(r)
        cond_keys = []
        if base_from_given:
            overridable = {ARG_TO_KEY.get(p_, p_) for p_ in (init.params if init is not None else []) if p_ not in ("self", "config")}
            stored = [e for e in entries if e.how == "store"]
            cond_keys = [e.key for e in stored if e.key in overridable and e.conditional]
            cond_keys += sorted(overridable - {e.key for e in stored})
        okb = not cond_keys
        ck.ob(R3, cls.qual + "::dump-from-effective-state", okb,
              "to_dict is built from the backend's effective state" if not base_from_given else
              "to_dict starts from the as-given configuration and unconditionally overwrites every overridable option" if okb else
              "to_dict starts from the configuration the backend was given (`%s`) and writes %s only conditionally (or not at all): where an explicit "
              "constructor argument overrode the configuration and the overlay is skipped (e.g. memory_cache_mb=0 over a configured 8), the dump "
              "carries the overridden value and the rebuilt environment differs" % (A.short(base_from_given[0], 50), sorted(set(cond_keys))),
              tdf.where(base_from_given[0]) if base_from_given else "")
        ok = rname is not None and rname == sname == tname
        ck.ob(R3, cls.qual + "::type-name", ok, "registered, constructed and dumped as %r" % rname if ok else
              "type names disagree: register(%r), base constructor %r, to_dict %r: a dump cannot be turned back into this backend" % (rname, sname, tname), A.loc(cls, cls.node))
        if rname:
            registered[kind][rname] = clsname
    cfgm = ck.repo.module("configuration")
    for (const, kind) in (("_DEFAULT_STORAGE_TYPE", "storage"), ("_DEFAULT_RUNNER_TYPE", "runner")):
        v = cfgm.assigns.get(const)
        name = A.const_str(v) if v is not None else None
        ck.ob(R3, "configuration::" + const, name in registered[kind], "default %s type %r is registered" % (kind, name) if name in registered[kind] else
              "default %s type %r is not a registered type" % (kind, name), cfgm.relpath)
    _create_rule(ck, R3)
    # filesystem specifics: options forwarded to the base backend; sources rooted at the configured paths
    fsc = ck.repo.module("storage_filesystem").classes["FilesystemStorageBackend"]
    fsi = _FA(ck, "storage_filesystem.FilesystemStorageBackend.__init__")
    sup = fsi.one([c for c in fsi.calls("__init__") if isinstance(A.call_recv(c), ast.Call)], "super().__init__ call")
    binit = next((c.methods["__init__"] for c in ck.repo.mro(fsc)[1:] if "__init__" in c.methods), None)
    bparams = [p for p in binit.params if p != "self"] if binit is not None else []
    for kw in ("memory_cache_mb", "config", "read_only"):
        val = A.arg_or_kw(sup, bparams.index(kw), kw) if kw in bparams else A.kwarg(sup, kw)
        okk = val is not None and ("param:" + kw) in fsi.deps(val, fsi.nodes(sup)[0])
        ck.ob(R1, fsi.key(sup, "forwards-" + kw), okk, "%s is forwarded to the base backend" % kw if okk else "%s is not forwarded to the base backend" % kw, fsi.where(sup))

    def see_sources(nd, env):
        if nd.kind in ("stmt", "test"):
            got = [A.norm(_subst(c.args[0], env)) for c in A.calls_in(nd.ast) if A.call_attr(c) == "_FilesystemDataSource" and c.args]
            return got or None
        return None

    fpaths = _sym_paths(fsi, observe=see_sources)
    ck.need(fpaths is not None, "FilesystemStorageBackend.__init__: too many paths")
    fpaths = [p for p in fpaths if p.end == "exit"]
    okd = bool(fpaths)
    n_src = 0
    for p in fpaths:
        data, meta = p.env.get("self.config_path"), p.env.get("self.metadata_config_path")
        roots = {x for o in p.obs for x in o}
        n_src += len(roots)
        stored = {A.norm(data) if data is not None else "self.config_path", A.norm(meta) if meta is not None else "self.metadata_config_path"}
        names = {"self.config_path", "self.metadata_config_path"}
        if data is None or meta is None or not roots <= (stored | names) or not ({A.norm(data), "self.config_path"} & roots):
            okd = False
    okd = okd and n_src > 0
    ck.ob(R1, fsi.key(None, "paths-used"), okd, "data and metadata sources are rooted at the configured paths" if okd else
          "the data / metadata sources are not built from config_path / metadata_config_path", fsi.where())
    # an option derived from another option (metadata path defaults to the data path) must see
    # the FINAL value of that option: whatever the metadata path ends up as, it is the explicit argument,
    # the configured metadata path, or the final data path
    bad = None
    for p in fpaths:
        data, meta = p.env.get("self.config_path"), p.env.get("self.metadata_config_path")
        if data is None or meta is None:
            continue
        for (l, v) in _value_cases(ck, fsi, p.lits, meta, p.env):
            dcases = [dv for (dl, dv) in _value_cases(ck, fsi, l, data, p.env)]
            finals = {A.norm(dv) for dv in dcases}
            okv = (isinstance(v, ast.Name) and v.id == "metadata_path") or A.norm(v) in finals
            if not okv and _cfg_key_read(v, "metadata_path"):
                dflt = v.args[1] if isinstance(v, ast.Call) and len(v.args) > 1 else None
                okv = dflt is None or A.is_none(dflt) or A.norm(dflt) in finals
            if not okv:
                bad = (v, sorted(finals))
    ck.ob(R2, fsi.key(None, "derived-from-final:config_path"), bad is None,
          "the metadata path is derived from the final value of the data path" if bad is None else
          "the metadata path ends up as `%s` where the data path is `%s`: it was derived before the explicit argument / default for the data path "
          "is applied; with config path A and argument path=B the derived option still points at A" % (A.short(bad[0], 60), ", ".join(bad[1])[:60]), fsi.where())
    sbi = _FA(ck, "storage_base.StorageBackendBase.__init__")
    mc = [c for c in sbi.calls("MemoryCache")]
    def sized(c):
        a = c.args + [k.value for k in c.keywords]
        at = sbi.nodes(c)
        return len(a) == 1 and bool(at) and "param:memory_cache_mb" in sbi.deps(a[0], at[0]) and sbi.xnorm(a[0], at[0]) == "memory_cache_mb"
    # every place that creates the cache (one, or the same statement in several arms) sizes it by the option
    okm = bool(mc) and all(sized(c) for c in mc)
    ck.ob(R1, sbi.key(None, "cache-size"), okm, "the cache is created with the configured size" if okm else "MemoryCache is not created with memory_cache_mb", sbi.where())
    # ---- R1 for cluster / repository / environment
    reads_of = {}
    for clsname in ("FunctionCluster", "ConfigurationRepository", "Environment"):
        cls = cfgm.classes[clsname]
        reads = _config_reads(ck, cls, membership=True)
        reads_of[clsname] = reads
        td = _FA(ck, cls.methods["to_dict"])
        centries = _dump_entries(td)
        dumped = {e.key for e in centries}
        _dumped_from_fields(ck, R1, cls, td, centries, reads)
        ok = reads == dumped
        ck.ob(R1, cls.qual + "::read-equals-dumped", ok, "%s reads and dumps the same keys %s" % (clsname, sorted(reads)) if ok else
              "%s reads %s from its configuration but dumps %s" % (clsname, sorted(reads - dumped) or "{}", sorted(dumped - reads) or "{}"), td.where())
    ck.rule("C18.R6", "nested configured objects (storage / runner of a cluster, clusters of a repository by registration key, repositories of an "
                      "environment in priority order) are dumped as the structural image of the field that holds them", 4)
    ck.run(check_nested_dumps, ck, "C18.R6", reads_of)
    # ---- R2 precedence
    n2 = 0
    for q in ("configuration.FunctionCluster.__init__", "configuration.ConfigurationRepository.__init__", "configuration.Environment.__init__",
              "storage_filesystem.FilesystemStorageBackend.__init__", "storage.StorageBackend.__init__"):
        n2 += _precedence(ck, R2, q)
    ck.need(n2 >= 8, "precedence rule: only %d argument/config pairs recognised" % n2)
    # cluster storage / runner: explicit object wins over config, config over default
    _cluster_backend_precedence(ck, R2, cfgm)
    # file loaders: sibling agreement — both split the path into (directory, file name) so that a
    # relative path is resolved against its own directory
    for q in ("configuration.ConfigurationRepository.from_file", "configuration.Environment.from_file"):
        f = _FA(ck, q)
        lc = f.one(f.calls("_load_config"), "_load_config call")
        pth = f.fi.params[0] if f.fi.is_static else f.fi.params[1]
        a0 = f.deps(lc.args[0]) if lc.args else set()
        a1 = f.deps(lc.args[1]) if len(lc.args) > 1 else set()
        ok = "call:dirname" in a0 and "call:basename" not in a0 and ("param:" + pth) in a0 and ("param:" + pth) in a1
        if not ok and len(lc.args) > 1:
            # the same split spelled otherwise: os.path.split(p) unpacked, Path(p).parent / .name, through temporaries
            at = f.nodes(lc)[0]
            ok = _path_part(f, lc.args[0], at, pth) == "dir" and _path_part(f, lc.args[1], at, pth) in ("name", "whole")
        ck.ob(R1, f.key(None, "relative-file"), ok, "the configuration file is resolved against its own directory" if ok else
              "%s passes `%s` as the base directory of the file: a relative path (also a relative MEMENTO_ENV) is looked up under "
              "'<file name>/<path>' and cannot be loaded" % (q.split(".")[-2] + ".from_file", A.short(lc.args[0], 50) if lc.args else "?"), f.where(lc))
    # ---- R4
    _first_match(ck, R4)
    _priority_ends(ck, R4)
    _repo_order(ck, R4)
