"""Type dispatch of a function on one subject, and the subclass-before-superclass rule (C02.R2, C04, C11.R5).

The rule is decided on what the dispatch function *answers for a value of a given class* (`Dispatch`, an abstract run of
the function body), not on the position of `if isinstance(...)` statements: guard clauses, elif chains, a result variable
with break, a first-match loop over a table of (classes, outcome) pairs, `next(...)` over such a table and an exact-class
look-up `TABLE.get(type(x))` in front of the ladder are all read alike."""
import ast
import copy
from typing import List, Tuple

from .. import astutil as A
from ..fa import FA
from ..loader import AnalysisError

# (subclass, superclass): facts about Python / the standard library / pandas
BUILTIN_SUBCLASS = [
    ("bool", "int"),
    ("datetime.datetime", "datetime.date"),
    ("pd.Timestamp", "datetime.datetime"),
    ("pd.Timestamp", "datetime.date"),
    ("RuntimeError", "Exception"),
    ("ValueError", "Exception"),
    ("IOError", "Exception"),
    ("OSError", "Exception"),
    ("KeyError", "Exception"),
    ("TypeError", "Exception"),
    ("ModuleNotFoundError", "ImportError"),
    ("ImportError", "Exception"),
    ("AttributeError", "Exception"),
]


def repo_subclass_pairs(ck) -> List[Tuple[str, str]]:
    """(sub, sup) over the exception / marker classes of the repository, by bare class name,
    including their builtin ancestors."""
    pairs = list(BUILTIN_SUBCLASS)
    repo = ck.repo
    for c in repo.all_classes():
        for b in repo.mro(c)[1:]:
            pairs.append((c.name, b.name))
        # builtin bases named in the class statement
        for k in repo.mro(c):
            for be in k.base_exprs:
                if not repo.resolve_base(k, be):
                    pairs.append((c.name, be))
                    for (s, p) in BUILTIN_SUBCLASS:
                        if s == be:
                            pairs.append((c.name, p))
    # transitive closure (small)
    changed = True
    ps = set(pairs)
    while changed:
        changed = False
        for (a, b) in list(ps):
            for (c, d) in list(ps):
                if b == c and (a, d) not in ps:
                    ps.add((a, d))
                    changed = True
    return sorted(ps)


_MUTATORS = ("append", "extend", "insert", "update", "add", "setdefault", "pop", "popitem", "remove", "discard", "clear", "sort", "reverse")


def _filled_elsewhere(mod, name):
    """Is the module-level container `name` also changed after its definition (a registry filled by a decorator, entries
    added key by key)?  Then the expression it was created from does not say what it holds."""
    memo = mod.__dict__.setdefault("_filled_elsewhere_memo", {})
    if name not in memo:
        hit = False
        for n in ast.walk(mod.tree):
            if isinstance(n, ast.Call) and isinstance(n.func, ast.Attribute) and n.func.attr in _MUTATORS \
                    and isinstance(n.func.value, ast.Name) and n.func.value.id == name:
                hit = True
            elif isinstance(n, ast.Subscript) and isinstance(n.ctx, (ast.Store, ast.Del)) and isinstance(n.value, ast.Name) and n.value.id == name:
                hit = True
            elif isinstance(n, ast.AugAssign) and isinstance(n.target, ast.Name) and n.target.id == name:
                hit = True
            if hit:
                break
        memo[name] = hit
    return memo[name]


def _registry_value(mod, name):
    """What a module-level registry holds once the module is imported, when that is evident from the module alone: the
    container starts empty (`[]` / `{}` / `list()` / `dict()`), and its only mutation is ONE statement at the top of the body of
    a module-level function -- `NAME.append(f)` in `def reg(f)` used as `@reg`, or `NAME[key] = f` in the inner function of
    `def reg(key): def deco(f): ...; return deco` used as `@reg(<key>)` -- which is applied (as a decorator, or called in a
    module-level expression statement) to functions of the module.  The value is the display of the registered functions in
    source order.  None when anything else touches the container."""
    memo = mod.__dict__.setdefault("_registry_value_memo", {})
    if name in memo:
        return memo[name]
    memo[name] = None
    v0 = mod.assigns.get(name)
    is_list = (isinstance(v0, ast.List) and not v0.elts) or (isinstance(v0, ast.Call) and A.call_dotted(v0) == "list" and not v0.args and not v0.keywords)
    is_dict = (isinstance(v0, ast.Dict) and not v0.keys) or (isinstance(v0, ast.Call) and A.call_dotted(v0) in ("dict", "OrderedDict", "collections.OrderedDict")
                                                             and not v0.args and not v0.keywords)
    if not (is_list or is_dict):
        return None
    # the one mutation site
    sites = []
    for n in ast.walk(mod.tree):
        if isinstance(n, ast.Call) and isinstance(n.func, ast.Attribute) and n.func.attr in _MUTATORS and isinstance(n.func.value, ast.Name) and n.func.value.id == name:
            sites.append(n)
        elif isinstance(n, ast.Subscript) and isinstance(n.ctx, (ast.Store, ast.Del)) and isinstance(n.value, ast.Name) and n.value.id == name:
            sites.append(n)
        elif isinstance(n, ast.AugAssign) and isinstance(n.target, ast.Name) and n.target.id == name:
            sites.append(n)
    stores = [n for n in ast.walk(mod.tree) if isinstance(n, ast.Name) and n.id == name and isinstance(n.ctx, (ast.Store, ast.Del))]
    if len(sites) != 1 or len(stores) != 1:
        return None
    site = sites[0]
    reg = key_param = None
    for fn in mod.tree.body:
        if not isinstance(fn, ast.FunctionDef) or fn.decorator_list:
            continue
        a = fn.args
        if a.vararg or a.kwarg or a.kwonlyargs or a.defaults or len(a.posonlyargs + a.args) != 1:
            continue
        p0 = (a.posonlyargs + a.args)[0].arg
        body = [s for s in fn.body if not (isinstance(s, ast.Expr) and isinstance(s.value, ast.Constant))]
        if is_list and len(body) == 2 and isinstance(body[0], ast.Expr) and body[0].value is site and site.func.attr == "append" \
                and len(site.args) == 1 and isinstance(site.args[0], ast.Name) and site.args[0].id == p0 \
                and isinstance(body[1], ast.Return) and isinstance(body[1].value, ast.Name) and body[1].value.id == p0:
            reg = fn
        if is_dict and len(body) == 2 and isinstance(body[0], ast.FunctionDef) and isinstance(body[1], ast.Return) \
                and isinstance(body[1].value, ast.Name) and body[1].value.id == body[0].name and not body[0].decorator_list:
            inner = body[0]
            ia = inner.args
            ib = [s for s in inner.body if not (isinstance(s, ast.Expr) and isinstance(s.value, ast.Constant))]
            if not (ia.vararg or ia.kwarg or ia.kwonlyargs or ia.defaults) and len(ia.posonlyargs + ia.args) == 1 and len(ib) == 2:
                q0 = (ia.posonlyargs + ia.args)[0].arg
                if isinstance(ib[0], ast.Assign) and len(ib[0].targets) == 1 and ib[0].targets[0] is site and isinstance(site.ctx, ast.Store) \
                        and isinstance(site.slice, ast.Name) and site.slice.id == p0 and isinstance(ib[0].value, ast.Name) and ib[0].value.id == q0 \
                        and isinstance(ib[1], ast.Return) and isinstance(ib[1].value, ast.Name) and ib[1].value.id == q0:
                    reg, key_param = fn, p0
    if reg is None:
        return None
    # every use of the registering function: a decorator of a module-level function
    uses = [n for n in ast.walk(mod.tree) if isinstance(n, ast.Name) and n.id == reg.name and isinstance(n.ctx, ast.Load)]
    entries, accounted = [], 0
    for fn in mod.tree.body:
        if not isinstance(fn, (ast.FunctionDef, ast.AsyncFunctionDef)):
            continue
        for i, d in enumerate(fn.decorator_list):
            if key_param is None and isinstance(d, ast.Name) and d.id == reg.name:
                if i != len(fn.decorator_list) - 1:
                    return None    # what is registered is then not the function itself
                entries.append((None, ast.copy_location(ast.Name(id=fn.name, ctx=ast.Load()), fn)))
                accounted += 1
            elif key_param is not None and isinstance(d, ast.Call) and isinstance(d.func, ast.Name) and d.func.id == reg.name \
                    and len(d.args) == 1 and not d.keywords and not isinstance(d.args[0], ast.Starred):
                if i != len(fn.decorator_list) - 1:
                    return None
                entries.append((d.args[0], ast.copy_location(ast.Name(id=fn.name, ctx=ast.Load()), fn)))
                accounted += 1
    if accounted != len(uses) or not entries:
        return None
    # the registered functions keep their names (nothing rebinds them)
    names = [v.id for (_k, v) in entries]
    if len(set(names)) != len(names) or any(nm in mod.assigns for nm in names):
        return None
    if is_list:
        out = ast.List(elts=[v for (_k, v) in entries], ctx=ast.Load())
    else:
        out = ast.Dict(keys=[k for (k, _v) in entries], values=[v for (_k, v) in entries])
    ast.copy_location(out, v0)
    memo[name] = out
    return out


def _module_value(mod, name):
    """The value a module-level name of `mod` evidently has after import, else None."""
    if not _filled_elsewhere(mod, name):
        return mod.assigns[name]
    return _registry_value(mod, name)


def _bound_value(fa, e, at):
    """The expression a name stands for, when that is evident: a local with one reaching plain assignment, a module-level
    name of this module or of the repository module it is imported from, a class-level constant read as `self.X` / `cls.X` /
    `Class.X` in a method of that class (and never assigned through an instance).  None otherwise."""
    if isinstance(e, ast.Name):
        if fa.df.is_local(e.id):
            ds = fa.df.reaching(at, e.id)
            if len(ds) == 1 and ds[0].kind == "assign" and ds[0].value is not None:
                return ds[0].value
            return None
        mod = fa.fi.module
        if e.id in mod.assigns:
            return _module_value(mod, e.id)
        origin = mod.imports.get(e.id)
        if origin and ":" in origin:
            m_, n_ = origin.split(":", 1)
            other = fa.ck.repo.modules.get(m_.lstrip(".").split(".")[-1])
            if other is not None and n_ in other.assigns:
                return _module_value(other, n_)
        return None
    if isinstance(e, ast.Attribute) and isinstance(e.value, ast.Name):
        k = fa.fi.cls
        while k is not None:
            if e.value.id in ("self", "cls", k.name):
                for st in k.node.body:
                    for (tg, v) in ([(t, st.value) for t in st.targets] if isinstance(st, ast.Assign) else
                                    [(st.target, st.value)] if isinstance(st, ast.AnnAssign) and st.value is not None else []):
                        if isinstance(tg, ast.Name) and tg.id == e.attr:
                            stores = [n for m in k.methods.values() for n in ast.walk(m.node)
                                      if isinstance(n, ast.Attribute) and n.attr == e.attr and isinstance(n.ctx, (ast.Store, ast.Del))]
                            return None if stores else v
            k = getattr(k, "outer", None)
    return None


def enum_members(fa, e):
    """`Cls.member` expressions of a repository Enum class named by `e`, in definition order, else None."""
    if not isinstance(e, ast.Name) or fa.df.is_local(e.id):
        return None
    cl = fa.ck.repo.classes_named(e.id)
    if len(cl) != 1 or not any(A.norm(b).split(".")[-1] in ("Enum", "IntEnum", "Flag") for b in cl[0].node.bases):
        return None
    return [ast.Attribute(value=ast.Name(id=e.id, ctx=ast.Load()), attr=t.id, ctx=ast.Load())
            for st in cl[0].node.body if isinstance(st, ast.Assign) for t in st.targets if isinstance(t, ast.Name)]


def _literal_seq(fa, it, at, _depth=0):
    """Elements of a literal tuple / list / set (possibly bound to a local, module-level or class-level name), or the
    members of a repository Enum class that is iterated; else None."""
    if isinstance(it, (ast.Tuple, ast.List, ast.Set)):
        return list(it.elts)
    if _depth > 4:
        return None
    if isinstance(it, ast.Call) and A.call_dotted(it) in ("tuple", "list", "sorted", "frozenset", "set") and len(it.args) == 1 and not it.keywords:
        return _literal_seq(fa, it.args[0], at, _depth + 1)
    if isinstance(it, ast.Call) and A.call_dotted(it) == "zip" and len(it.args) >= 2 and not it.keywords:
        cols = [_literal_seq(fa, a, at, _depth + 1) for a in it.args]
        if any(c is None for c in cols) or len({len(c) for c in cols}) != 1:
            return None
        return [ast.Tuple(elts=list(row), ctx=ast.Load()) for row in zip(*cols)]
    if isinstance(it, ast.BinOp) and isinstance(it.op, ast.Add):
        l, r = _literal_seq(fa, it.left, at, _depth + 1), _literal_seq(fa, it.right, at, _depth + 1)
        return None if l is None or r is None else l + r
    if isinstance(it, (ast.ListComp, ast.GeneratorExp)):
        bs = comprehension_elements(fa, it.generators, at)
        return None if bs is None else [subst(it.elt, b) for b in bs]
    v = _bound_value(fa, it, at)
    if v is not None:
        if isinstance(it, ast.Name) and fa.df.is_local(it.id):
            at = fa.df.reaching(at, it.id)[0].node
        return _literal_seq(fa, v, at, _depth + 1)
    return enum_members(fa, it)


def subst(expr, mapping):
    """Copy of `expr` with the names of `mapping` replaced by expressions; `getattr(x, "name")` is read as `x.name`."""
    class T(ast.NodeTransformer):
        def visit_Name(self, n):
            if isinstance(n.ctx, ast.Load) and n.id in mapping:
                return copy.deepcopy(mapping[n.id])
            return n

        def visit_Call(self, n):
            self.generic_visit(n)
            if isinstance(n.func, ast.Name) and n.func.id == "getattr" and len(n.args) == 2 and not n.keywords \
                    and isinstance(n.args[1], ast.Constant) and isinstance(n.args[1].value, str) and n.args[1].value.isidentifier():
                return ast.Attribute(value=n.args[0], attr=n.args[1].value, ctx=ast.Load())
            return n
    return T().visit(copy.deepcopy(expr))


def bind_target(target, elem):
    """{name: expression} for `target` bound to the element `elem` of a literal sequence, else None."""
    if isinstance(target, ast.Name):
        return {target.id: elem}
    if isinstance(target, (ast.Tuple, ast.List)) and isinstance(elem, (ast.Tuple, ast.List)) and len(target.elts) == len(elem.elts):
        out = {}
        for t, e in zip(target.elts, elem.elts):
            sub = bind_target(t, e)
            if sub is None:
                return None
            out.update(sub)
        return out
    return None


def static_truth(t, fa=None):
    """Truth of a test over constants and global dotted names (enum members, classes), when that is evident."""
    if isinstance(t, ast.Constant):
        return bool(t.value)
    if isinstance(t, ast.UnaryOp) and isinstance(t.op, ast.Not):
        r = static_truth(t.operand, fa)
        return None if r is None else (not r)
    if isinstance(t, ast.BoolOp):
        rs = [static_truth(v, fa) for v in t.values]
        if isinstance(t.op, ast.And):
            return False if any(r is False for r in rs) else (True if all(r is True for r in rs) else None)
        return True if any(r is True for r in rs) else (False if all(r is False for r in rs) else None)
    if isinstance(t, ast.Compare) and len(t.ops) == 1:
        def atom(e):
            if isinstance(e, ast.Constant):
                return ("c", repr(e.value))
            d = A.dotted(e)
            if d is None or "." not in d:
                return None
            if fa is None or fa.df.is_local(d.split(".")[0]):
                return None   # rooted in a local / parameter: not a constant
            return ("d", d)
        op, l, r = t.ops[0], atom(t.left), t.comparators[0]
        if l is None:
            return None
        if isinstance(op, (ast.Is, ast.IsNot, ast.Eq, ast.NotEq)):
            ra = atom(r)
            if ra is None:
                return None
            same = (l == ra)
            return same if isinstance(op, (ast.Is, ast.Eq)) else (not same)
        if isinstance(op, (ast.In, ast.NotIn)) and isinstance(r, (ast.Tuple, ast.List, ast.Set)):
            ras = [atom(x) for x in r.elts]
            if any(x is None for x in ras):
                return None
            found = l in ras
            return found if isinstance(op, ast.In) else (not found)
    return None


def fold_lookups(fa, expr, at):
    """Copy of `expr` in which `TABLE.get(key[, default])` / `TABLE[key]` on a literal table (display, or a local / module-level
    name bound to one) with an evident key (constant, or dotted global such as an enum member) is replaced by the entry."""
    def key_text(k):
        if isinstance(k, ast.Constant):
            return "c:" + repr(k.value)
        d = A.dotted(k)
        return "d:" + d if d is not None and "." in d else None

    def lookup(tab, key, default):
        kt = key_text(key)
        if kt is None:
            return None
        try:
            ent = table_entries(fa, tab, at)
        except Exception:
            ent = None
        if ent is None:
            return None
        hit, evident = None, True
        for (k, v) in ent:
            t = key_text(k)
            if t is None:
                evident = False
            elif t == kt:
                hit = v
        if hit is not None:
            return hit
        return default if evident else None

    class T(ast.NodeTransformer):
        def visit_Call(self, n):
            self.generic_visit(n)
            if isinstance(n.func, ast.Attribute) and n.func.attr == "get" and 1 <= len(n.args) <= 2 and not n.keywords \
                    and isinstance(n.func.value, (ast.Name, ast.Dict, ast.Attribute)):
                r = lookup(n.func.value, n.args[0], n.args[1] if len(n.args) == 2 else ast.Constant(value=None))
                if r is not None:
                    return copy.deepcopy(r)
            return n

        def visit_Subscript(self, n):
            self.generic_visit(n)
            if isinstance(n.ctx, ast.Load) and isinstance(n.value, (ast.Name, ast.Dict)):
                r = lookup(n.value, n.slice, None)
                if r is not None:
                    return copy.deepcopy(r)
            return n

    return T().visit(copy.deepcopy(expr))


def comprehension_elements(fa, gens, at, possible=False):
    """[{name: expression}] -- one binding per element that a single `for <target> in <literal sequence> [if ...]` clause
    lets through, in order; None when the clause is not understood.  possible=True: an element whose filter cannot be
    decided is kept (what the comprehension may yield)."""
    if len(gens) != 1 or gens[0].is_async:
        return None
    g = gens[0]
    seq = _literal_seq(fa, g.iter, at)
    if seq is None:
        return None
    out = []
    for el in seq:
        b = bind_target(g.target, el)
        if b is None:
            return None
        keep = True
        for c in g.ifs:
            tv = static_truth(fold_lookups(fa, subst(c, b), at), fa)
            if tv is None:
                if possible:
                    continue
                return None
            keep = keep and tv
        if keep:
            out.append(b)
    return out


def table_entries(fa, expr, at, _depth=0):
    """(key, value) pairs of a dictionary-building expression: a literal (with ** parts), a comprehension over a
    literal sequence (or over an Enum class, with simple filters), dict.fromkeys, dict(k=v), `a | b`, a local /
    module-level name bound to one of these.  None if not understood."""
    if _depth > 6 or expr is None:
        return None
    if isinstance(expr, ast.Dict):
        out = []
        for k, v in zip(expr.keys, expr.values):
            if k is None:
                sub = table_entries(fa, v, at, _depth + 1)
                if sub is None:
                    return None
                out += sub
            else:
                out.append((k, v))
        return out
    if isinstance(expr, ast.DictComp):
        bs = comprehension_elements(fa, expr.generators, at)
        if bs is None:
            return None
        return [(subst(expr.key, b), fold_lookups(fa, subst(expr.value, b), at)) for b in bs]
    if isinstance(expr, ast.Call) and A.call_dotted(expr) == "dict.fromkeys" and len(expr.args) == 2:
        seq = _literal_seq(fa, expr.args[0], at)
        return [(e, expr.args[1]) for e in seq] if seq is not None else None
    if isinstance(expr, ast.Call) and A.call_dotted(expr) == "dict" and len(expr.args) <= 1 and all(k.arg is not None for k in expr.keywords) \
            and (expr.args or expr.keywords):
        base = table_entries(fa, expr.args[0], at, _depth + 1) if expr.args else []
        if base is None:
            # dict(<sequence of (key, value) pairs>)
            rows = _literal_seq(fa, expr.args[0], at, _depth + 1)
            if rows is None or not all(isinstance(r, (ast.Tuple, ast.List)) and len(r.elts) == 2 for r in rows):
                return None
            base = [(r.elts[0], r.elts[1]) for r in rows]
        return base + [(ast.Constant(value=k.arg), k.value) for k in expr.keywords]
    if isinstance(expr, ast.BinOp) and isinstance(expr.op, ast.BitOr):
        l, r = table_entries(fa, expr.left, at, _depth + 1), table_entries(fa, expr.right, at, _depth + 1)
        return None if l is None or r is None else l + r
    v = _bound_value(fa, expr, at)
    if v is not None:
        if isinstance(expr, ast.Name) and fa.df.is_local(expr.id):
            at = fa.df.reaching(at, expr.id)[0].node
        return table_entries(fa, v, at, _depth + 1)
    return None


def record_fields(fa, name):
    """Field names of the NamedTuple / namedtuple / dataclass `name` declared in the function's module or in the repository
    module it is imported from; None when `name` is no such record."""
    mods = [fa.fi.module]
    origin = (getattr(fa.fi.module, "imports", {}) or {}).get(name)
    if origin and ":" in origin:
        m_, n_ = origin.split(":", 1)
        other = fa.ck.repo.modules.get(m_.lstrip(".").split(".")[-1])
        if other is not None:
            mods, name = [other], n_
    for mod in mods:
        for st in mod.tree.body:
            if isinstance(st, ast.Assign) and any(isinstance(t, ast.Name) and t.id == name for t in st.targets) and isinstance(st.value, ast.Call) \
                    and A.call_attr(st.value) in ("NamedTuple", "namedtuple") and len(st.value.args) >= 2:
                spec = st.value.args[1]
                if isinstance(spec, (ast.List, ast.Tuple)):
                    out = []
                    for e in spec.elts:
                        if isinstance(e, (ast.Tuple, ast.List)) and e.elts and A.const_str(e.elts[0]):
                            out.append(A.const_str(e.elts[0]))
                        elif A.const_str(e):
                            out.append(A.const_str(e))
                        else:
                            return None
                    return out or None
                if A.const_str(spec):
                    return A.const_str(spec).replace(",", " ").split() or None
                return None
            if isinstance(st, ast.ClassDef) and st.name == name:
                is_nt = any("NamedTuple" in A.norm(b) for b in st.bases)
                is_dc = any(A.norm(d.func if isinstance(d, ast.Call) else d).split(".")[-1] == "dataclass" for d in st.decorator_list)
                if is_nt or is_dc:
                    return [s_.target.id for s_ in st.body if isinstance(s_, ast.AnnAssign) and isinstance(s_.target, ast.Name)] or None
                return None
    return None


def sequence_elements(fa, expr, at, _depth=0):
    """Element expressions of a sequence-building expression, in order: a display, a comprehension / generator over a
    literal sequence, tuple(...) / list(...) of one, a name bound to one.  None if not understood."""
    if _depth > 5 or expr is None:
        return None
    if isinstance(expr, (ast.Tuple, ast.List)):
        return None if any(isinstance(x, ast.Starred) for x in expr.elts) else list(expr.elts)
    if isinstance(expr, (ast.ListComp, ast.GeneratorExp)):
        bs = comprehension_elements(fa, expr.generators, at)
        return None if bs is None else [subst(expr.elt, b) for b in bs]
    if isinstance(expr, ast.Call) and A.call_dotted(expr) in ("tuple", "list") and len(expr.args) == 1 and not expr.keywords:
        return sequence_elements(fa, expr.args[0], at, _depth + 1)
    if isinstance(expr, ast.Attribute) and expr.attr == "_fields" and isinstance(expr.value, ast.Name) and not fa.df.is_local(expr.value.id):
        # the field names of a named tuple declared in the repository
        fs = record_fields(fa, expr.value.id)
        if fs is not None:
            return [ast.copy_location(ast.Constant(value=f), expr) for f in fs]
    if isinstance(expr, ast.Call) and not expr.keywords and len(expr.args) == 1 and not isinstance(expr.args[0], ast.Starred):
        # operator.itemgetter(k1, k2, ...)(d) is (d[k1], d[k2], ...)
        getter = expr.func
        if isinstance(getter, ast.Name) and fa.df.is_local(getter.id):
            g = _bound_value(fa, getter, at)
            if g is not None:
                getter = g
        if isinstance(getter, ast.Call) and A.call_attr(getter) == "itemgetter" and not getter.keywords:
            keys = []
            for a in getter.args:
                if isinstance(a, ast.Starred):
                    sub_ = sequence_elements(fa, a.value, at, _depth + 1)
                    if sub_ is None:
                        return None
                    keys += sub_
                else:
                    keys.append(a)
            if len(keys) >= 2:
                return [ast.copy_location(ast.Subscript(value=expr.args[0], slice=k, ctx=ast.Load()), expr) for k in keys]
    v = _bound_value(fa, expr, at)
    if v is not None:
        if isinstance(expr, ast.Name) and fa.df.is_local(expr.id):
            at = fa.df.reaching(at, expr.id)[0].node
        return sequence_elements(fa, v, at, _depth + 1)
    return None


# ---------------------------------------------------------------------------------------------
# Abstract run of a dispatch function for "a value whose class is K"
# ---------------------------------------------------------------------------------------------
def resolve_callee(fa, call):
    """(FuncInfo, number of implicit leading parameters) of a call to a function of the repository that is evident from
    its spelling: `f(...)` of the same module, `Cls.m(...)`, `self.m(...)` / `cls.m(...)` inside the class.  Else (None, 0)."""
    d = A.call_dotted(call)
    if not d:
        return None, 0
    parts = d.split(".")
    repo = fa.ck.repo
    if len(parts) == 1:
        if fa.df.is_local(parts[0]):
            return None, 0
        f = repo.try_func("%s.%s" % (fa.fi.module.name, parts[0]))
        return (f, 0) if f is not None and f.cls is None else (None, 0)
    if len(parts) == 2:
        owner = None
        if parts[0] in ("self", "cls") and fa.fi.cls is not None:
            owner = fa.fi.cls
        else:
            cl = repo.classes_named(parts[0])
            owner = cl[0] if len(cl) == 1 else None
        if owner is not None:
            m = repo.find_method(owner, parts[1])
            if m is not None:
                return m, (0 if m.is_static else 1)
    return None, 0


class _Unsupported(Exception):
    """The function uses a construct the abstract run does not model (the caller falls back / fails closed)."""


_UNKNOWN_CLASS = "_class_of_subject"


def canonical_type_name(fa, e):
    """Spelling-independent name of a class expression: `datetime` imported from datetime is datetime.datetime, `pandas.X`
    is pd.X, a repository class is its bare name."""
    d = A.dotted(e)
    if d is None:
        return A.norm(e)
    parts = d.split(".")
    imports = getattr(fa.fi.module, "imports", {}) or {}
    origin = imports.get(parts[0])
    if fa.df.is_local(parts[0]):
        # a name imported inside the function
        origin = None
        for st in A.walk_body(fa.node):
            if isinstance(st, ast.ImportFrom) and st.module:
                for al in st.names:
                    if (al.asname or al.name) == parts[0]:
                        origin = ("." * (st.level or 0)) + st.module + ":" + al.name
            elif isinstance(st, ast.Import):
                for al in st.names:
                    if (al.asname or al.name.split(".")[0]) == parts[0]:
                        origin = al.name if al.asname else al.name.split(".")[0]
        if origin is not None and sum(1 for n in A.walk_body(fa.node) if isinstance(n, ast.Name) and n.id == parts[0] and isinstance(n.ctx, ast.Store)):
            origin = None  # also assigned: not just an import
    if origin:
        if ":" in origin:
            m_, n_ = origin.split(":", 1)
            if m_.startswith(".") or m_.split(".")[0] == "twosigma":
                full = [n_] + parts[1:]
            else:
                full = m_.split(".") + [n_] + parts[1:]
        else:
            full = origin.split(".") + parts[1:]
        if full and full[0] == "pandas":
            full[0] = "pd"
        if full and full[0] == "numpy":
            full[0] = "np"
        return ".".join(full)
    return d


class Dispatch:
    """What a function answers for a subject of a given class, decided by running its body abstractly.

    A *world* is (K, kind, mode): the subject's class is exactly K (kind 'exact') or an unnamed proper subclass of K
    (kind 'sub'; `type(subject)` is then a class no table knows); mode 'actual' answers `isinstance(subject, T)` by the
    class hierarchy (`pairs`), mode 'own' as if K had no superclass (true only for T == K) -- the outcome the rung written
    for K itself gives.  `subject is None` holds only in the world of K == 'None'.  Tests the world does not decide are
    followed both ways.  The outcome of a world is the set of ways the function can end: ('return', value text over
    parameters and globals), ('raise', exception class), ('fall', '')."""

    CAP = 6000

    def __init__(self, fa, pairs, subject=None):
        self.fa = fa
        self.node = fa.node
        self.sup = {}
        for (a, b) in pairs:
            self.sup.setdefault(a, set()).add(b)
        self.asked = {}      # type name -> node of the first isinstance test that named it
        self.exact_keys = set()   # class names looked up by type(subject)
        self.helper_returns = set()   # value texts returned by helpers the subject was handed to
        self._memo = {}
        self._work = 0
        args = self.node.args
        self.params = [a.arg for a in args.posonlyargs + args.args + args.kwonlyargs]
        self.subject = subject or self._pick_subject()
        if self.subject is None:
            raise _Unsupported("no isinstance dispatch on a parameter")
        # discover the classes the dispatch names: a value of no known class visits every rung
        self.outcome(("<no class>", "exact", "own"))
        for _ in range(3):
            before = set(self.asked)
            for k in sorted(before):
                self.outcome((k, "exact", "actual"))
            if set(self.asked) == before:
                break

    # ---- set-up -----------------------------------------------------------------------------------
    def _pick_subject(self):
        count = {}
        for n in A.walk_body(self.node):
            if isinstance(n, ast.Call) and isinstance(n.func, ast.Name) and n.func.id == "isinstance" and len(n.args) == 2 \
                    and isinstance(n.args[0], ast.Name):
                count[n.args[0].id] = count.get(n.args[0].id, 0) + 1
        best = None
        for p in self.params:
            if p in count and (best is None or count[p] > count[best]):
                best = p
        if best is not None:
            return best
        # the parameter may be aliased first (`value = obj`): take the most tested name that is a copy of a parameter
        for st in self.node.body:
            if isinstance(st, ast.Assign) and isinstance(st.value, ast.Name) and st.value.id in self.params:
                for t in st.targets:
                    if isinstance(t, ast.Name) and t.id in count:
                        return st.value.id
        # the whole dispatch lives in helpers: the value is the one explicit parameter that is handed on
        explicit = [p for p in self.params if p not in ("self", "cls")]
        if len(explicit) == 1 and any(isinstance(n, ast.Call) and any(isinstance(a, ast.Name) and a.id == explicit[0] for a in n.args)
                                      for n in A.walk_body(self.node)):
            return explicit[0]
        return None

    def named(self):
        return sorted(self.asked)

    def where_of(self, name):
        return self.asked.get(name)

    # ---- worlds -----------------------------------------------------------------------------------
    def _isa(self, w, tn):
        (k, kind, mode) = w
        if k == tn:
            return True
        return mode == "actual" and tn in self.sup.get(k, ())

    def outcome(self, w):
        if w not in self._memo:
            self._work = 0
            comps = self._block(self.node.body, {}, w)
            out = set()
            for (kind, _env, val) in comps:
                if kind in ("break", "continue"):
                    raise _Unsupported("break / continue outside a loop")
                out.add((kind, val or ""))
            self._memo[w] = frozenset(out)
        return self._memo[w]

    # ---- non-local names --------------------------------------------------------------------------
    def _global_value(self, e):
        """Value expression of a module-level / class-level / imported constant name, else None."""
        if isinstance(e, ast.Name):
            if self.fa.df.is_local(e.id) or e.id in self.params:
                return None
            return _bound_value(self.fa, e, None)
        if isinstance(e, ast.Attribute) and isinstance(e.value, ast.Name):
            return _bound_value(self.fa, e, None)
        return None

    def _resolved(self, e, depth=0):
        while depth < 5:
            v = self._global_value(e)
            if v is None:
                return e
            e = v
            depth += 1
        return e

    def _type_names(self, t):
        """Class names of the second argument of isinstance (already evaluated), or None."""
        t = self._resolved(t)
        if isinstance(t, (ast.Tuple, ast.List, ast.Set)):
            out = []
            for el in t.elts:
                sub = self._type_names(el)
                if sub is None:
                    return None
                out += sub
            return out
        if isinstance(t, ast.Call) and isinstance(t.func, ast.Name) and t.func.id == "type" and len(t.args) == 1 and A.is_none(t.args[0]):
            return ["None"]
        if A.dotted(t) is not None:
            return [canonical_type_name(self.fa, t)]
        return None

    def _dict_entries(self, e):
        e = self._resolved(e)
        try:
            return table_entries(self.fa, e, None)
        except Exception:
            return None

    def _seq_elems(self, it, depth=0, env=None, w=None):
        """Elements a literal iterable yields, in order, else None.  With a store and a world, a comprehension / generator
        over such an iterable yields its element expression evaluated for each member (a lazy `(f(x) for f in FUNCS)`)."""
        if depth > 5:
            return None
        it = self._resolved(it)
        if isinstance(it, (ast.GeneratorExp, ast.ListComp)) and w is not None and len(it.generators) == 1 and not it.generators[0].is_async:
            g = it.generators[0]
            inner = self._seq_elems(g.iter, depth + 1, env, w)
            if inner is None:
                return None
            out = []
            for el in inner:
                e2 = dict(env or {})
                self._bind(g.target, el, e2)
                keep = True
                for c in g.ifs:
                    t = self._tv(self.ev(c, e2, w))
                    if t is None:
                        return None
                    keep = keep and t
                if keep:
                    out.append(self.ev(it.elt, e2, w))
            return out
        if isinstance(it, (ast.Tuple, ast.List)):
            if any(isinstance(x, ast.Starred) for x in it.elts):
                return None
            return list(it.elts)
        if isinstance(it, ast.Dict):
            ent = self._dict_entries(it)
            return [k for (k, _v) in ent] if ent is not None else None
        if isinstance(it, ast.Call):
            nm, recv = A.call_attr(it), A.call_recv(it)
            if recv is not None and nm in ("items", "keys", "values") and not it.args:
                ent = self._dict_entries(recv)
                if ent is None:
                    return None
                if nm == "items":
                    return [ast.Tuple(elts=[k, v], ctx=ast.Load()) for (k, v) in ent]
                return [k if nm == "keys" else v for (k, v) in ent]
            if isinstance(it.func, ast.Name) and it.func.id in ("tuple", "list", "iter") and len(it.args) == 1 and not it.keywords:
                return self._seq_elems(it.args[0], depth + 1)
            if isinstance(it.func, ast.Name) and it.func.id == "enumerate" and len(it.args) == 1 and not it.keywords:
                inner = self._seq_elems(it.args[0], depth + 1)
                if inner is None:
                    return None
                return [ast.Tuple(elts=[ast.Constant(value=i), x], ctx=ast.Load()) for i, x in enumerate(inner)]
        return None

    # ---- expressions ------------------------------------------------------------------------------
    def _is_subject(self, e):
        return isinstance(e, ast.Name) and e.id == self.subject

    def _class_expr(self, w):
        (k, kind, _m) = w
        if kind == "sub" or k == "<no class>":
            return ast.Name(id=_UNKNOWN_CLASS, ctx=ast.Load())
        if k == "None":
            return ast.parse("type(None)", mode="eval").body
        try:
            return ast.parse(k, mode="eval").body
        except SyntaxError:
            return ast.Name(id=_UNKNOWN_CLASS, ctx=ast.Load())

    def _class_key(self, e):
        """Canonical name of an expression that denotes a class (for exact-class look-ups), else None."""
        if isinstance(e, ast.Name) and e.id == _UNKNOWN_CLASS:
            return _UNKNOWN_CLASS
        d = A.dotted(e)
        if d is not None and (d.split(".")[0] in self.params or self.fa.df.is_local(d.split(".")[0])):
            return None
        ns = self._type_names(e) if not isinstance(e, (ast.Tuple, ast.List, ast.Set)) else None
        return ns[0] if ns and len(ns) == 1 else None

    def _not_none(self, e):
        """Evidently not None: a literal, a display, a dotted chain rooted in a global (enum member, class, module)."""
        if isinstance(e, ast.Constant):
            return e.value is not None
        if isinstance(e, (ast.Dict, ast.List, ast.Tuple, ast.Set, ast.JoinedStr, ast.ListComp, ast.DictComp, ast.SetComp, ast.Lambda)):
            return True
        d = A.dotted(e)
        if d is not None and "." in d:
            root = d.split(".")[0]
            return root not in self.params and not self.fa.df.is_local(root) and root != _UNKNOWN_CLASS
        return False

    @staticmethod
    def _const(v):
        return ast.Constant(value=v)

    @staticmethod
    def _tv(e):
        """Three-valued truth of an evaluated expression."""
        if isinstance(e, ast.Constant):
            return bool(e.value)
        if isinstance(e, (ast.Tuple, ast.List, ast.Set)):
            return bool(e.elts)
        if isinstance(e, ast.Dict):
            return bool(e.keys)
        return None

    def _lookup(self, table, key, default):
        """Value of a literal table for an evaluated key, `default` when it is evidently absent, None when unknown."""
        ent = self._dict_entries(table)
        if ent is None:
            return None
        ck_ = self._class_key(key)
        if ck_ is not None:
            keys = [self._class_key(k) for (k, _v) in ent]
            self.exact_keys |= {kk for kk in keys if kk}
            hit = None
            for kk, (_k, v) in zip(keys, ent):
                if kk is not None and kk == ck_:
                    hit = v      # later entries of a display win
            if hit is not None:
                return hit
            if all(kk is not None for kk in keys):
                return default
            return None
        if isinstance(key, ast.Constant):
            hit, allc = None, True
            for (k, v) in ent:
                if isinstance(k, ast.Constant):
                    if k.value == key.value and type(k.value) is type(key.value):
                        hit = v
                else:
                    allc = False
            if hit is not None:
                return hit
            return default if allc else None
        return None

    def ev(self, e, env, w):
        self._work += 1
        if self._work > 400000:
            raise _Unsupported("too much work")
        if isinstance(e, ast.Name):
            if isinstance(e.ctx, ast.Load) and e.id in env:
                return env[e.id]
            return e
        if isinstance(e, ast.Constant):
            return e
        if isinstance(e, ast.NamedExpr):
            v = self.ev(e.value, env, w)
            if isinstance(e.target, ast.Name):
                env[e.target.id] = v
            return v
        if isinstance(e, (ast.ListComp, ast.SetComp, ast.DictComp, ast.GeneratorExp, ast.Lambda)):
            bound = set()
            for x in ast.walk(e):
                if isinstance(x, ast.comprehension):
                    bound |= {n.id for n in ast.walk(x.target) if isinstance(n, ast.Name)}
                if isinstance(x, ast.Lambda):
                    bound |= {a.arg for a in x.args.args + x.args.kwonlyargs + x.args.posonlyargs}
            inner = {k: v for k, v in env.items() if k not in bound}

            class T(ast.NodeTransformer):
                def visit_Name(self, n):
                    if isinstance(n.ctx, ast.Load) and n.id in inner:
                        return copy.deepcopy(inner[n.id])
                    return n
            return T().visit(copy.deepcopy(e))
        if isinstance(e, ast.UnaryOp) and isinstance(e.op, ast.Not):
            v = self.ev(e.operand, env, w)
            t = self._tv(v)
            return self._const(not t) if t is not None else ast.UnaryOp(op=ast.Not(), operand=v)
        if isinstance(e, ast.BoolOp):
            is_and = isinstance(e.op, ast.And)
            rest = []
            for x in e.values:
                v = self.ev(x, env, w)
                t = self._tv(v)
                if t is None:
                    rest.append(v)
                elif t != is_and:
                    # decides the whole operation, unless an undecided operand before it may already have done so
                    if not rest:
                        return v
                    rest.append(v)
                    break
                else:
                    last = v
            if not rest:
                return last
            if len(rest) == 1:
                return rest[0]
            # `u and False` / `u or True`: decided whatever u is, as a truth value
            tl = self._tv(rest[-1])
            if tl is not None and tl != is_and:
                return self._const(tl)
            return ast.BoolOp(op=e.op, values=rest)
        if isinstance(e, ast.IfExp):
            t = self.ev(e.test, env, w)
            tv = self._tv(t)
            if tv is True:
                return self.ev(e.body, env, w)
            if tv is False:
                return self.ev(e.orelse, env, w)
            return ast.IfExp(test=t, body=self.ev(e.body, env, w), orelse=self.ev(e.orelse, env, w))
        if isinstance(e, ast.Compare) and len(e.ops) == 1:
            l, r, op = self.ev(e.left, env, w), self.ev(e.comparators[0], env, w), e.ops[0]
            res = self._compare(l, op, r, w)
            if res is not None:
                return self._const(res)
            return ast.Compare(left=l, ops=[op], comparators=[r])
        if isinstance(e, ast.Attribute):
            v = self.ev(e.value, env, w)
            if e.attr == "__class__" and self._is_subject(v):
                return self._class_expr(w)
            return ast.Attribute(value=v, attr=e.attr, ctx=ast.Load())
        if isinstance(e, ast.Subscript):
            v, s = self.ev(e.value, env, w), self.ev(e.slice, env, w)
            if isinstance(v, (ast.Tuple, ast.List)) and isinstance(s, ast.Constant) and isinstance(s.value, int) \
                    and -len(v.elts) <= s.value < len(v.elts) and not any(isinstance(x, ast.Starred) for x in v.elts):
                return v.elts[s.value]
            hit = self._lookup(v, s, None)
            if hit is not None:
                return hit
            return ast.Subscript(value=v, slice=s, ctx=ast.Load())
        if isinstance(e, ast.Call):
            return self._call(e, env, w)
        # anything else: evaluate the parts
        new = copy.copy(e)
        for f, v in ast.iter_fields(e):
            if isinstance(v, ast.expr):
                setattr(new, f, self.ev(v, env, w))
            elif isinstance(v, list):
                setattr(new, f, [self.ev(x, env, w) if isinstance(x, ast.expr) else x for x in v])
        return new

    def _compare(self, l, op, r, w):
        (k, kind, _m) = w
        if isinstance(op, (ast.Is, ast.IsNot, ast.Eq, ast.NotEq)):
            same = None
            for (a, b) in ((l, r), (r, l)):
                if A.is_none(b):
                    if self._is_subject(a):
                        same = (k == "None")
                    elif isinstance(a, ast.Constant):
                        same = a.value is None
                    elif self._not_none(a):
                        same = False
            if same is None and isinstance(l, ast.Constant) and isinstance(r, ast.Constant):
                same = (l.value == r.value and type(l.value) is type(r.value))
            if same is None:
                kl, kr = self._class_key(l), self._class_key(r)
                lc = isinstance(l, ast.Name) and l.id == _UNKNOWN_CLASS or self._came_from_type(l)
                rc = isinstance(r, ast.Name) and r.id == _UNKNOWN_CLASS or self._came_from_type(r)
                if (lc or rc) and kl is not None and kr is not None:
                    same = (kl == kr) and kl != _UNKNOWN_CLASS
                    for kk in (kl, kr):
                        if kk != _UNKNOWN_CLASS:
                            self.exact_keys.add(kk)
            if same is not None:
                return same if isinstance(op, (ast.Is, ast.Eq)) else (not same)
        if isinstance(op, (ast.In, ast.NotIn)):
            kl = self._class_key(l)
            if kl is not None and (kl == _UNKNOWN_CLASS or self._came_from_type(l)):
                rr = self._resolved(r)
                keys = None
                if isinstance(rr, (ast.Tuple, ast.List, ast.Set)):
                    keys = [self._class_key(x) for x in rr.elts]
                else:
                    ent = self._dict_entries(rr)
                    if ent is not None:
                        keys = [self._class_key(x) for (x, _v) in ent]
                if keys is not None and all(x is not None for x in keys):
                    found = kl != _UNKNOWN_CLASS and kl in keys
                    return found if isinstance(op, ast.In) else (not found)
        return None

    def _came_from_type(self, e):
        return getattr(e, "_from_type", False)

    def _kind_of_value(self, x):
        """What an evaluated expression evidently is: ('member', EnumClass) for `EnumClass.member` of a repository Enum,
        ('function', name) for a function of the repository, ('const', type name) for a literal; else None."""
        if isinstance(x, ast.Constant):
            return ("const", type(x.value).__name__ if x.value is not None else "None")
        d = A.dotted(x)
        if d is None:
            return None
        parts = d.split(".")
        if parts[0] in self.params or self.fa.df.is_local(parts[0]):
            return None
        if len(parts) == 2 and enum_members(self.fa, ast.Name(id=parts[0], ctx=ast.Load())) is not None:
            return ("member", parts[0])
        if len(parts) == 1:
            f = self.fa.ck.repo.try_func("%s.%s" % (self.fa.fi.module.name, parts[0]))
            if f is not None and f.cls is None:
                return ("function", parts[0])
        return None

    def _call(self, e, env, w):
        f = e.func
        args = [self.ev(a.value, env, w) if isinstance(a, ast.Starred) else self.ev(a, env, w) for a in e.args]
        if isinstance(f, ast.Name) and f.id not in env:
            if f.id == "isinstance" and len(args) == 2 and not e.keywords and self._is_subject(args[0]):
                names = self._type_names(args[1])
                if names is not None:
                    for n_ in names:
                        self.asked.setdefault(n_, e)
                    return self._const(any(self._isa(w, n_) for n_ in names))
            if f.id == "isinstance" and len(args) == 2 and not e.keywords:
                # a table entry that is either an enum member or a function working it out
                kv, names = self._kind_of_value(args[0]), self._type_names(args[1])
                if kv is not None and names is not None:
                    if kv[0] == "member":
                        return self._const(kv[1] in names or "Enum" in [n_.split(".")[-1] for n_ in names])
                    if kv[0] == "function" and not any(n_.split(".")[-1] in ("Callable", "FunctionType", "object") for n_ in names):
                        return self._const(False)
            if f.id == "callable" and len(args) == 1 and not e.keywords:
                kv = self._kind_of_value(args[0])
                if kv is not None and kv[0] in ("function", "member"):
                    return self._const(kv[0] == "function")
            if f.id == "type" and len(args) == 1 and not e.keywords and self._is_subject(args[0]):
                c = self._class_expr(w)
                c._from_type = True
                return c
            if f.id == "cast" and len(args) == 2:
                return args[1]
            if f.id == "next" and 1 <= len(args) <= 2 and isinstance(e.args[0], ast.GeneratorExp):
                r = self._next(e.args[0], args[1] if len(args) == 2 else None, env, w)
                if r is not None:
                    return r
        if not e.keywords and not any(isinstance(a, ast.Starred) for a in e.args) and any(self._is_subject(a) for a in args):
            called = e
            if isinstance(f, ast.Name) and f.id in env:
                called = ast.Call(func=env[f.id], args=list(e.args), keywords=[])   # a function picked from a table
            r = self._helper_call(called, args, w)
            if r is not None:
                return r
        if isinstance(f, ast.Attribute) and f.attr == "get" and 1 <= len(args) <= 2 and not e.keywords:
            recv = self.ev(f.value, env, w)
            default = args[1] if len(args) == 2 else self._const(None)
            hit = self._lookup(recv, args[0], default)
            if hit is not None:
                return hit
        new = ast.Call(func=self.ev(f, env, w) if not isinstance(f, ast.Name) else (env.get(f.id, f)),
                       args=[ast.Starred(value=v, ctx=ast.Load()) if isinstance(a, ast.Starred) else v for a, v in zip(e.args, args)],
                       keywords=[ast.keyword(arg=k.arg, value=self.ev(k.value, env, w)) for k in e.keywords])
        return new

    def _helper_call(self, e, args, w, _depth=[0]):
        """Value of a call that hands the subject to another function of the repository (part of the dispatch moved into a
        helper that was not written back into the caller), when that function answers it with one value in this world."""
        callee, off = resolve_callee(self.fa, e)
        if callee is None or callee.node is self.node or _depth[0] >= 3:
            return None
        a = callee.node.args
        if a.vararg or a.kwarg or a.kwonlyargs:
            return None
        params = [x.arg for x in a.posonlyargs + a.args][off:]
        if len(params) != len(args):
            return None
        _depth[0] += 1
        try:
            env = dict(zip(params, args))
            comps = self._block(callee.node.body, env, w)
        except _Unsupported:
            return None
        finally:
            _depth[0] -= 1
        vals = {(kind, val or "") for (kind, _env, val) in comps}
        self.helper_returns |= {val for (kind, val) in vals if kind == "return"}
        if len(vals) == 1:
            (kind, val) = next(iter(vals))
            if kind == "return":
                try:
                    return ast.parse(val, mode="eval").body
                except SyntaxError:
                    return None
            if kind == "fall":
                return self._const(None)
        return None

    def _next(self, gen, default, env, w):
        """`next((E for t in TABLE if C), default)` over a literal table: the first element whose condition holds."""
        if len(gen.generators) != 1 or gen.generators[0].is_async:
            return None
        g = gen.generators[0]
        elems = self._seq_elems(self.ev(g.iter, env, w), 0, env, w)
        if elems is None:
            return None
        for el in elems:
            e2 = dict(env)
            self._bind(g.target, el, e2)
            ok = True
            for c in g.ifs:
                t = self._tv(self.ev(c, e2, w))
                if t is None:
                    return None
                if not t:
                    ok = False
                    break
            if ok:
                return self.ev(gen.elt, e2, w)
        return default  # None: StopIteration -- not modelled

    # ---- statements -------------------------------------------------------------------------------
    def _bind(self, target, value, env):
        if isinstance(target, ast.Name):
            env[target.id] = value
        elif isinstance(target, (ast.Tuple, ast.List)):
            if isinstance(value, (ast.Tuple, ast.List)) and len(value.elts) == len(target.elts) \
                    and not any(isinstance(x, ast.Starred) for x in list(value.elts) + list(target.elts)):
                for t, v in zip(target.elts, value.elts):
                    self._bind(t, v, env)
            else:
                for i, t in enumerate(target.elts):
                    if isinstance(t, ast.Starred):
                        self._bind(t.value, ast.Name(id="_rest", ctx=ast.Load()), env)
                    else:
                        self._bind(t, ast.Subscript(value=value, slice=ast.Constant(value=i), ctx=ast.Load()), env)
        # attribute / subscript targets: not part of the dispatch

    @staticmethod
    def _dedupe(envs):
        seen, out = set(), []
        for e in envs:
            k = tuple(sorted((n, A.norm(v)) for n, v in e.items()))
            if k not in seen:
                seen.add(k)
                out.append(e)
        return out

    def _block(self, stmts, env, w):
        states, out = [env], []
        for st in stmts:
            nxt = []
            for e in states:
                for (kind, e2, val) in self._stmt(st, e, w):
                    if kind == "fall":
                        nxt.append(e2)
                    else:
                        out.append((kind, e2, val))
            states = self._dedupe(nxt)
            if len(states) + len(out) > self.CAP:
                raise _Unsupported("too many path classes")
            if not states:
                break
        return out + [("fall", e, None) for e in states]

    def _loop_once(self, st, env, w, targets):
        """A loop over something that is not a literal table: not entered, or its body run once on opaque elements."""
        out = [("fall", env, None)]
        e2 = dict(env)
        for n in targets:
            e2[n] = ast.Name(id="_elem_%s" % n, ctx=ast.Load())
        for (kind, e3, val) in self._block(st.body, e2, w):
            if kind in ("fall", "continue", "break"):
                out.append(("fall", e3, None))
            else:
                out.append((kind, e3, val))
        res = []
        for (kind, e3, val) in out:
            if kind == "fall" and getattr(st, "orelse", None):
                res += self._block(st.orelse, e3, w) + [("fall", e3, None)]
            else:
                res.append((kind, e3, val))
        return res

    def _stmt(self, st, env, w):
        if isinstance(st, ast.Return):
            v = self.ev(st.value, dict(env), w) if st.value is not None else self._const(None)
            return [("return", env, A.norm(v))]
        if isinstance(st, ast.Raise):
            if st.exc is None:
                return [("raise", env, "<re-raise>")]
            x = self.ev(st.exc, dict(env), w)
            return [("raise", env, A.norm(x.func) if isinstance(x, ast.Call) else A.norm(x))]
        if isinstance(st, ast.If):
            e2 = dict(env)
            t = self._tv(self.ev(st.test, e2, w))
            out = []
            if t is not False:
                out += self._block(st.body, dict(e2), w)
            if t is not True:
                out += self._block(st.orelse, dict(e2), w)
            return out
        if isinstance(st, ast.Assign):
            e2 = dict(env)
            v = self.ev(st.value, e2, w)
            for t in st.targets:
                self._bind(t, v, e2)
            return [("fall", e2, None)]
        if isinstance(st, ast.AnnAssign):
            e2 = dict(env)
            if st.value is not None:
                self._bind(st.target, self.ev(st.value, e2, w), e2)
            return [("fall", e2, None)]
        if isinstance(st, ast.AugAssign):
            e2 = dict(env)
            if isinstance(st.target, ast.Name):
                cur = e2.get(st.target.id, ast.Name(id=st.target.id, ctx=ast.Load()))
                e2[st.target.id] = ast.BinOp(left=cur, op=st.op, right=self.ev(st.value, e2, w))
            return [("fall", e2, None)]
        if isinstance(st, (ast.For, ast.AsyncFor)):
            e0 = dict(env)
            elems = self._seq_elems(self.ev(st.iter, e0, w), 0, e0, w)
            if elems is None:
                return self._loop_once(st, e0, w, [n.id for n in ast.walk(st.target) if isinstance(n, ast.Name)])
            states, out, broke = [e0], [], []
            for el in elems:
                nxt = []
                for e in states:
                    e2 = dict(e)
                    self._bind(st.target, el, e2)
                    for (kind, e3, val) in self._block(st.body, e2, w):
                        if kind in ("fall", "continue"):
                            nxt.append(e3)
                        elif kind == "break":
                            broke.append(e3)
                        else:
                            out.append((kind, e3, val))
                states = self._dedupe(nxt)
                if len(states) + len(out) + len(broke) > self.CAP:
                    raise _Unsupported("too many path classes")
            for e in states:
                out += self._block(st.orelse, e, w)
            return out + [("fall", e, None) for e in self._dedupe(broke)]
        if isinstance(st, ast.While):
            return self._loop_once(st, dict(env), w, [])
        if isinstance(st, (ast.With, ast.AsyncWith)):
            e2 = dict(env)
            for it in st.items:
                if it.optional_vars is not None:
                    for n in ast.walk(it.optional_vars):
                        if isinstance(n, ast.Name):
                            e2[n.id] = ast.Name(id="_with_%s" % n.id, ctx=ast.Load())
            return self._block(st.body, e2, w)
        if isinstance(st, ast.Try) or st.__class__.__name__ == "TryStar":
            out = []
            body = self._block(list(st.body), dict(env), w)
            after = []
            for (kind, e2, val) in body:
                if kind == "fall":
                    after += self._block(list(st.orelse), e2, w)
                else:
                    after.append((kind, e2, val))
                if kind == "raise" and st.handlers:
                    for h in st.handlers:
                        e3 = dict(e2)
                        if h.name:
                            e3[h.name] = ast.Name(id="_exc_%s" % h.name, ctx=ast.Load())
                        after += self._block(list(h.body), e3, w)
            for h in st.handlers:     # any statement of the body may raise
                e3 = dict(env)
                if h.name:
                    e3[h.name] = ast.Name(id="_exc_%s" % h.name, ctx=ast.Load())
                after += self._block(list(h.body), e3, w)
            if not st.finalbody:
                return after
            for (kind, e2, val) in after:
                for (k2, e3, v2) in self._block(list(st.finalbody), e2, w):
                    out.append((kind, e3, val) if k2 == "fall" else (k2, e3, v2))
            return out
        if isinstance(st, ast.Expr):
            e2 = dict(env)
            self.ev(st.value, e2, w)   # walrus bindings; the value is dropped
            return [("fall", e2, None)]
        if isinstance(st, ast.Break):
            return [("break", env, None)]
        if isinstance(st, ast.Continue):
            return [("continue", env, None)]
        if isinstance(st, (ast.Pass, ast.Assert, ast.Global, ast.Nonlocal, ast.Import, ast.ImportFrom, ast.Delete,
                           ast.FunctionDef, ast.AsyncFunctionDef, ast.ClassDef)):
            return [("fall", env, None)]
        raise _Unsupported("statement %s" % type(st).__name__)


def dispatch_model(ck, fa, pairs):
    """The Dispatch of a function (cached per checker run and function), or None when its body is not understood."""
    memo = ck.__dict__.setdefault("_dispatch_models", {})
    k = (fa.qual, id(fa.node))
    if k not in memo:
        try:
            memo[k] = Dispatch(fa, pairs)
        except AnalysisError:
            raise
        except Exception:  # a construct the abstract run does not model: the callers fall back / fail closed
            memo[k] = None
    return memo[k]


def _types_of_test(test):
    """-> (subject text, [type names]) for isinstance tests (possibly or-ed), else None."""
    subj = None
    types = []
    for atom in A.test_atoms(test):
        it = A.isinstance_types(atom)
        if it is None:
            return None
        if subj is None:
            subj = it[0]
        elif subj != it[0]:
            return None
        types += it[1]
    return (subj, types) if subj is not None else None


def _outcome(body) -> str:
    return " ; ".join(A.norm(s) for s in body)[:200]


def extract_ladder(func_node):
    """Ordered [(types, outcome, node)] of the isinstance dispatch of a function on one subject: the
    `if isinstance(subject, ...)` statements at dispatch level, in source order.  Dispatch level is the function
    body, the else-branch of a rung (elif chains, nested else), and the blocks of statements that merely wrap the
    dispatch (a guard on something else, try, with); the body of a rung is its outcome and is not searched."""
    out = []
    holder = [None]

    def block(stmts):
        for st in stmts:
            if isinstance(st, ast.If):
                t = _types_of_test(st.test)
                if t is not None:
                    if holder[0] is None:
                        holder[0] = t[0]
                    if t[0] == holder[0]:
                        out.append((t[1], _outcome(st.body), st))
                        block(st.orelse)
                        continue
                block(st.body)
                block(st.orelse)
            elif isinstance(st, ast.Try):
                block(st.body)
                block(st.orelse)
                block(st.finalbody)
            elif isinstance(st, (ast.With, ast.AsyncWith)):
                block(st.body)

    block(func_node.body)
    return out


def _rung_literal(fa: FA, rung, name):
    """The branch literal (as fa.conditions spells it) of the isinstance test of `rung` that mentions type `name`."""
    ids = fa.nodes(rung.test)
    if not ids:
        return None
    for atom in A.test_atoms(rung.test):
        it = A.isinstance_types(atom)
        if it and name in it[1]:
            return fa._literal(atom, ids[0], True)[0]
    return None


def check_ladder_order(ck, rule, fa: FA, ladder, pairs, label):
    """For each (sub, sup) that the dispatch both names, with different outcomes: a `sub` value never takes sup's outcome.
    Decided on what the function answers for a value of class `sub` (exactly, and for an unnamed subclass of it) under
    the class hierarchy, compared with what the rung written for `sup` answers -- whatever the dispatch is written as
    (early returns, elif chain, nested else, first-match loop over a table, exact-class look-up in front).  Handler
    lists are ordered by position; a function body the abstract run does not understand is decided on the path
    conditions of sup's rung as before."""
    is_handlers = bool(ladder) and all(isinstance(nd, ast.ExceptHandler) for (_t, _o, nd) in ladder)
    D = None if is_handlers else dispatch_model(ck, fa, pairs)
    if D is not None:
        n_before = len(ck.obs)
        try:
            return _check_dispatch_order(ck, rule, fa, D, pairs, label)
        except AnalysisError:
            raise
        except Exception:
            del ck.obs[n_before:]
    return _check_ladder_order_by_rungs(ck, rule, fa, ladder, pairs, label)


def _check_dispatch_order(ck, rule, fa, D, pairs, label):
    names = set(D.named())
    verdicts = []
    for (sub, sup) in pairs:
        if sub == sup or sub not in names or sup not in names:
            continue
        # what the rungs written for `sub` and for `sup` answer (a value of an unnamed subclass reaches no exact-class table)
        own_sub, own_sup = D.outcome((sub, "sub", "own")), D.outcome((sup, "sub", "own"))
        if own_sub == own_sup:
            continue
        # ... and what a `sub` value really gets: exactly that class (exact-class tables apply) or a subclass of it
        # (no way out that only sup's rung offers -- also when that rung is entered under a further condition)
        only_sup = own_sup - own_sub
        ok = all(not (D.outcome((sub, kind, "actual")) & only_sup) for kind in ("exact", "sub"))
        verdicts.append((sub, sup, ok))
    # an exact-class look-up in front of the dispatch answers for a direct instance what the dispatch itself answers for
    # the class (i.e. for an instance of an unnamed subclass, which the look-up does not know)
    for k in sorted(D.exact_keys):
        direct, through = D.outcome((k, "exact", "actual")), D.outcome((k, "sub", "actual"))
        if k in ("bool", "None", "NoneType"):
            continue  # cannot be subclassed
        okx = direct == through
        ck.ob(rule, fa.key(None, "%s:exact-class-table-agrees:%s" % (label, k)), okx,
              "the exact-class look-up answers for %s what the dispatch answers" % k if okx else
              "a direct instance of %s is answered %s by the exact-class look-up, an instance of a subclass of it %s by the dispatch behind it: "
              "the two disagree" % (k, sorted(v for (_k, v) in direct), sorted(v for (_k, v) in through)), fa.where(D.where_of(k)))
    for (sub, sup, ok) in verdicts:
        ck.ob(rule, fa.key(None, "%s:%s-before-%s" % (label, sub, sup)), ok,
              "%s is tested before its superclass %s" % (sub, sup) if ok else
              "%s is tested after its superclass %s: a %s value takes the %s branch" % (sub, sup, sub, sup), fa.where(D.where_of(sup)))
    return len(verdicts)


def _check_ladder_order_by_rungs(ck, rule, fa: FA, ladder, pairs, label):
    def idx_of(name):
        for i, (types, outcome, node) in enumerate(ladder):
            if name in types:
                return i
        return None
    n = 0
    for (sub, sup) in pairs:
        i, j = idx_of(sub), idx_of(sup)
        if i is None or j is None or i == j:
            continue
        if ladder[i][1] == ladder[j][1]:
            continue
        n += 1
        ok = i < j
        ri, rj = ladder[i][2], ladder[j][2]
        if isinstance(ri, ast.If) and isinstance(rj, ast.If) and rj.body and fa.nodes(rj.body[0]):
            lit = _rung_literal(fa, ri, sub)
            conds = fa.conditions(rj.body[0]) if lit is not None else None
            if conds:
                ok = all((lit, False) in c for c in conds)
        ck.ob(rule, fa.key(None, "%s:%s-before-%s" % (label, sub, sup)), ok,
              "%s is tested before its superclass %s" % (sub, sup) if ok else
              "%s is tested after its superclass %s: a %s value takes the %s branch" % (sub, sup, sub, sup), fa.where(ladder[j][2]))
    return n


def handler_type_names(h, consts=None):
    """Names of the exception classes a handler catches ([] for a bare except); a module-level name bound to a tuple of
    classes (also nested / concatenated tuples) is looked through."""
    consts = consts or {}

    def names(t, depth=0):
        if depth > 4:
            return [A.norm(t)]
        if isinstance(t, (ast.Tuple, ast.List)):
            return [n for x in t.elts for n in names(x, depth + 1)]
        if isinstance(t, ast.BinOp) and isinstance(t.op, ast.Add):
            return names(t.left, depth + 1) + names(t.right, depth + 1)
        if isinstance(t, ast.Name) and isinstance(consts.get(t.id), (ast.Tuple, ast.List, ast.BinOp)):
            return names(consts[t.id], depth + 1)
        return [A.norm(t)]

    return [] if h.type is None else names(h.type)


def handler_ladder(try_node, consts=None):
    out = []
    for h in try_node.handlers:
        out.append((handler_type_names(h, consts) or ["BaseException"], _outcome(h.body), h))
    return out
