"""isinstance-ladder extraction and subclass-before-superclass order rule (C02.R2, C04, C11.R5)."""
import ast
from typing import List, Tuple

from .. import astutil as A
from ..fa import FA

# (subclass, superclass): facts about Python / the standard library / pandas
BUILTIN_SUBCLASS = [
    ("bool", "int"),
    ("datetime.datetime", "datetime.date"),
    ("pd.Timestamp", "datetime.datetime"),
    ("pd.Timestamp", "datetime.date"),
    ("RuntimeError", "Exception"),
    ("ValueError", "Exception"),
    ("IOError", "Exception"),
    ("OSError", "Exception"),
    ("KeyError", "Exception"),
    ("TypeError", "Exception"),
    ("ModuleNotFoundError", "ImportError"),
    ("ImportError", "Exception"),
    ("AttributeError", "Exception"),
]


def repo_subclass_pairs(ck) -> List[Tuple[str, str]]:
    """(sub, sup) over the exception / marker classes of the repository, by bare class name,
    including their builtin ancestors."""
    pairs = list(BUILTIN_SUBCLASS)
    repo = ck.repo
    for c in repo.all_classes():
        for b in repo.mro(c)[1:]:
            pairs.append((c.name, b.name))
        # builtin bases named in the class statement
        for k in repo.mro(c):
            for be in k.base_exprs:
                if not repo.resolve_base(k, be):
                    pairs.append((c.name, be))
                    for (s, p) in BUILTIN_SUBCLASS:
                        if s == be:
                            pairs.append((c.name, p))
    # transitive closure (small)
    changed = True
    ps = set(pairs)
    while changed:
        changed = False
        for (a, b) in list(ps):
            for (c, d) in list(ps):
                if b == c and (a, d) not in ps:
                    ps.add((a, d))
                    changed = True
    return sorted(ps)


def _types_of_test(test):
    """-> (subject text, [type names]) for isinstance tests (possibly or-ed), else None."""
    subj = None
    types = []
    for atom in A.test_atoms(test):
        it = A.isinstance_types(atom)
        if it is None:
            return None
        if subj is None:
            subj = it[0]
        elif subj != it[0]:
            return None
        types += it[1]
    return (subj, types) if subj is not None else None


def _outcome(body) -> str:
    return " ; ".join(A.norm(s) for s in body)[:200]


def extract_ladder(func_node):
    """Ordered [(types, outcome, node)] of the isinstance dispatch of a function on one subject: the
    `if isinstance(subject, ...)` statements at dispatch level, in source order.  Dispatch level is the function
    body, the else-branch of a rung (elif chains, nested else), and the blocks of statements that merely wrap the
    dispatch (a guard on something else, try, with); the body of a rung is its outcome and is not searched."""
    out = []
    holder = [None]

    def block(stmts):
        for st in stmts:
            if isinstance(st, ast.If):
                t = _types_of_test(st.test)
                if t is not None:
                    if holder[0] is None:
                        holder[0] = t[0]
                    if t[0] == holder[0]:
                        out.append((t[1], _outcome(st.body), st))
                        block(st.orelse)
                        continue
                block(st.body)
                block(st.orelse)
            elif isinstance(st, ast.Try):
                block(st.body)
                block(st.orelse)
                block(st.finalbody)
            elif isinstance(st, (ast.With, ast.AsyncWith)):
                block(st.body)

    block(func_node.body)
    return out


def _rung_literal(fa: FA, rung, name):
    """The branch literal (as fa.conditions spells it) of the isinstance test of `rung` that mentions type `name`."""
    ids = fa.nodes(rung.test)
    if not ids:
        return None
    for atom in A.test_atoms(rung.test):
        it = A.isinstance_types(atom)
        if it and name in it[1]:
            return fa._literal(atom, ids[0], True)[0]
    return None


def check_ladder_order(ck, rule, fa: FA, ladder, pairs, label):
    """For each (sub, sup) both tested with different outcomes: a `sub` value never takes sup's outcome, i.e.
    sup's outcome is only reached with `isinstance(x, sub)` already found false.  Decided on the path conditions
    of sup's outcome (so it does not matter whether the dispatch is written as early returns, an elif chain or
    nested else blocks); for handler lists, and when the conditions cannot be enumerated, by position."""
    def idx_of(name):
        for i, (types, outcome, node) in enumerate(ladder):
            if name in types:
                return i
        return None
    n = 0
    for (sub, sup) in pairs:
        i, j = idx_of(sub), idx_of(sup)
        if i is None or j is None or i == j:
            continue
        if ladder[i][1] == ladder[j][1]:
            continue
        n += 1
        ok = i < j
        ri, rj = ladder[i][2], ladder[j][2]
        if isinstance(ri, ast.If) and isinstance(rj, ast.If) and rj.body and fa.nodes(rj.body[0]):
            lit = _rung_literal(fa, ri, sub)
            conds = fa.conditions(rj.body[0]) if lit is not None else None
            if conds:
                ok = all((lit, False) in c for c in conds)
        ck.ob(rule, fa.key(None, "%s:%s-before-%s" % (label, sub, sup)), ok,
              "%s is tested before its superclass %s" % (sub, sup) if ok else
              "%s is tested after its superclass %s: a %s value takes the %s branch" % (sub, sup, sub, sup), fa.where(ladder[j][2]))
    return n


def handler_ladder(try_node):
    out = []
    for h in try_node.handlers:
        if h.type is None:
            out.append((["BaseException"], _outcome(h.body), h))
        else:
            ts = h.type.elts if isinstance(h.type, ast.Tuple) else [h.type]
            out.append(([A.norm(t) for t in ts], _outcome(h.body), h))
    return out
