"""C10 — provenance is exact and independent of what was already memoized (structural part).

Decides: propagation on every result path, once, and into a record that is the invocation's own while it is
computed (R1); push/pop typestate (R2); what propagation writes (R3); the frame's own reference seeds the dependency set (R4); resource handles are appended (R5).

"Propagation" is an effect, not a spelling: a call of propagate_dependencies(caller, result) or the three
statements it consists of written out in place (append the callee's reference to the caller's invocations, add
its function reference to the caller's dependency set, merge the callee's dependency set into it).  Guards are
read as facts established on branch edges ("there is no calling frame"), loops by what they walk, values by
where they come from.
"""
import ast

from .. import astutil as A
from ..fa import FA
from ..loader import AnalysisError
from .c15 import (FRAME, absent_edges, none_test, alias_text, batch_seqs, body_starts, call_batch_dispatch, enclosing_position, expand_alias, heads_of,
                  is_calling_frame, iteration_counts, nfa, normal_form, not_edges, origins, position_loops, presence_atom, pushes, rebinds_local, choose, unwrap_copy, result_loops, result_name, sense, under)

RL = "runner_local"
INV_LIST = ("invocation_metadata", "invocations")
OWN_REF = ("invocation_metadata", "fn_reference_with_args")


# =================================================================================================
# propagation sites
# =================================================================================================

class Site:
    """One place where a callee's provenance is written into a caller's memento."""

    def __init__(self, anchor, inline, caller_src, caller, result, at, parts, result_src=None):
        self.anchor = anchor          # AST node the obligations are keyed on
        self.inline = inline          # written out in place (True) / a call of propagate_dependencies (False)
        self.caller_src = caller_src  # the expression (as written) through which the caller's memento is reached
        self.caller = caller          # expanded expression denoting the caller's memento (None: not recognisable)
        self.result = result          # expanded expression denoting the callee's memento (None: not recognisable)
        self.result_src = result_src  # ... as written (roles are decided on the expression in place)
        self.at = at
        self.parts = parts            # node-id lists: [call] or [append, add, merge]

    def part(self, k):
        return self.parts[k] if len(self.parts) > 1 else self.parts[0]

    def all_nodes(self):
        return [i for p in self.parts for i in p]


def _strip(e, attrs):
    """X for an expression X.a.b (attrs = (a, b)); None if `e` does not end in that chain."""
    for a in reversed(attrs):
        if not (isinstance(e, ast.Attribute) and e.attr == a):
            return None
        e = e.value
    return e


def _single(e):
    """x for {x} / [x] / (x,) / set([x]) / frozenset({x})."""
    if isinstance(e, ast.Call) and isinstance(e.func, ast.Name) and e.func.id in ("set", "frozenset") and len(e.args) == 1 and not e.keywords:
        e = e.args[0]
    if isinstance(e, (ast.Set, ast.List, ast.Tuple)) and len(e.elts) == 1 and not isinstance(e.elts[0], ast.Starred):
        return e.elts[0]
    return None


def set_updates(fa):
    """[(node ids, receiver expression, kind, operand)] for every in-place growth of a set in the function:
    kind 'elem' (s.add(x), s |= {x}, s.update({x}) — operand x) or 'union' (s |= t, s.update(t) — operand t)."""
    out = []
    for c in fa.calls():
        if not isinstance(c.func, ast.Attribute) or not c.args or c.keywords or not fa.nodes(c) or any(isinstance(a, ast.Starred) for a in c.args):
            continue
        if c.func.attr == "add" and len(c.args) == 1:
            out.append((fa.nodes(c), c.func.value, "elem", c.args[0]))
        elif c.func.attr == "update":
            # s.update(a, b) is s.update(a); s.update(b)
            for a in c.args:
                x = _single(a)
                out.append((fa.nodes(c), c.func.value, "elem" if x is not None else "union", x if x is not None else a))
    for s in fa.stmts(ast.AugAssign):
        if isinstance(s.op, ast.BitOr) and fa.nodes(s) and not rebinds_local(fa, s):
            x = _single(s.value)
            out.append((fa.nodes(s), s.target, "elem" if x is not None else "union", x if x is not None else s.value))
    # `for x in T: s.add(x)` (on every iteration, x being the loop's own variable)  ==  s |= T
    looped = []
    for (ids, r, kind, x) in out:
        lp = fa.enclosing(fa.cfg.node(ids[0]).ast, ast.For) if kind == "elem" and isinstance(x, ast.Name) else None
        if lp is not None and isinstance(lp.target, ast.Name) and lp.target.id == x.id and not lp.orelse and fa.nodes(lp) \
                and all(d.kind == "for" and d.stmt is lp for i in ids for d in fa.df.reaching(i, x.id)) \
                and not any(isinstance(n, ast.Name) and n.id == A.root_name(r) for n in ast.walk(lp.iter)):
            heads = heads_of(fa, lp)
            skip, _twice = iteration_counts(fa, heads, ids)
            if not skip and heads:
                looped.append((heads, r, "union", unwrap_copy(lp.iter)))
                continue
        looped.append((ids, r, kind, x))
    out = looped
    # s |= a | b  ==  s |= a; s |= b
    flat = []
    for (ids, r, kind, x) in out:
        parts = [x]
        while kind == "union" and any(isinstance(p, ast.BinOp) and isinstance(p.op, ast.BitOr) for p in parts):
            parts = [q for p in parts for q in ((p.left, p.right) if isinstance(p, ast.BinOp) and isinstance(p.op, ast.BitOr) else (p,))]
        for p in parts:
            y = _single(p) if kind == "union" else None
            flat.append((ids, r, "elem" if y is not None else kind, y if y is not None else (unwrap_copy(p) if kind == "union" else p)))
    return flat


def _pd_params(ck):
    """(caller, callee) parameter names of propagate_dependencies: the roles are positional."""
    f = ck.repo.try_func(RL + ".propagate_dependencies")
    ps = f.params if f is not None else []
    return (ps[0], ps[1]) if len(ps) >= 2 else ("caller_memento", "result_memento")


def prop_sites(fa):
    sites = []
    P_CALLER, P_RESULT = _pd_params(fa.ck)
    for c in fa.calls("propagate_dependencies"):
        ids = fa.nodes(c)
        if not ids:
            continue
        cm = A.arg_or_kw(c, 0, P_CALLER)
        rm = A.arg_or_kw(c, 1, P_RESULT)
        sites.append(Site(c, False, cm, fa.expand(cm, ids[0]) if cm is not None else None, fa.expand(rm, ids[0]) if rm is not None else None, ids[0], [ids], rm))
    ups = None
    for pu in pushes(fa):
        c, recv = pu.node, pu.recv
        ids = fa.nodes(c)
        X = _strip(expand_alias(fa, recv, ids[0]), INV_LIST)
        if X is None:
            continue
        Y = _strip(expand_alias(fa, pu.elem, ids[0]), OWN_REF)
        adds, merges = [], []
        if Y is not None:
            xt, yt = A.norm(X) + ".function_dependencies", A.norm(Y)
            ups = set_updates(fa) if ups is None else ups
            for (nids, r, kind, operand) in ups:
                if alias_text(fa, r, nids[0]) != xt:
                    continue
                ot = alias_text(fa, operand, nids[0])
                if kind == "elem" and ot == yt + ".invocation_metadata.fn_reference_with_args.fn_reference":
                    adds += nids
                elif kind == "union" and ot == yt + ".function_dependencies":
                    merges += nids
        sites.append(Site(c, True, recv, X, Y, ids[0], [ids, adds, merges]))
    return sites


def _is_frame_memento(fa, e, at):
    return e is not None and isinstance(e, ast.Attribute) and e.attr == "memento" and fa.xnorm(e.value, at) == FRAME


def feeding_calls(fa, expr, at, name, _seen=None):
    """[(call, node id where it is evaluated)] for the calls of `name` the value of `expr` at `at` was computed from."""
    seen = _seen if _seen is not None else set()
    out = []
    for n in A.walk_local(expr):
        if isinstance(n, ast.Call) and A.call_attr(n) == name:
            out.append((n, at))
        elif isinstance(n, ast.Name) and isinstance(n.ctx, ast.Load):
            for d in fa.df.reaching(at, n.id):
                if d.kind == "assign" and d.value is not None and (d.node, d.name) not in seen:
                    seen.add((d.node, d.name))
                    out += feeding_calls(fa, d.value, d.node, name, seen)
    return out


# =================================================================================================
# walks whose branch decisions agree with each other
# =================================================================================================

def _sig(fa, t, at, last=None):
    """By which definitions the names of the test `t` are bound at node `at` (`last`: the one definition a walk passed
    last, for the names it keeps track of)."""
    last = last or {}
    return frozenset((v, frozenset([last[v]]) if v in last else frozenset(d.node for d in fa.df.reaching(at, v)))
                     for v in {x.id for x in ast.walk(t) if isinstance(x, ast.Name)})


def _opened(fa, t, at):
    """A boolean local opened up (`missing = k not in d` ... `if missing:`), like FA.conditions does."""
    if isinstance(t, ast.Name):
        try:
            e = fa.expand(t, at)
        except AnalysisError:
            return t
        if isinstance(e, (ast.Compare, ast.BoolOp, ast.UnaryOp)):
            for x_ in ast.walk(e):
                x_._no_expand = True
            return e
    return t


def _known(fa, t, at, facts, sig=None, last=None):
    """Three-valued reading of the test `t` (at node `at`) under the branch facts {literal text: (polarity, sig)}
    established earlier on the walk; a fact counts only when the names of its test were bound by the same definitions
    as they are here.  True / False / None (not decided by the facts)."""
    if isinstance(t, ast.Constant):
        return bool(t.value)
    sig = _sig(fa, t, at, last) if sig is None else sig
    t = _opened(fa, t, at)
    if isinstance(t, ast.UnaryOp) and isinstance(t.op, ast.Not):
        v = _known(fa, t.operand, at, facts, sig if getattr(t, "_no_expand", False) else None, last)
        return None if v is None else not v
    if isinstance(t, ast.BoolOp):
        vs = [_known(fa, v, at, facts, sig if getattr(t, "_no_expand", False) else None, last) for v in t.values]
        dom = isinstance(t.op, ast.Or)      # one disjunct true / one conjunct false decides
        if any(v is dom for v in vs):
            return dom
        return (not dom) if all(v is (not dom) for v in vs) else None
    text, pol = fa._literal(t, at, True)
    f = facts.get(text)
    if f is None or f[1] != sig:
        return None
    return f[0] == pol


def _facts_of(fa, t, at, positive, sig=None, last=None):
    """[(literal text, polarity, sig)] established by taking the test `t` with the given polarity (a conjunction
    taken true / a disjunction taken false splits into its parts)."""
    sig = _sig(fa, t, at, last) if sig is None else sig
    t = _opened(fa, t, at)
    sub = sig if getattr(t, "_no_expand", False) else None
    if isinstance(t, ast.UnaryOp) and isinstance(t.op, ast.Not):
        return _facts_of(fa, t.operand, at, not positive, sub, last)
    if isinstance(t, ast.BoolOp) and ((isinstance(t.op, ast.And) and positive) or (isinstance(t.op, ast.Or) and not positive)):
        return [f for v in t.values for f in _facts_of(fa, v, at, positive, sub, last)]
    text, pol = fa._literal(t, at, positive)
    return [(text, pol, sig)]


def record_fields_of(repo, module, name, _depth=0):
    """Field names, in constructor order, of the record type the module knows as `name`: a NamedTuple / dataclass /
    plain-constructor class (see c15._record_fields), `name = NamedTuple("X", [("a", T), ...])`, `namedtuple("X", ...)`,
    or one of these imported from another module of the package.  None when `name` is not such a type."""
    from .c15 import _record_fields
    if _depth > 3 or module is None:
        return None
    cls = module.classes.get(name)
    if cls is not None:
        f = _record_fields(cls)
        if not f or any(pos is None for (pos, _n) in f.values()):
            return None
        out = sorted(f, key=lambda k: f[k][0])
        return out if [f[k][0] for k in out] == list(range(len(out))) else None
    v = module.assigns.get(name)
    if isinstance(v, ast.Call) and A.call_attr(v) in ("NamedTuple", "namedtuple") and len(v.args) == 2 and not v.keywords:
        spec = v.args[1]
        if isinstance(spec, ast.Constant) and isinstance(spec.value, str):
            return spec.value.replace(",", " ").split()
        if isinstance(spec, (ast.List, ast.Tuple)):
            out = []
            for x in spec.elts:
                if isinstance(x, ast.Tuple) and x.elts:
                    x = x.elts[0]
                if not (isinstance(x, ast.Constant) and isinstance(x.value, str)):
                    return None
                out.append(x.value)
            return out
        return None
    org = module.imports.get(name)
    if org and ":" in org:
        mod, nm = org.split(":", 1)
        return record_fields_of(repo, repo.modules.get(mod.lstrip(".").split(".")[-1]), nm, _depth + 1)
    return None


def constant_fields(fa, call):
    """{field: constant} for a record built in place with constants in some fields (`Result(value=None, ok=False)`)."""
    if not (isinstance(call, ast.Call) and isinstance(call.func, ast.Name)) or any(isinstance(a, ast.Starred) for a in call.args) \
            or any(k.arg is None for k in call.keywords):
        return {}
    names = record_fields_of(fa.ck.repo, fa.fi.module, call.func.id)
    if not names or len(call.args) > len(names):
        return {}
    got = dict(zip(names, call.args))
    got.update({k.arg: k.value for k in call.keywords if k.arg in names})
    return {f: v.value for f, v in got.items() if isinstance(v, ast.Constant)}


def private_sentinels(fa):
    """Module-level names bound once to a fresh `object()` that the module uses for nothing but identity tests, plain
    assignments to locals and returns, and that no other module imports: no value that was not read from that very
    name is identical to it."""
    mod = fa.fi.module
    cached = mod.__dict__.get("_private_sentinels")
    if cached is not None:
        return cached
    out = set()
    for name, v in mod.assigns.items():
        if not (isinstance(v, ast.Call) and isinstance(v.func, ast.Name) and v.func.id == "object" and not v.args and not v.keywords):
            continue
        ok = True
        parents = {}
        for n in ast.walk(mod.tree):
            for ch in ast.iter_child_nodes(n):
                parents[id(ch)] = n
        stores = 0
        for n in ast.walk(mod.tree):
            if isinstance(n, (ast.Global, ast.Nonlocal)) and name in n.names:
                ok = False
            if isinstance(n, ast.Name) and n.id == name:
                par = parents.get(id(n))
                if isinstance(n.ctx, ast.Store):
                    stores += 1
                elif isinstance(par, ast.Compare) and len(par.ops) == 1 and isinstance(par.ops[0], (ast.Is, ast.IsNot)):
                    pass
                elif isinstance(par, ast.Return) or (isinstance(par, ast.Assign) and par.value is n and all(isinstance(t, ast.Name) for t in par.targets)):
                    pass
                elif isinstance(par, ast.IfExp) and n is not par.test:
                    pass
                else:
                    ok = False
        if stores != 1:
            ok = False
        for other in fa.ck.repo.modules.values():
            if other is not mod and any(o.endswith(":" + name) and o.split(":")[0].lstrip(".").split(".")[-1] == mod.name for o in other.imports.values()):
                ok = False
        if ok:
            out.add(name)
    mod.__dict__["_private_sentinels"] = out
    return out


def _cannot_be(fa, e, name):
    """The value of `e` is not the object the module-level sentinel `name` holds: `e` does not read the name and calls
    nothing of this module that does."""
    mod = fa.fi.module
    mentions = mod.__dict__.setdefault("_mentions_%s" % name, {})
    if not mentions:
        for f in ast.walk(mod.tree):
            if isinstance(f, (ast.FunctionDef, ast.AsyncFunctionDef, ast.Lambda)):
                if any(isinstance(x, ast.Name) and x.id == name for x in ast.walk(f)):
                    mentions[getattr(f, "name", "<lambda>")] = True
        mentions[""] = False
    for n in ast.walk(e):
        if isinstance(n, ast.Name) and n.id == name:
            return False
        if isinstance(n, ast.Lambda) and mentions.get("<lambda>"):
            return False
        if isinstance(n, ast.Call):
            callee = n.func.id if isinstance(n.func, ast.Name) else (n.func.attr if isinstance(n.func, ast.Attribute) else None)
            if callee is None or mentions.get(callee):
                return False
    return True


class _Bound:
    """What a walk knows about plain locals from the bindings it passed: `x = y` (x is y until either is bound
    again), `x = Record(..., ok=False)` (the constant fields of the record x holds), `x = <expression>` (what x was
    computed from: decides `x is SENTINEL` for a private sentinel of the module)."""

    def __init__(self, fa):
        self.fa = fa
        self._consts = {}
        self._exprs = {}
        self.sentinels = private_sentinels(fa)
        # the locals kept track of: those a branch test reads, and those copied into them
        names = set()
        for nd in fa.cfg.nodes:
            if nd.kind == "test" and nd.ast is not None:
                names |= {x.id for x in ast.walk(nd.ast) if isinstance(x, ast.Name)}
        grew = True
        while grew:
            grew = False
            for ds in fa.df.gen.values():
                for d in ds:
                    if d.name in names and d.kind == "assign" and isinstance(d.value, ast.Name) and d.value.id not in names:
                        names.add(d.value.id)
                        grew = True
        self.names = names

    @staticmethod
    def last(binds):
        return {k: node for (k, _kind, _x, node) in binds}

    def after(self, n, binds):
        ds = self.fa.df.gen.get(n, [])
        if not ds:
            return binds
        if not any(d.name in self.names for d in ds):
            return binds
        cur = {k: v for (k, *v) in binds}
        new = dict(cur)
        for d in ds:
            new.pop(d.name, None)
            for k in [k for k, v in new.items() if v[0] == "alias" and v[1] == d.name]:
                new[k] = ["def", 0, new[k][2]]
        for d in ds:
            if d.name not in self.names:
                continue
            v = d.value
            new[d.name] = ["def", 0, n]
            if v is None:
                continue
            if d.kind == "assign" and len(ds) == 1 and isinstance(v, ast.Name) and v.id != d.name:
                new[d.name] = list(cur[v.id][:2]) + [n] if v.id in cur and cur[v.id][0] != "def" else ["alias", v.id, n]
                continue
            if d.kind == "assign" and len(ds) == 1 and isinstance(v, ast.Call):
                if id(v) not in self._consts:
                    self._consts[id(v)] = constant_fields(self.fa, v)
                if self._consts[id(v)]:
                    new[d.name] = ["record", id(v), n]
                    continue
            if d.kind in ("assign", "unpack"):
                self._exprs[id(v)] = (v, d.kind == "assign" and len(ds) == 1, n)
                new[d.name] = ["value", id(v), n]
        return frozenset((k, v[0], v[1], v[2]) for k, v in new.items())

    def _identical(self, x, s, cur):
        """Is the local `x` the sentinel `s` on this walk?  True / False / None."""
        if x == s:
            return True
        kind, what = cur.get(x, (None, None))
        if kind == "alias":
            return True if what == s else None
        if kind == "record":
            return False
        if kind == "value":
            return False if _cannot_be(self.fa, self._exprs[what][0], s) else None
        return None

    def resolve(self, t, binds):
        """The test `t` with what the walk knows about its locals written in."""
        cur = {k: (kind, x) for (k, kind, x, _node) in binds}
        names = {n.id for n in ast.walk(t) if isinstance(n, ast.Name)}
        if not (names & (set(cur) | self.sentinels)):
            return t
        consts = self._consts
        me = self

        class T(ast.NodeTransformer):
            def visit_Compare(self, n):
                if len(n.ops) == 1 and isinstance(n.ops[0], (ast.Is, ast.IsNot)) and isinstance(n.left, ast.Name) and isinstance(n.comparators[0], ast.Name):
                    a, b = n.left.id, n.comparators[0].id
                    if a in me.sentinels:
                        a, b = b, a
                    if b in me.sentinels:
                        v = me._identical(a, b, cur)
                        if v is not None:
                            return ast.copy_location(ast.Constant(value=v == isinstance(n.ops[0], ast.Is)), n)
                self.generic_visit(n)
                return n

            def visit_Attribute(self, n):
                if isinstance(n.ctx, ast.Load) and isinstance(n.value, ast.Name) and cur.get(n.value.id, ("", 0))[0] == "record" \
                        and n.attr in consts[cur[n.value.id][1]]:
                    return ast.copy_location(ast.Constant(value=consts[cur[n.value.id][1]][n.attr]), n)
                self.generic_visit(n)
                return n

            def visit_Name(self, n):
                kind, what = cur.get(n.id, ("", 0))
                if isinstance(n.ctx, ast.Load) and kind == "alias":
                    return ast.copy_location(ast.Name(id=what, ctx=ast.Load()), n)
                if isinstance(n.ctx, ast.Load) and kind == "value" and me._exprs[what][1]:
                    # the one plain assignment this walk passed last: the name stands for what was assigned (as it does
                    # for FA.expand where that assignment is the only one reaching)
                    e, _plain, at = me._exprs[what]
                    try:
                        return ast.copy_location(me.fa.expand(e, at), n)
                    except (AnalysisError, RecursionError):
                        return n
                return n
        import copy
        return ast.fix_missing_locations(T().visit(copy.deepcopy(t)))


def consistent_walk(fa, targets, via=None, avoid=(), cap=60000):
    """A walk entry -> (one of `via`, when given) -> one of `targets` that never passes `avoid` and on which no branch
    is taken against what an earlier branch of the same walk established (`if v: A` ... `if v and w: B`: B only after
    A's branch; `r = probe() ... if r.ok: A ... s = r ... if s.ok: B` likewise, and `s = Result(ok=False)` decides
    `if s.ok`).  Facts are forgotten at loop heads.  Returns the list of node ids, [] when there is none, or None when
    the search was cut off (callers then decide on plain reachability)."""
    cfg = fa.cfg
    targets, avoid = set(targets), set(avoid)
    via = set(via) if via is not None else None
    bound = _Bound(fa)
    start = (cfg.entry, via is None, frozenset(), frozenset())
    prev = {start: None}
    stack = [start]
    while stack:
        if len(prev) > cap:
            return None
        state = stack.pop()
        n, after, lits, binds = state
        if n in avoid:
            continue
        if after and n in targets:
            out = []
            while state is not None:
                out.append(state[0])
                state = prev[state]
            return out[::-1]
        if via is not None and n in via:
            after = True
        nd = cfg.node(n)
        loop_head = nd.kind == "for" or (nd.kind == "test" and isinstance(fa.pm.get(nd.ast), ast.While))
        binds2 = bound.after(n, binds)
        for (d, l) in cfg.succ[n]:
            new = lits
            if loop_head:
                new = frozenset()
            elif nd.kind == "test" and nd.ast is not None and l in ("T", "F"):
                test = bound.resolve(nd.ast, binds2)
                last = bound.last(binds2)
                facts = {t: (pol, g) for (t, pol, g) in lits}
                if _known(fa, test, n, facts, None, last) is (l != "T"):
                    continue
                for (t, pol, g) in _facts_of(fa, test, n, l == "T", None, last):
                    facts[t] = (pol, g)
                new = frozenset((t, pol, g) for (t, (pol, g)) in facts.items())
            nxt = (d, after, new, binds2)
            if nxt not in prev:
                prev[nxt] = state
                stack.append(nxt)
    return []


def _compute_nodes(rl):
    """CFG nodes at which memento_run_local computes the invocation: the call of the function body (the wrapped
    function reached through the reference's `memento_fn`, or anything called with the reference's effective
    arguments) and the store's `memoize` of what the frame collected."""
    out = []
    for c in rl.calls():
        if not rl.nodes(c):
            continue
        through_fn = any(isinstance(n, ast.Attribute) and n.attr == "memento_fn" for n in ast.walk(rl.expand(c.func, rl.nodes(c)[0])))
        with_args = any(k.arg is None and isinstance(k.value, ast.Attribute) and k.value.attr.startswith("effective_kwargs") for k in c.keywords)
        if through_fn or with_args or A.call_attr(c) == "memoize":
            out += rl.nodes(c)
    return out


def field_stores(fa):
    """[(statement, target expression, [(value expression, node)] or None)] for every store into an attribute made by
    an assignment of the function: `x.f = v`, and `x.f, y = v, w` / `x.f, y = pair` with `pair` a tuple display bound
    earlier (each target then receives its own component; None when the component cannot be told)."""
    out = []
    for st in fa.stmts(ast.Assign):
        if not fa.nodes(st):
            continue
        at = fa.nodes(st)[0]
        for t in st.targets:
            if isinstance(t, ast.Attribute):
                out.append((st, t, [(st.value, at)]))
            elif isinstance(t, (ast.Tuple, ast.List)) and any(isinstance(x, ast.Attribute) for x in t.elts):
                lv = [(x, n) for (x, n) in origins(fa, st.value, at) if not A.is_none(x)]     # unpacking None raises
                whole = bool(lv) and all(isinstance(x, (ast.Tuple, ast.List)) and len(x.elts) == len(t.elts)
                                         and not any(isinstance(y, ast.Starred) for y in x.elts) for (x, _n) in lv) \
                    and not any(isinstance(y, ast.Starred) for y in t.elts)
                for i, x in enumerate(t.elts):
                    if isinstance(x, ast.Attribute):
                        out.append((st, x, [(v.elts[i], n) for (v, n) in lv] if whole else None))
    return out


def _adoptions(rl, pushed):
    """Assignments after which the pushed frame's memento is, or shares state with, something that was not built for
    this invocation: `<frame>.memento = <anything but a freshly constructed Memento>`, or a store into a part of
    `<frame>.memento` of a value read from the store's answer."""
    me = pushed + ".memento"
    out = []
    for (st, t, vals) in field_stores(rl):
        at = rl.nodes(st)[0]
        tt = rl.xnorm(t, at)
        if tt == me:
            lv = [o for (v, n) in vals or [] for o in origins(rl, v, n)]
            fresh = bool(lv) and all(isinstance(x, ast.Call) and isinstance(x.func, ast.Name) and x.func.id == "Memento" for (x, _n) in lv)
            if not fresh and st not in out:
                out.append(st)
        elif tt.startswith(me + ".") and (vals is None or any(d.startswith("call:get_memento") for (v, n) in vals for d in rl.deps(v, n))):
            if st not in out:
                out.append(st)
    return out


def _frame_memento_stores(rl, pushed):
    """Assignments to `<pushed frame>.memento`."""
    me = pushed + ".memento"
    out = []
    for (st, t, _vals) in field_stores(rl):
        if rl.xnorm(t, rl.nodes(st)[0]) == me and st not in out:
            out.append(st)
    return out


def _escapes(fa, starts, sites, extra_removed, edge_ok, targets, include_start=True):
    """Can a path from `starts` reach one of `targets` without performing the whole propagation (every one of its
    parts at some site) and without passing `extra_removed`?  Returns the part index that can be skipped, or None."""
    for k in range(3):
        removed = set(extra_removed)
        for s in sites:
            removed |= set(s.part(k))
        r = sense(fa).reach(starts, removed=removed, edge_ok=edge_ok, include_start=include_start)
        if set(targets) & r:
            return k, removed
    return None


# =================================================================================================
# R1
# =================================================================================================

def _index_varies(fa, e, at):
    """No element of the bulk answer is picked by a fixed position (`answer[0]`): a subscript with a constant index yields
    the same element in every iteration, not the iteration's own."""
    for x in ast.walk(e):
        if isinstance(x, ast.Subscript) and not isinstance(x.slice, ast.Slice):
            try:
                atoms = fa.df.deps(x.slice, at)
            except Exception:
                return True
            if atoms and all(a.startswith("const:") or a.startswith("op:") for a in atoms) and "op:elem" not in atoms:
                if any(d.startswith("call:get_mementos") for d in fa.df.deps(x.value, at)):
                    return False
    return True


def _r1_batch(ck, R1):
    br = nfa(ck, RL + ".LocalRunnerBackend.batch_run")
    seqs = batch_seqs(br)
    ploops = position_loops(br, seqs)
    sites = prop_sites(br)
    runs = [c for c in br.calls("memento_run_local") if br.nodes(c)]
    # the element loop(s): position loops that fill the result list, run an element or propagate one
    loops = result_loops(br, ploops, result_name(br), also=runs + [s.anchor for s in sites])
    ck.need(loops, "batch_run: no loop over the input positions found")
    no_caller = absent_edges(br, is_calling_frame(br))
    edge_ok = not_edges(no_caller)
    run_nodes = set(br.nodes_all(runs))
    for (loop_ast, _p) in loops:
        heads = heads_of(br, loop_ast)
        starts = body_starts(br, heads)
        esc = _escapes(br, starts, sites, run_nodes, edge_ok, heads)
        ck.paths_enumerated += 1
        wit = ""
        if esc is not None:
            pth = None
            for h in heads:
                pth = pth or br.cfg.path(starts[0], h, esc[1], edge_ok) if starts else None
            wit = br.cfg.describe_path(pth or [])
        ck.ob(R1, br.key(loop_ast, "iteration-propagates"), esc is None,
              "every iteration propagates provenance (served hit) or runs memento_run_local" if esc is None else
              "an iteration can finish without recording the sub-call in the calling frame: provenance depends on what was memoized "
              "(witness %s)" % wit, br.where(loop_ast))
        # ... and records it once: memento_run_local propagates by itself, so after a propagation written here the same
        # iteration neither runs the element nor propagates again (the caller would list the sub-call twice)
        recs = {i for s in sites for i in s.part(0)}
        again = None
        for i in sorted(recs):
            r = sense(br).reach([i], removed=set(heads), include_start=False)
            if (recs | run_nodes) & r:
                again = i
        ck.paths_enumerated += 1
        ck.ob(R1, br.key(loop_ast, "iteration-records-once"), again is None,
              "an iteration records its sub-call in the calling frame once" if again is None else
              "after propagating the stored memento into the calling frame the same iteration can propagate again / run memento_run_local "
              "(which propagates by itself): the caller lists this sub-call twice when it was memoized beforehand", br.where(loop_ast))
    for s in sites:
        okc = _is_frame_memento(br, s.caller, s.at) and "call:get_calling_frame" in br.deps(s.caller, s.at)
        okr = False
        if s.result is not None:
            # the element's own memento out of the bulk answer
            home = enclosing_position(br, ploops, s.anchor)
            dr = br.deps(s.result, s.at)
            okr = (home is not None and "bulk" in (home[1].elem_role(seqs, s.result_src, s.at) if s.result_src is not None else None,
                                                   home[1].elem_role(seqs, s.result, s.at))) \
                or ("op:subscript" in dr and any(d.startswith("call:get_mementos") for d in dr) and _index_varies(br, s.result, s.at))
        oki = all(s.parts)
        ck.ob(R1, br.key(s.anchor, "args"), okc and okr and oki, "propagates the stored memento into the calling frame's memento" if okc and okr and oki else
              "batch pre-check propagates the wrong mementos (caller=%s, result=%s)" % (A.norm(s.caller), A.norm(s.result)) if oki else
              "the propagation written out in batch_run is incomplete (invocation appended, but the callee's reference / its dependency set is "
              "not added to the caller's dependencies)", br.where(s.anchor))


# =================================================================================================
# clean-up registered on an exit stack, read as the try/finally it is
# =================================================================================================

def _is_exit_stack(mod, call):
    """`ExitStack()` / `contextlib.ExitStack()` with the name bound by the module's imports."""
    if not (isinstance(call, ast.Call) and not call.args and not call.keywords):
        return False
    f = call.func
    if isinstance(f, ast.Name):
        return mod.imports.get(f.id) == "contextlib:ExitStack"
    return isinstance(f, ast.Attribute) and f.attr == "ExitStack" and isinstance(f.value, ast.Name) and mod.imports.get(f.value.id) == "contextlib"


def _own_walk(node):
    """Nodes below `node`, not entering nested function / class / lambda bodies."""
    stack = list(ast.iter_child_nodes(node))
    while stack:
        n = stack.pop()
        yield n
        if not isinstance(n, (ast.FunctionDef, ast.AsyncFunctionDef, ast.ClassDef, ast.Lambda)):
            stack.extend(ast.iter_child_nodes(n))


def deferred_written_out(ck, fi):
    """`fi` with the clean-up calls it registers on a `contextlib.ExitStack` written as what they mean:

        with ExitStack() as S:                 with ExitStack() as S:
            A                                      A
            S.callback(F, x, y)        ==>         x', y' = x, y
            B                                      try: B
                                                   finally: F(x', y')     (F's body, when F is a helper of this tree)

    An exit stack runs its callbacks when the block is left, however it is left, last registered first, with the
    arguments as they were at registration, and a callback cannot swallow the exception.  Only the plain form is
    rewritten: S is bound by `with ExitStack() as S`, is used for nothing but `S.callback(<function>, ...)` and
    `S.enter_context(<manager>)` statements standing directly in that block (the latter is the `with <manager>:` around
    the rest of the block that it means); anything else (pop_all, push, the stack handed on, a callback
    registered under a condition) leaves the function as it is — the rules then see no clean-up at all and say so."""
    import copy
    from ..inline import Inliner, NotInlinable, _all_names
    from ..loader import FuncInfo
    mod = fi.module
    withs = [w for w in _own_walk(fi.node) if isinstance(w, ast.With) and len(w.items) == 1 and _is_exit_stack(mod, w.items[0].context_expr)
             and isinstance(w.items[0].optional_vars, ast.Name)]
    if not withs:
        return fi
    node = copy.deepcopy(fi.node)
    names = _all_names(node)
    fresh = [0]
    done = False
    stores = {}
    for n in _own_walk(node):
        if isinstance(n, ast.Name) and isinstance(n.ctx, (ast.Store, ast.Del)):
            stores[n.id] = stores.get(n.id, 0) + 1
    for n in ast.walk(node):
        if n is not node and isinstance(n, (ast.FunctionDef, ast.AsyncFunctionDef, ast.Lambda)):
            for x in ast.walk(n):
                if isinstance(x, ast.Nonlocal):
                    for nm in x.names:
                        stores[nm] = 2
    for w in [w for w in _own_walk(node) if isinstance(w, ast.With) and len(w.items) == 1 and _is_exit_stack(mod, w.items[0].context_expr)
              and isinstance(w.items[0].optional_vars, ast.Name)]:
        S = w.items[0].optional_vars.id
        regs = {}
        entered = set()
        for i, st in enumerate(w.body):
            if isinstance(st, ast.Expr) and isinstance(st.value, ast.Call) and isinstance(st.value.func, ast.Attribute) and st.value.func.attr == "callback" \
                    and isinstance(st.value.func.value, ast.Name) and st.value.func.value.id == S and st.value.args \
                    and not any(isinstance(a, ast.Starred) for a in st.value.args) and not any(k.arg is None for k in st.value.keywords) \
                    and isinstance(st.value.args[0], (ast.Name, ast.Attribute, ast.Lambda)):
                regs[id(st.value.func.value)] = i
            else:
                # `S.enter_context(X)` / `v = S.enter_context(X)`: X is left after everything registered later, before
                # everything registered earlier — a `with X [as v]:` around the rest of the block
                c_ = st.value if isinstance(st, (ast.Expr, ast.Assign)) else None
                if isinstance(c_, ast.Call) and isinstance(c_.func, ast.Attribute) and c_.func.attr == "enter_context" and isinstance(c_.func.value, ast.Name) \
                        and c_.func.value.id == S and len(c_.args) == 1 and not c_.keywords and not isinstance(c_.args[0], ast.Starred) \
                        and (isinstance(st, ast.Expr) or (len(st.targets) == 1 and isinstance(st.targets[0], ast.Name))):
                    regs[id(c_.func.value)] = i
                    entered.add(i)
        mentions = [n for n in _own_walk(node) if isinstance(n, ast.Name) and n.id == S]
        nested_mentions = [n for f in _own_walk(node) if isinstance(f, (ast.FunctionDef, ast.AsyncFunctionDef, ast.Lambda)) for n in ast.walk(f) if isinstance(n, ast.Name) and n.id == S]
        if not regs or nested_mentions or any(id(n) not in regs and n is not w.items[0].optional_vars for n in mentions):
            continue
        if not (set(regs.values()) - entered):
            continue
        for i in sorted(regs.values(), reverse=True):
            if i in entered:
                st = w.body[i]
                item = ast.withitem(context_expr=st.value.args[0], optional_vars=st.targets[0] if isinstance(st, ast.Assign) else None)
                w.body[i:] = [ast.copy_location(ast.With(items=[item], body=w.body[i + 1:] or [ast.copy_location(ast.Pass(), st)]), st)]
                continue
            call = w.body[i].value
            pre, actual = [], []
            for a in list(call.args) + [k.value for k in call.keywords]:
                if isinstance(a, ast.Name) and stores.get(a.id, 0) <= 1:
                    # bound once: the name still stands for the registered value when the block is left
                    pre.append(None)
                    actual.append(a.id)
                    continue
                fresh[0] += 1
                tmp = "deferred__d%d" % fresh[0]
                while tmp in names:
                    tmp += "_"
                names.add(tmp)
                pre.append(ast.copy_location(ast.Assign(targets=[ast.Name(id=tmp, ctx=ast.Store())], value=a), call))
                actual.append(tmp)
            fcall = ast.Call(func=ast.Name(id=actual[0], ctx=ast.Load()), args=[ast.Name(id=t, ctx=ast.Load()) for t in actual[1:len(call.args)]],
                             keywords=[ast.keyword(arg=k.arg, value=ast.Name(id=t, ctx=ast.Load())) for k, t in zip(call.keywords, actual[len(call.args):])])
            final = [ast.copy_location(ast.Expr(value=ast.copy_location(fcall, call)), call)]
            # a helper of this tree is written out where it runs (its parameters stand for the values registered)
            direct = copy.deepcopy(fcall)
            direct.func = copy.deepcopy(call.args[0])
            pre = [x for x in pre[1:] if x is not None]
            if isinstance(direct.func, ast.Lambda):
                # a lambda reads its free names when it runs, i.e. when the block is left — like a finally body does
                from .c15 import _apply_lambda
                body = _apply_lambda(direct.func, direct)
                if body is not None:
                    final = [ast.copy_location(ast.Expr(value=body), call)]
                else:
                    final[0].value.func = direct.func
                try:
                    final = Inliner(ck.repo).rewrite_list(final, fi, set(names), 0)
                    names |= {n.id for x in final for n in ast.walk(x) if isinstance(n, ast.Name)}
                except NotInlinable:
                    pass
                tr = ast.copy_location(ast.Try(body=w.body[i + 1:] or [ast.copy_location(ast.Pass(), call)], handlers=[], orelse=[], finalbody=final), w.body[i])
                w.body[i:] = pre + [tr]
                done = True
                continue
            try:
                inl = Inliner(ck.repo)
                r = inl.resolve(direct, fi)
                if r is not None:
                    final = inl.expand(direct, r[0], r[1], "drop", None, set(names), 0)
                    names |= {n.id for x in final for n in ast.walk(x) if isinstance(n, ast.Name)}
                else:
                    final[0].value.func = direct.func
            except NotInlinable:
                final[0].value.func = direct.func
            tr = ast.copy_location(ast.Try(body=w.body[i + 1:] or [ast.copy_location(ast.Pass(), call)], handlers=[], orelse=[], finalbody=final), w.body[i])
            w.body[i:] = pre + [tr]
            done = True
    if not done:
        return fi
    ast.fix_missing_locations(node)
    out = FuncInfo(fi.module, node, fi.qual, fi.cls, fi.parent)
    out.nested = fi.nested
    return out


def _stack_primitive(n):
    """Non-raising in the sense of fa.log_call, plus `<stack>.depth()` (a len() of the frame list)."""
    from ..fa import log_call
    return log_call(n) or (isinstance(n, ast.Call) and isinstance(n.func, ast.Attribute) and n.func.attr == "depth" and not n.args and not n.keywords)


def frame_fa(ck, fi, exc_mode=None):
    from ..cfg import CFG
    fa = FA(ck, fi, exc_mode=exc_mode)
    fa._cfg = CFG(fa.node, fa.exc_mode, nonraising=_stack_primitive)
    return fa


def run_local_fa(ck):
    """memento_run_local as the frame rules read it (see deferred_written_out)."""
    return frame_fa(ck, normal_form(ck, deferred_written_out(ck, ck.fn(RL + ".memento_run_local"))))


class FrameScope:
    """Where memento_run_local keeps its frame on the stack.  Plain form: push_frame / pop_frame in the function
    itself (a try/finally).  Scoped form: `with C(...)` on a class of the same module whose __enter__ pushes a frame
    it was given and whose __exit__ pops — the `with` statement then guarantees that __exit__ runs on every way out
    of the block once __enter__ returned, so the exit-time obligations are decided on __exit__ (and the entry-time
    ones on __enter__), with the class's fields read as the constructor arguments they were bound to."""

    def __init__(self, ck, rl):
        self.rl = rl
        self.ck = ck
        self.scoped = False
        self.sub = {}
        self.fa = rl         # the function that pops and propagates
        self.enter = None
        self.with_stmt = None
        self.pushes = rl.calls("push_frame")
        if self.pushes:
            self.pops = rl.calls("pop_frame")  # none at all: reported by R2 (frame never popped)
            self.starts = rl.nodes_all(self.pushes)
            self.include_start = False
            return
        mod = rl.fi.qual.split(".")[0]
        for w in rl.stmts(ast.With):
            for it in w.items:
                c = it.context_expr
                if not (isinstance(c, ast.Call) and isinstance(c.func, ast.Name) and rl.nodes(w)):
                    continue
                fis = [ck.repo.try_func("%s.%s.%s" % (mod, c.func.id, m)) for m in ("__init__", "__enter__", "__exit__")]
                if any(f is None for f in fis):
                    continue
                init, en, ex = (FA(ck, f) for f in fis)
                if not en.calls("push_frame"):
                    continue
                # fields bound (once, unconditionally) to constructor parameters -> the actual arguments, in rl's terms
                params = init.fi.params[1:]
                for st in init.stmts(ast.Assign):
                    if len(st.targets) == 1 and isinstance(st.targets[0], ast.Attribute) and A.dotted(st.targets[0].value) == "self" \
                            and isinstance(st.value, ast.Name) and st.value.id in params and init.enclosing(st, (ast.If, ast.For, ast.While, ast.Try)) is None:
                        actual = A.arg_or_kw(c, params.index(st.value.id), st.value.id)
                        if actual is not None:
                            self.sub["self." + st.targets[0].attr] = rl.xnorm(actual, rl.nodes(w)[0])
                    elif len(st.targets) == 1 and isinstance(st.targets[0], ast.Attribute) and A.dotted(st.targets[0].value) == "self" and init.nodes(st) \
                            and init.enclosing(st, (ast.If, ast.For, ast.While, ast.Try)) is None \
                            and not any(isinstance(n, ast.Name) and (n.id == "self" or n.id in params) for n in ast.walk(st.value)):
                        # ... or to something that does not depend on the constructor's arguments (`self.stack = CallStack.get()`)
                        self.sub["self." + st.targets[0].attr] = init.xnorm(st.value, init.nodes(st)[0])
                rebound = [t for f in (en, ex) for st in f.stmts((ast.Assign, ast.AugAssign)) for t in (st.targets if isinstance(st, ast.Assign) else [st.target])
                           if isinstance(t, ast.Attribute) and ("self." + t.attr) in self.sub and A.dotted(t.value) == "self"]
                ck.need(not rebound, "%s: rebinds the fields it was constructed with" % c.func.id)
                self.scoped, self.fa, self.enter, self.with_stmt = True, ex, en, w
                self.pushes = en.calls("push_frame")
                self.pops = ex.calls("pop_frame")
                self.starts = [ex.cfg.entry]
                self.include_start = True
                return
        raise AnalysisError("%s: expected push_frame call, found none" % rl.qual)

    def text(self, fa, e, at):
        """Normalised expansion of `e`, in memento_run_local's terms."""
        t = fa.xnorm(e, at)
        if fa is not self.rl:
            import re
            for k in sorted(self.sub, key=len, reverse=True):
                t = re.sub(r"(?<![\w.])" + re.escape(k) + r"(?![\w])", lambda m, k=k: self.sub[k], t)
        return t

    def pushed(self):
        fa = self.enter if self.scoped else self.rl
        pushed = {self.text(fa, p.args[0], fa.nodes(p)[0]) for p in self.pushes if p.args and fa.nodes(p)}
        self.ck.need(len(pushed) == 1, "memento_run_local: push_frame is not called with one identifiable frame")
        return pushed.pop()


class StackModel:
    """What the call stack looks like at each point of a function that pushes its own frame and pops it again.
    Before the push and after the pop the top of the stack is the CALLER's frame (or the stack is empty: a root call);
    in between it is the function's own frame.  So

      * `get_calling_frame()` evaluated before the push or after the pop denotes the caller's frame (None for a root
        call), evaluated in between it denotes the own frame;
      * `pop_frame()` (after the push) returns the own frame;
      * `depth() > 1` in between, `depth() > 0` before / after, say "there is a caller".

    Expressions are followed through locals to the call they come from and classified by where that call is evaluated."""

    def __init__(self, fa, push_nodes, pop_nodes, own_ctor=None):
        self.fa = fa
        self.push, self.pop = set(push_nodes), set(pop_nodes)
        self.own_ctor = own_ctor
        self.after_push = fa.cfg.reach(sorted(self.push), include_start=False)
        self._before_site = {}

    def outside(self, n):
        """Is node `n` evaluated while the own frame is not on the stack (no push yet, or popped since)?"""
        return n not in self.pop and n not in self.push and \
            all(n not in self.fa.cfg.reach([p], removed=self.pop, include_start=False) for p in self.push)

    def inside(self, n):
        """... while the own frame is on the stack (after the push, not after a pop)?"""
        return self.fa.cfg.must_pass(self.push, n) and not any(n in self.fa.cfg.reach([q], include_start=False) for q in self.pop if q != n)

    def _is_stack(self, e, n):
        return e is not None and self.fa.xnorm(e, n) == "CallStack.get()"

    def leaves(self, e, n):
        return [(x, m) for (x, m) in origins(self.fa, e, n) if not A.is_none(x)]

    def caller_frame(self, e, n):
        lv = self.leaves(e, n)
        return bool(lv) and all(isinstance(x, ast.Call) and A.call_attr(x) == "get_calling_frame" and self._is_stack(A.call_recv(x), m) and self.outside(m)
                                for (x, m) in lv)

    def own_frame(self, e, n):
        lv = self.leaves(e, n)
        return bool(lv) and all((self.own_ctor is not None and x is self.own_ctor)
                                or (isinstance(x, ast.Call) and A.call_attr(x) == "pop_frame" and self._is_stack(A.call_recv(x), m) and m in self.pop
                                    and self.fa.cfg.must_pass(self.push, m)) for (x, m) in lv)

    def caller_memento(self, e, n):
        """The caller's memento, or None when there is no caller."""
        lv = self.leaves(e, n)
        return bool(lv) and all(isinstance(x, ast.Attribute) and x.attr == "memento" and self.caller_frame(x.value, m) for (x, m) in lv)

    def own_memento_reads(self, e, n):
        """[(node where `<own frame>.memento` is read)] when `e` denotes the own frame's memento, else None."""
        lv = self.leaves(e, n)
        if lv and all(isinstance(x, ast.Attribute) and x.attr == "memento" and self.own_frame(x.value, m) for (x, m) in lv):
            return [m for (_x, m) in lv]
        return None

    def has_caller(self, val):
        """Atom: every test that says "there is a calling frame" has the value `val`."""
        fa = self.fa

        def depth_test(t, n):
            # X.depth() <op> k
            if isinstance(t, ast.Call) and A.call_attr(t) == "depth" and self._is_stack(A.call_recv(t), n):
                return True if self.outside(n) else None     # truthy depth with the own frame off the stack
            if isinstance(t, ast.Compare) and len(t.ops) == 1 and isinstance(t.left, ast.Call) and A.call_attr(t.left) == "depth" \
                    and self._is_stack(A.call_recv(t.left), n) and isinstance(t.comparators[0], ast.Constant) and type(t.comparators[0].value) is int:
                k, op = t.comparators[0].value, t.ops[0]
                base = 0 if self.outside(n) else (1 if self.inside(n) else None)
                if base is None:
                    return None
                if (isinstance(op, ast.Gt) and k == base) or (isinstance(op, ast.GtE) and k == base + 1) or (isinstance(op, ast.NotEq) and k == base):
                    return True
                if (isinstance(op, ast.LtE) and k == base) or (isinstance(op, ast.Lt) and k == base + 1) or (isinstance(op, ast.Eq) and k == base):
                    return False
            return None

        def f(t, n):
            if n is None:
                return None
            nt = none_test(t)
            x, v = (nt[0], (not nt[1]) == val) if nt is not None else (t, val)
            if isinstance(x, ast.NamedExpr):
                x = x.value
            if isinstance(x, (ast.Name, ast.Attribute, ast.Call)):
                try:
                    if self.caller_frame(x, n) or self.caller_memento(x, n):
                        return v
                except AnalysisError:
                    pass
            if nt is None:
                d = depth_test(t, n)
                if d is not None:
                    return d == val
            return None
        return f


def _r1_run_local(ck, R1):
    rl = run_local_fa(ck)
    sc = FrameScope(ck, rl)
    fa = sc.fa
    pop_nodes = fa.nodes_all(sc.pops)
    sites = prop_sites(fa)
    PUSHED = sc.pushed()
    model = None
    if not sc.scoped:
        own = [x for p_ in sc.pushes if p_.args and rl.nodes(p_) for (x, _n) in origins(rl, p_.args[0], rl.nodes(p_)[0])]
        model = StackModel(rl, rl.nodes_all(sc.pushes), pop_nodes, own[0] if len(own) == 1 else None)
        edge_ok = under(rl, model.has_caller(True), follow_exc=True)
    else:
        no_caller = absent_edges(fa, lambda e, n: sc.text(fa, e, n) == FRAME)
        edge_ok = not_edges(no_caller)
    exits = [fa.cfg.exit, fa.cfg.raise_exit]
    bad = None
    for p in sc.starts:
        if _escapes(fa, [p], sites, (), edge_ok, exits, include_start=sc.include_start) is not None:
            bad = p
    ck.paths_enumerated += len(sc.starts)
    ck.ob(R1, rl.key(None, "exit-propagates"), bad is None and bool(sites),
          "every exit after the push propagates stack_frame.memento to the caller (if any)" if bad is None and sites else
          "memento_run_local can exit without propagating its memento to the calling frame", rl.where())
    lookups = {}
    adopt_nodes = set(rl.nodes_all(_frame_memento_stores(rl, PUSHED)))
    for s in sites:
        # pop precedes the propagation
        okp = all(fa.cfg.must_pass(pop_nodes, i) for i in s.all_nodes())
        if model is not None and not s.inline and s.caller_src is not None and s.result_src is not None:
            # decided on what the expressions denote given where the stack operations they come from are evaluated
            reads = model.own_memento_reads(s.result_src, s.at)
            okc = model.caller_memento(s.caller_src, s.at) and reads is not None
            # ... and the own frame's memento is read when it is final: no replacement of it between the read and here
            here = set(s.all_nodes())
            before = {i for i in rl.cfg.reachable_nodes() if here & rl.cfg.reach([i], include_start=False)} | here
            okt = reads is not None and not any(adopt_nodes & before & rl.cfg.reach([m], include_start=False) for m in reads if m not in here)
        else:
            okc = s.caller is not None and isinstance(s.caller, ast.Attribute) and s.caller.attr == "memento" and sc.text(fa, s.caller.value, s.at) == FRAME \
                and s.result is not None and sc.text(fa, s.result, s.at) == PUSHED + ".memento" and all(s.parts)
            okt = True
            if model is not None and s.result_src is not None:
                reads = model.own_memento_reads(s.result_src, s.at)
                here = set(s.all_nodes())
                before = {i for i in rl.cfg.reachable_nodes() if here & rl.cfg.reach([i], include_start=False)} | here
                okt = reads is None or not any(adopt_nodes & before & rl.cfg.reach([m], include_start=False) for m in reads if m not in here)
        ck.ob(R1, fa.key(s.anchor, "args"), okc and okp and okt, "after the pop, stack_frame.memento is propagated into the new top frame" if okc and okp and okt else
              ("propagation in memento_run_local does not pass (calling_frame.memento, stack_frame.memento) after the pop" if not (okc and okp) else
               "the frame's memento is read before the served path may replace it: what propagates is the fresh record, not the stored one with its "
               "dependency set"), fa.where(s.anchor))
        # the caller is looked up while the own frame is not on the stack: every get_calling_frame() the caller memento is computed from
        if s.caller_src is not None:
            for i in s.part(0):
                for (call, n) in feeding_calls(fa, s.caller_src, i, "get_calling_frame"):
                    ent = lookups.setdefault(id(call), [call, True])
                    ent[1] = ent[1] and (model.outside(n) if model is not None else fa.cfg.must_pass(pop_nodes, n))
    for (call, okq) in lookups.values():
        ck.ob(R1, fa.key(call, "lookup-after-pop"), okq, "the caller is looked up while the own frame is not on the stack" if okq else
              "the calling frame is looked up while the own frame is on top of the stack: the function would propagate into itself", fa.where(call))
    # served path: the frame's memento is replaced by the stored memento before returning
    served = [r for r in rl.returns() if r.value is not None and rl.nodes(r) and "call:process_existing_memento" in rl.deps(r.value)]
    ck.need(served, "memento_run_local: no 'served from store' return found")

    from .c15 import single_lookups
    looked_up = {id(e): c for (e, c, recv, _k) in single_lookups(ck, rl) if rl.xnorm(recv, rl.nodes(c)[0]) == "storage_backend"}

    def stored(e, at):
        lv = [(x, n) for (x, n) in origins(rl, e, at) if not A.is_none(x)]      # "nothing stored" is not adopted under a test of the value
        return bool(lv) and all(id(x) in looked_up for (x, _n) in lv)
    asg = []
    for (st, t, vals) in field_stores(rl):
        if rl.xnorm(t, rl.nodes(st)[0]) == PUSHED + ".memento" and vals and all(stored(v, n) for (v, n) in vals) \
                and (sc.with_stmt is None or rl.inside(st, sc.with_stmt)) and st not in asg:
            asg.append(st)
    an = rl.nodes_all(asg)
    for r in served:
        # where the served value is committed: the return itself, or the binding of the local that is returned later
        commits = sorted({m for i in rl.nodes(r) for (x, m) in origins(rl, r.value, i) if "call:process_existing_memento" in rl.deps(x, m)}) or rl.nodes(r)
        oks = bool(asg) and all(rl.cfg.must_pass(an, i) or rl.cfg.always_reaches(i, an, [rl.cfg.exit, rl.cfg.raise_exit]) for i in commits)
        if asg and not oks:
            # the replacement and the return may sit under two tests of the same condition
            oks = consistent_walk(rl, commits, avoid=an) == []
        ck.ob(R1, rl.key(None, "served-memento-replaces"), oks, "the stored memento (with its stored dependency set) is what propagates" if oks else
              "a served result propagates the fresh, empty frame memento instead of the stored one: transitive dependencies are lost", rl.where(r))
    # ... and only then: while the invocation is (still going to be) computed, the frame's memento is the fresh record
    # the StackFrame was built with — the body's sub-calls and resource handles are appended to the frame's memento and
    # that memento is what gets memoized.  A path that lets the frame adopt a stored memento (or a part of one) and
    # then runs the body / memoizes appends the recomputation's provenance to the stored record.
    work = _compute_nodes(rl)
    ck.need(work, "memento_run_local: no call of the function body found")
    for st in _adoptions(rl, PUSHED):
        hit = sorted(set(work) & rl.cfg.reach(rl.nodes(st), include_start=False))
        ck.paths_enumerated += 1
        wit = ""
        if hit:
            walk = consistent_walk(rl, work, via=rl.nodes(st))
            if walk == []:
                hit = []
            else:
                wit = rl.cfg.describe_path(walk if walk else rl.cfg.path(rl.nodes(st)[0], hit[0]) or [])
        ck.ob(R1, rl.key(st, "adopts-only-when-served"), not hit,
              "the stored memento becomes the frame's memento only on a path that returns the served result" if not hit else
              "`%s` makes stored metadata the frame's memento on a path that goes on to run the function body / memoize (witness %s): "
              "the sub-calls and resource handles of the recomputation are appended to the stored record, which then lists them twice — "
              "the recorded provenance depends on what was memoized before" % (A.short(st, 60), wit), rl.where(st))


# =================================================================================================
# R2
# =================================================================================================

def _r2(ck, R2):
    rl = run_local_fa(ck)
    sc = FrameScope(ck, rl)
    pushes = sc.pushes
    if not sc.scoped:
        push_nodes = rl.nodes_all(pushes)
        pop_nodes = rl.nodes_all(sc.pops)
        exits = [rl.cfg.exit, rl.cfg.raise_exit]
        # the push is protected: once the frame is on the stack nothing that can fail — judged on the graph in which
        # every call / subscript may raise — leads out of the function without passing a pop (a try whose finally pops
        # and that starts right at the push, a push directly in front of such a try, a context manager / exit stack
        # written out as one, a clean-up call in front of every exit and in a catch-all handler are all the same here)
        rx = rl if rl.exc_mode == "all" else frame_fa(ck, rl.fi, exc_mode="all")
        xpush = rx.nodes_all(rx.calls("push_frame"))
        xpop = rx.nodes_all(rx.calls("pop_frame"))
        okt = bool(xpush) and bool(xpop)
        for p in xpush:
            if {rx.cfg.exit, rx.cfg.raise_exit} & rx.cfg.reach([p], removed=xpop, include_start=False):
                okt = False
        why = "push_frame is not inside the try whose finally pops"
        ck.paths_enumerated += len(xpush)
        ck.ob(R2, rl.key(None, "push-in-try"), okt, "push is protected by try/finally-pop" if okt else why, rl.where(pushes[0]))
        leak = None
        for p in push_nodes:
            r = rl.cfg.reach([p], removed=pop_nodes, include_start=False)
            if set(exits) & r:
                leak = p
        # no pop without push
        unp = [i for i in pop_nodes if not rl.cfg.must_pass(push_nodes, i)]
    else:
        en, ex = sc.enter, sc.fa
        push_nodes = en.nodes_all(pushes)
        pop_nodes = ex.nodes_all(sc.pops)
        # __enter__ returns only with the frame pushed (once); if it fails after the push, the frame is popped again
        en_pops = en.nodes_all(en.calls("pop_frame"))
        okt = bool(push_nodes) and en.cfg.must_pass(push_nodes, en.cfg.exit) \
            and not any(set(push_nodes) & en.cfg.reach([p], include_start=False) for p in push_nodes) \
            and not any(en.cfg.exit in en.cfg.reach([q], include_start=False) for q in en_pops)
        ck.ob(R2, rl.key(None, "push-in-try"), okt, "the frame is pushed by the scope's __enter__, whose __exit__ the with statement guarantees" if okt else
              "the scope's __enter__ can return without having pushed the frame exactly once", en.where())
        leak = None
        for p in push_nodes:
            if en.cfg.raise_exit in en.cfg.reach([p], removed=en_pops, include_start=False):
                leak = p
        # __exit__ pops on every path, exactly once
        if not (ex.cfg.must_pass(pop_nodes, ex.cfg.exit) and ex.cfg.must_pass(pop_nodes, ex.cfg.raise_exit)):
            leak = ex.cfg.entry
        unp = [i for i in pop_nodes if set(pop_nodes) & ex.cfg.reach([i], include_start=False)]
    ck.ob(R2, rl.key(None, "balanced"), leak is None and not unp,
          "every path after the push pops exactly the pushed frame; no pop without push" if leak is None and not unp else
          ("a path leaves memento_run_local with the frame still on the stack" if leak is not None else
           "a pop can execute on a path that never pushed"), rl.where())
    # the pushed frame is the StackFrame built (once) for this invocation's own reference
    sf = [c for c in rl.calls("StackFrame") if rl.nodes(c)]
    oksf = len(sf) == 1
    if oksf:
        ref = A.arg_or_kw(sf[0], 0, "fn_reference_with_args")
        oksf = ref is not None and rl.xnorm(ref, rl.nodes(sf[0])[0]) == "fn_reference_with_args"
        if sc.scoped:
            oksf = oksf and sc.pushed() == rl.xnorm(sf[0], rl.nodes(sf[0])[0])
        else:
            for p in pushes:
                lv = origins(rl, p.args[0], rl.nodes(p)[0]) if p.args and rl.nodes(p) else []
                oksf = oksf and bool(lv) and all(x is sf[0] for (x, _n) in lv)
    ck.ob(R2, rl.key(None, "frame-identity"), oksf, "the pushed frame is the frame of this invocation" if oksf else
          "the pushed frame is not the StackFrame built for this invocation", rl.where())


# =================================================================================================
# R3
# =================================================================================================

def _r3(ck, R3):
    pd = nfa(ck, RL + ".propagate_dependencies")
    P_CALLER, P_RESULT = _pd_params(ck)
    INV = "%s.invocation_metadata.invocations" % P_CALLER
    DEPS = "%s.function_dependencies" % P_CALLER
    REF = "%s.invocation_metadata.fn_reference_with_args" % P_RESULT
    # what is recorded is decided on the objects the expressions denote (temporaries and aliases followed), not on
    # which statement form grows the list / the set
    app = [pu for pu in pushes(pd) if alias_text(pd, pu.recv, pd.nodes(pu.node)[0]) == INV]
    ok1 = bool(app) and all(alias_text(pd, pu.elem, pd.nodes(pu.node)[0]) == REF for pu in app) \
        and pd.cfg.must_pass(pd.nodes_all(pu.node for pu in app), pd.cfg.exit)
    ck.ob(R3, pd.key(None, "appends-invocation"), ok1, "the callee's reference-with-arguments is appended to the caller's invocations" if ok1 else
          "propagate_dependencies does not append the callee invocation to the caller's invocation list", pd.where())
    ups = [(ids, r, kind, x) for (ids, r, kind, x) in set_updates(pd) if alias_text(pd, r, ids[0]) == DEPS]
    adds = [(ids, x) for (ids, r, kind, x) in ups if kind == "elem"]
    ok2 = bool(adds) and all(alias_text(pd, x, ids[0]) == REF + ".fn_reference" for (ids, x) in adds)
    if ok2:
        # every path performs the add, except paths on which a test established that the reference is a member already
        add_nodes = {i for (ids, x) in adds for i in ids}

        def member(val):
            def f(e, n):
                if isinstance(e, ast.Compare) and len(e.ops) == 1 and isinstance(e.ops[0], (ast.In, ast.NotIn)) \
                        and alias_text(pd, e.left, n) == REF + ".fn_reference" and alias_text(pd, e.comparators[0], n) == DEPS:
                    return val == isinstance(e.ops[0], ast.In)
                return None
            return f
        ok2 = pd.cfg.exit not in pd.cfg.reach([pd.cfg.entry], removed=add_nodes, edge_ok=under(pd, member(False)))
        ck.paths_enumerated += 1
    ck.ob(R3, pd.key(None, "adds-callee"), ok2, "the callee's function reference joins the caller's dependency set" if ok2 else
          "propagate_dependencies does not add the callee's function reference to the caller's dependencies", pd.where())
    merges = [(ids, x) for (ids, r, kind, x) in ups if kind == "union"]
    okm = bool(merges) and all(alias_text(pd, x, ids[0]) == "%s.function_dependencies" % P_RESULT for (ids, x) in merges) \
        and pd.cfg.must_pass([i for (ids, x) in merges for i in ids], pd.cfg.exit)
    ck.ob(R3, pd.key(None, "merges-transitive"), okm, "the callee's transitive dependencies are merged into the caller's on every path" if okm else
          "propagate_dependencies can return without merging the callee's dependency set (early return / missing union): when the same function is "
          "called twice with arguments that reach different functions, or recursively, transitive dependencies are lost", pd.where())


# =================================================================================================
# R4
# =================================================================================================

def _ctor_arg_raw(ck, call, init_qual, name):
    """The argument expression (as written) a constructor call binds to parameter `name`, keyword or positional."""
    v = A.kwarg(call, name)
    if v is None:
        # `Ctor(**{"name": value, ...})` / `Ctor(**dict(name=value, ...))`: keyword arguments written as a mapping display
        for k in call.keywords:
            if k.arg is not None:
                continue
            if isinstance(k.value, ast.Dict) and all(kk is not None and A.const_str(kk) is not None for kk in k.value.keys):
                for kk, vv in zip(k.value.keys, k.value.values):
                    if A.const_str(kk) == name:
                        v = vv
            elif isinstance(k.value, ast.Call) and isinstance(k.value.func, ast.Name) and k.value.func.id == "dict" and not k.value.args:
                v = A.kwarg(k.value, name) or v
    if v is None:
        init = ck.repo.try_func(init_qual)
        if init is not None:
            params = [a.arg for a in init.node.args.posonlyargs + init.node.args.args][1:]
            if name in params:
                v = A.arg_or_kw(call, params.index(name), name)
    return v


def _ctor_arg(ck, fa, call, init_qual, name):
    """The (expanded) argument a constructor call binds to parameter `name`, keyword or positional."""
    v = _ctor_arg_raw(ck, call, init_qual, name)
    return fa.expand(v, fa.nodes(call)[0]) if v is not None else None


def _display_elements(e):
    """The elements of a set / list written as a display or built from one: {a}, set(), set([a]), set((a,)), [] ..."""
    if isinstance(e, (ast.Set, ast.List)) and not any(isinstance(x, ast.Starred) for x in e.elts):
        return list(e.elts)
    if isinstance(e, ast.Call) and isinstance(e.func, ast.Name) and e.func.id in ("set", "list") and not e.keywords:
        if not e.args:
            return []
        if len(e.args) == 1 and isinstance(e.args[0], (ast.Set, ast.List, ast.Tuple)) and not any(isinstance(x, ast.Starred) for x in e.args[0].elts):
            return list(e.args[0].elts)
        if len(e.args) == 1 and isinstance(e.args[0], (ast.GeneratorExp, ast.ListComp, ast.SetComp)):
            return _comprehension_elements(e.args[0])
    if isinstance(e, (ast.SetComp, ast.ListComp)):
        return _comprehension_elements(e)
    return None


def _comprehension_elements(e):
    """`{f(x) for x in (a, b)}`: one unconditional generator over a display -> [f(a), f(b)]"""
    import copy
    if len(e.generators) != 1:
        return None
    gen = e.generators[0]
    if gen.ifs or gen.is_async or not isinstance(gen.target, ast.Name) or not isinstance(gen.iter, (ast.Tuple, ast.List, ast.Set)) \
            or any(isinstance(x, ast.Starred) for x in gen.iter.elts):
        return None
    var = gen.target.id
    if any(isinstance(x, (ast.Lambda, ast.ListComp, ast.SetComp, ast.GeneratorExp, ast.DictComp, ast.NamedExpr)) for x in ast.walk(e.elt)):
        return None

    class S(ast.NodeTransformer):
        def __init__(self, by):
            self.by = by

        def visit_Name(self, n):
            return copy.deepcopy(self.by) if n.id == var and isinstance(n.ctx, ast.Load) else n
    out = []
    for x in gen.iter.elts:
        y = S(x).visit(copy.deepcopy(e.elt))
        out.append(x if isinstance(e.elt, ast.Name) and e.elt.id == var else ast.fix_missing_locations(ast.copy_location(y, x)))
    return out


class Built:
    """A container a constructor builds for one field: the one place it is created (`leaf`, a display evaluated in
    this function) and everything the function puts into it before it returns — through the local it was bound to or
    through the field path it ends up under."""

    def __init__(self, fa, expr, at, field_path):
        self.fa = fa
        self.leaf = self.at = None
        self.elems = None      # [(expression, node)] or None (contents not known)
        lv = origins(fa, expr, at) if expr is not None else []
        if len(lv) != 1:
            return
        self.leaf, self.at = lv[0]
        first = _display_elements(self.leaf)
        if first is None:
            return
        elems = [(x, self.at) for x in first]

        def is_it(r, n):
            if isinstance(r, ast.Name):
                o = origins(fa, ast.Name(id=r.id, ctx=ast.Load()), n)
                return len(o) == 1 and o[0][0] is self.leaf
            return alias_text(fa, r, n) == field_path
        grown = [(ids, kind, x) for (ids, r, kind, x) in set_updates(fa) if is_it(r, ids[0])]
        grown += [(fa.nodes(pu.node), "elem", pu.elem) for pu in pushes(fa) if is_it(pu.recv, fa.nodes(pu.node)[0])]
        for (ids, kind, x) in grown:
            more = [x] if kind == "elem" else _display_elements(x)
            if more is None or not fa.cfg.must_pass(ids, fa.cfg.exit):
                return      # grown by something unknown / on some paths only
            elems += [(y, ids[0]) for y in more]
        self.elems = elems

    def texts(self):
        return None if self.elems is None else sorted({self.fa.xnorm(x, n) for (x, n) in self.elems})


def _mutable_default_reaches_record(ck, module):
    """A helper of the module that builds (part of) the record from a parameter whose default value is one shared
    mutable object (`def f(..., items=[])`): every call that leaves the parameter out uses the same list / set."""
    inl = getattr(ck.repo, "inliner", None)
    for fi in list(getattr(inl, "new", []) or []):
        if fi.module.name != module:
            continue
        a = fi.node.args
        pos = a.posonlyargs + a.args
        shared = [p.arg for p, d in list(zip(pos[len(pos) - len(a.defaults):], a.defaults)) + [(p, d) for p, d in zip(a.kwonlyargs, a.kw_defaults) if d is not None]
                  if _display_elements(d) is not None or isinstance(d, (ast.Dict, ast.ListComp, ast.SetComp, ast.DictComp))
                  or (isinstance(d, ast.Call) and isinstance(d.func, ast.Name) and d.func.id in ("dict", "defaultdict", "deque"))]
        if not shared:
            continue
        g = FA(ck, fi)
        for c in g.calls():
            if A.call_attr(c) in ("InvocationMetadata", "Memento") and g.nodes(c):
                for v in list(c.args) + [k.value for k in c.keywords]:
                    hit = [p for p in shared if "param:" + p in g.deps(v, g.nodes(c)[0])]
                    if hit:
                        return fi, hit[0]
    return None


def _r4(ck, R4):
    sfi = nfa(ck, "call_stack.StackFrame.__init__")
    OWN = sfi.fi.params[1] if len(sfi.fi.params) > 1 else "fn_reference_with_args"
    mc = sfi.one([c for c in sfi.calls("Memento") if sfi.nodes(c)], "Memento(...) construction")
    at = sfi.nodes(mc)[0]
    # the record as it stands when the constructor returns: what the dependency set was created with plus what was
    # added to it on the way (`deps = set(); deps.add(ref.fn_reference)` and `{ref.fn_reference}` are the same record)
    fd = Built(sfi, _ctor_arg_raw(ck, mc, "metadata.Memento.__init__", "function_dependencies"), at, "self.memento.function_dependencies")
    ok4 = fd.texts() == [OWN + ".fn_reference"]
    ck.ob(R4, sfi.key(None, "self-in-deps"), ok4, "the dependency set starts as {own function reference}" if ok4 else
          "a new frame's dependency set does not start as {its own function reference} (%s)" % (", ".join(fd.texts()) if fd.texts() is not None else A.norm(fd.leaf)),
          sfi.where(mc))
    im = sfi.one([c for c in sfi.calls("InvocationMetadata") if sfi.nodes(c)], "InvocationMetadata(...) construction")
    iat = sfi.nodes(im)[0]
    IMI = "metadata.InvocationMetadata.__init__"
    inv = Built(sfi, _ctor_arg_raw(ck, im, IMI, "invocations"), iat, "self.memento.invocation_metadata.invocations")
    res = Built(sfi, _ctor_arg_raw(ck, im, IMI, "resources"), iat, "self.memento.invocation_metadata.resources")
    shared = _mutable_default_reaches_record(ck, "call_stack")
    def fresh_list(e):
        return isinstance(e, ast.List) or (isinstance(e, ast.Call) and isinstance(e.func, ast.Name) and e.func.id == "list" and not e.args and not e.keywords)
    ok5 = inv.texts() == [] and res.texts() == [] and fresh_list(inv.leaf) and fresh_list(res.leaf) and inv.leaf is not res.leaf and shared is None
    ck.ob(R4, sfi.key(None, "fresh-lists"), ok5, "invocations and resources start as fresh empty lists" if ok5 else
          ("a new frame does not start with fresh empty invocation/resource lists" if shared is None else
           "the frame's record is built from parameter `%s` of %s, whose default value is one list shared by every frame" % (shared[1], shared[0].qual)), sfi.where(im))
    fr = _ctor_arg(ck, sfi, im, IMI, "fn_reference_with_args")
    ok6 = fr is not None and A.norm(fr) == OWN
    ck.ob(R4, sfi.key(None, "own-reference"), ok6, "the memento records the invocation's own reference" if ok6 else
          "the frame memento does not record the invocation's own reference", sfi.where(im))


# =================================================================================================
# R5
# =================================================================================================

def _r5(ck, R5):
    rf = nfa(ck, "resource_function.ResourceFunction.__call__")
    RES = FRAME + ".memento.invocation_metadata.resources"
    with_frame = presence_atom(is_calling_frame(rf), True)

    def sink(pu):
        # what is appended to when there is a calling frame (`frame.memento...resources if frame else []`)
        e, n = choose(rf, pu.recv, rf.nodes(pu.node)[0], with_frame)
        return alias_text(rf, e, n)
    apps = [pu for pu in pushes(rf) if sink(pu) == RES]
    no_caller = absent_edges(rf, is_calling_frame(rf))
    rets = [r for r in rf.returns() if r.value is not None and rf.nodes(r)]
    okr = bool(apps) and bool(rets)
    if okr:
        an = rf.nodes_all(pu.node for pu in apps)
        # a handle is returned to a caller that has a frame only after it was appended to that frame's resources ...
        live = rf.cfg.reach([rf.cfg.entry], removed=an, edge_ok=not_edges(no_caller))
        okr = not (set(rf.nodes_all(rets)) & live)
        # ... and what is appended is what is returned: the same evaluation, not an equal-looking second one
        with_caller = rf.cfg.reach([rf.cfg.entry], edge_ok=not_edges(no_caller))

        def made(e, n):
            return frozenset(id(x) for (x, _n) in origins(rf, e, n))
        appended = {made(pu.elem, rf.nodes(pu.node)[0]) for pu in apps}
        for r in rets:
            if set(rf.nodes(r)) & with_caller:
                okr = okr and made(r.value, rf.nodes(r)[0]) in appended
        ck.paths_enumerated += 2
    ck.ob(R5, rf.key(None, "appends-handle"), okr, "the returned handle is appended to the calling frame's resources" if okr else
          "a resource handle can be returned without being recorded in the calling frame's memento", rf.where())


# =================================================================================================
# R6
# =================================================================================================

def _r6(ck, R6):
    cb = nfa(ck, "base.MementoFunctionBase.call_batch")
    _run, _seqs, _arg, elts = call_batch_dispatch(cb)
    ok = bool(elts)
    ck.ob(R6, cb.key(None, "dispatches-all-elements"), ok, "every requested element is submitted, duplicates included" if ok else
          "call_batch does not submit exactly the reference list it built from kwargs_list (deduplicated / filtered / re-ordered): a body that "
          "batches [a, b, a] gets two invocations recorded instead of three", cb.where())


# =================================================================================================
# R7: the stack a call reads and writes is its own thread's
# =================================================================================================
# The frame a finished sub-call propagates into is "the top of the stack CallStack.get() hands out".  That is the frame of the
# call whose body made the sub-call only if no other call chain that runs at the same time pushes on the same stack object:
# the stack has to live in a slot of a threading.local() object, where a thread finds nothing but what its own code put
# there, and what is put there has to be a stack nobody else holds (created on the spot, or handed to swap()).  A
# module-level variable, a table keyed by something, a contextvars.ContextVar (a copied context -- asyncio.to_thread, task
# creation, copy_context().run -- copies the REFERENCE to the one mutable stack) do not give that.

def _imported_full(mod, d):
    """dotted name `d` as written in module `mod` -> the dotted name it denotes after the module's imports"""
    if d is None:
        return None
    head, _, rest = d.partition(".")
    imp = mod.imports.get(head)
    if imp is None:
        return d
    if ":" in imp:
        m_, n_ = imp.split(":")
        base = (m_.lstrip(".") + "." if m_.lstrip(".") else "") + n_
        return base + ("." + rest if rest else "")
    if imp == head or imp.startswith(head + "."):
        return d
    return imp + ("." + rest if rest else "")


def _is_thread_local_class(repo, ci, _depth=0):
    for b in ci.base_exprs:
        if _imported_full(ci.module, b) == "threading.local":
            return True
        bc = repo.resolve_base(ci, b)
        if bc is not None and _depth < 4 and _is_thread_local_class(repo, bc, _depth + 1):
            return True
    return False


def _holder_kind(repo, mod, v):
    """What a module-level value is, as a place to keep per-execution state: ('thread-local', class or None) for
    threading.local() / an instance of a subclass of it, ('context-var', None) for contextvars.ContextVar(...), else None."""
    if not isinstance(v, ast.Call):
        return None
    d = A.dotted(v.func)
    full = _imported_full(mod, d)
    if full == "threading.local":
        return ("thread-local", None)
    if full in ("contextvars.ContextVar", "aiocontextvars.ContextVar"):
        return ("context-var", None)
    if d is not None and "." not in d:
        ci = mod.classes.get(d)
        if ci is None and d in mod.imports and ":" in mod.imports[d]:
            m_, n_ = mod.imports[d].split(":")
            mm = repo.modules.get(m_.lstrip(".").split(".")[-1])
            ci = mm.classes.get(n_) if mm else None
        if ci is not None and _is_thread_local_class(repo, ci):
            return ("thread-local", ci)
    return None


class StackHome:
    """Where the call stack of the running thread is kept, and what is put there."""

    def __init__(self, ck):
        self.ck = ck
        self.mod = ck.repo.module("call_stack")
        self.get = FA(ck, "call_stack.CallStack.get")
        self.cls = self.get.fi.cls
        self.stack_class = self.cls.name if self.cls is not None else "CallStack"
        # module-level holders of the call_stack module, by name
        self.kinds = {}
        for n, v in self.mod.assigns.items():
            k = _holder_kind(ck.repo, self.mod, v)
            if k is not None:
                self.kinds[n] = k

    # ---- designators -------------------------------------------------------------
    def holder_name(self, fa, e, at):
        """the module-level holder `e` designates at `at` (directly or through a local alias) -> its name in call_stack, or None"""
        try:
            x = fa.expand(e, at) if at is not None else e
        except AnalysisError:
            x = e
        if not isinstance(x, ast.Name):
            return None
        if at is not None and fa.df.reaching(at, x.id):
            return None  # a local / a parameter of that name
        if x.id not in self.kinds and x.id not in fa.fi.module.imports:
            # a local alias bound outside the piece of code under analysis (a handler body analysed on its own)
            whole = self.ck.repo.try_func(fa.fi.qual)
            vals = [v for st in (A.all_stmts(whole.node) if whole is not None else []) if isinstance(st, ast.Assign)
                    for t in st.targets if isinstance(t, ast.Name) and t.id == x.id for v in [st.value]]
            if vals and all(isinstance(v, ast.Name) and v.id != x.id for v in vals) and len({v.id for v in vals}) == 1 and x.id not in whole.params:
                x = vals[0]
            else:
                return None
        if fa.fi.module is self.mod:
            return x.id if x.id in self.kinds else None
        imp = fa.fi.module.imports.get(x.id, "")
        if ":" in imp and imp.split(":")[0].lstrip(".").split(".")[-1] == "call_stack" and imp.split(":")[1] in self.kinds:
            return imp.split(":")[1]
        return None

    def own_instance(self, fa, e):
        """`self` inside a method of a threading.local subclass: the running thread's instance state"""
        fi = fa.fi
        while fi is not None and fi.cls is None and fi.parent is not None:
            fi = fi.parent
        return isinstance(e, ast.Name) and fi is not None and fi.cls is not None and fi.params and e.id == fi.params[0] \
            and not fi.is_static and not fi.is_classmethod and _is_thread_local_class(self.ck.repo, fi.cls)

    def _dict_of(self, fa, e, at):
        """`H.__dict__` / `vars(H)` -> H's name"""
        try:
            x = fa.expand(e, at) if at is not None else e
        except AnalysisError:
            x = e
        if isinstance(x, ast.Attribute) and x.attr == "__dict__":
            return self.holder_name(fa, x.value, at)
        if isinstance(x, ast.Call) and isinstance(x.func, ast.Name) and x.func.id == "vars" and len(x.args) == 1:
            return self.holder_name(fa, x.args[0], at)
        return None

    def slot_read(self, fa, e, at):
        """-> (holder name, slot name, [default expressions]) when `e` reads a slot of a module-level holder object"""
        if isinstance(e, ast.Attribute):
            h = self.holder_name(fa, e.value, at)
            if h is not None:
                return (h, e.attr, [])
            if self.own_instance(fa, e.value):
                return ("<self>", e.attr, [])
        if isinstance(e, ast.Call) and isinstance(e.func, ast.Name) and e.func.id == "getattr" and len(e.args) >= 2 and A.const_str(e.args[1]) is not None:
            h = self.holder_name(fa, e.args[0], at)
            if h is not None:
                return (h, A.const_str(e.args[1]), list(e.args[2:]))
        if isinstance(e, ast.Subscript):
            h = self._dict_of(fa, e.value, at)
            k = A.const_str(e.slice) if not isinstance(e.slice, ast.Slice) else None
            if h is not None and k is not None:
                return (h, k, [])
        if isinstance(e, ast.Call) and isinstance(e.func, ast.Attribute) and e.func.attr in ("get", "setdefault") and e.args and not e.keywords:
            h = self._dict_of(fa, e.func.value, at)
            k = A.const_str(e.args[0])
            if h is not None and k is not None:
                return (h, k, list(e.args[1:]))
        return None

    def slot_stores(self, fa):
        """[(statement, holder, slot, value expression)] for every place of `fa` that puts something into a slot of a holder"""
        out = []
        for s in fa.stmts((ast.Assign, ast.AnnAssign)):
            v = getattr(s, "value", None)
            if v is None:
                continue
            tg = s.targets if isinstance(s, ast.Assign) else [s.target]
            ids = fa.nodes(s)
            at = ids[0] if ids else None
            for t in tg:
                if isinstance(t, (ast.Tuple, ast.List)):
                    parts = list(zip(t.elts, v.elts)) if isinstance(v, (ast.Tuple, ast.List)) and len(v.elts) == len(t.elts) else [(x, v) for x in t.elts]
                else:
                    parts = [(t, v)]
                for (t1, v1) in parts:
                    if isinstance(t1, ast.Attribute):
                        h = self.holder_name(fa, t1.value, at)
                        if h is None and self.own_instance(fa, t1.value):
                            h = "<self>"
                        if h is not None:
                            out.append((s, h, t1.attr, v1))
                    elif isinstance(t1, ast.Subscript) and not isinstance(t1.slice, ast.Slice):
                        h = self._dict_of(fa, t1.value, at)
                        if h is not None:
                            out.append((s, h, A.const_str(t1.slice), v1))
        for c in fa.calls():
            st = fa.stmt_of(c)
            ids = fa.nodes(st) if st is not None else []
            at = ids[0] if ids else None
            if isinstance(c.func, ast.Name) and c.func.id == "setattr" and len(c.args) == 3:
                h = self.holder_name(fa, c.args[0], at)
                if h is None and self.own_instance(fa, c.args[0]):
                    h = "<self>"
                if h is not None:
                    out.append((st, h, A.const_str(c.args[1]), c.args[2]))
            elif isinstance(c.func, ast.Attribute) and c.func.attr == "setdefault" and len(c.args) == 2:
                h = self._dict_of(fa, c.func.value, at)
                if h is not None:
                    out.append((st, h, A.const_str(c.args[0]), c.args[1]))
            elif isinstance(c.func, ast.Attribute) and c.func.attr == "set" and len(c.args) == 1 and not c.keywords:
                h = self.holder_name(fa, c.func.value, at)
                if h is not None and self.kinds[h][0] == "context-var":
                    out.append((st, h, None, c.args[0]))
        return out

    def is_fresh(self, fa, e):
        """`CallStack()`: a stack nobody else holds"""
        if not isinstance(e, ast.Call) or e.args or e.keywords:
            return False
        f = e.func
        if isinstance(f, ast.Name):
            own = fa.fi
            if own.cls is not None and own.cls.name == self.stack_class and own.module is self.mod and own.is_classmethod and own.params and f.id == own.params[0]:
                return True   # `cls()` in a class method of the stack class
            if f.id == self.stack_class and (fa.fi.module is self.mod or fa.fi.module.imports.get(f.id, "").endswith(":" + self.stack_class)):
                return True
            imp = fa.fi.module.imports.get(f.id, "")
            return ":" in imp and imp.split(":")[1] == self.stack_class and imp.split(":")[0].lstrip(".").split(".")[-1] == "call_stack"
        return False

    def leaves(self, fa, e, at, depth=8, _seen=None):
        """the expressions `e` may evaluate to at `at`: locals followed through all their plain assignments, conditional
        expressions / `a or b` / `(x := v)` through their parts -> [(expression, node)]"""
        seen = _seen if _seen is not None else set()
        if isinstance(e, ast.IfExp):
            return self.leaves(fa, e.body, at, depth, seen) + self.leaves(fa, e.orelse, at, depth, seen)
        if isinstance(e, ast.BoolOp):
            out = []
            for v in e.values:
                out += self.leaves(fa, v, at, depth, seen)
            return out
        if isinstance(e, ast.NamedExpr):
            return self.leaves(fa, e.value, at, depth, seen)
        if isinstance(e, ast.Name) and depth > 0 and at is not None:
            ds = fa.df.reaching(at, e.id)
            if ds and all(d.kind == "assign" and d.value is not None and d.node >= 0 for d in ds):
                out = []
                for d in ds:
                    if (d.node, d.name) in seen:
                        continue
                    seen.add((d.node, d.name))
                    out += self.leaves(fa, d.value, d.node, depth - 1, seen)
                return out
        return [(e, at)]

    def callee(self, fa, e):
        """the function of the package a call expression runs, when that is evident: `helper()`, `CallStack.helper()`"""
        if not isinstance(e, ast.Call) or e.args or e.keywords:
            return None
        f = e.func
        m = fa.fi.module
        if isinstance(f, ast.Name) and f.id in m.functions:
            return m.functions[f.id]
        if isinstance(f, ast.Attribute) and isinstance(f.value, ast.Name) and f.value.id in m.classes:
            fi = self.ck.repo.find_method(m.classes[f.value.id], f.attr)
            return fi if fi is not None and (fi.is_static or fi.is_classmethod) else None
        return None

    def handed_out(self, fa, rets, _depth=0):
        """[(fa, leaf expression, node)] for everything the given return statements may hand out; an argument-less call of a
        helper of the package stands for what the helper returns"""
        from .c09 import _fa_reaching
        from .cache_model import value_sources
        out = []
        for r in rets:
            gr = fa if fa.nodes(r) else _fa_reaching(self.ck, fa, r)
            if r.value is None:
                continue
            srcs = value_sources(gr, r) if gr.nodes(r) else [(r.value, None)]
            for (v, vat) in srcs:
                for (leaf, lat) in self.leaves(gr, v, vat):
                    fi = self.callee(gr, leaf) if _depth < 3 else None
                    if fi is not None and fi.qual != fa.fi.qual:
                        sub = FA(self.ck, fi)
                        out += [(a, b, c, r) for (a, b, c, _r) in self.handed_out(sub, sub.returns(), _depth + 1)]
                    else:
                        out.append((gr, leaf, lat, r))
        return out

    def describe(self, fa, e, at):
        """why `e` is not the running thread's own stack, in words (for the report)"""
        if isinstance(e, ast.Call) and isinstance(e.func, ast.Attribute) and e.func.attr == "get":
            h = self.holder_name(fa, e.func.value, at)
            if h is not None and self.kinds[h][0] == "context-var":
                return ("what is read from the context variable `%s`: a copied context (asyncio task, asyncio.to_thread, copy_context().run) "
                        "carries the reference to the same mutable stack, so calls running at the same time push on one list" % h)
        if isinstance(e, ast.Name):
            if at is not None and any(d.kind == "param" for d in fa.df.reaching(at, e.id)):
                return "the parameter `%s`" % e.id
            return "the module-level / shared variable `%s`" % e.id
        return "`%s`, which is not a slot of a threading.local() object" % A.short(e, 60)


def _at(fa, st):
    ids = fa.nodes(st) if st is not None else []
    return ids[0] if ids else None


def _r7(ck, R7):
    from .c09 import _fa_reaching
    home = StackHome(ck)
    g = home.get
    tl = sorted(n for n, k in home.kinds.items() if k[0] == "thread-local")

    def per_thread(h):
        return h == "<self>" or home.kinds[h][0] == "thread-local"

    def same_slot(a, b):
        """two slot designations name one slot (`self.x` inside the thread-local subclass is `<holder>.x` outside it)"""
        if a[1] != b[1]:
            return False
        if a[0] == b[0]:
            return True
        other = b[0] if a[0] == "<self>" else a[0] if b[0] == "<self>" else None
        return other is not None and other != "<self>" and home.kinds[other][1] is not None

    # ---- (a) what is put into a slot of a holder, anywhere in the package
    stores = []          # (fa, statement, holder, slot, [(leaf, node, what)])  what: fresh / swapped / same / none / other
    for m in ck.repo.modules.values():
        if m is not home.mod and not any(":" in v and v.split(":")[0].lstrip(".").split(".")[-1] == "call_stack" for v in m.imports.values()):
            continue
        aliases = set(home.kinds) if m is home.mod else {n for n, v in m.imports.items() if ":" in v and v.split(":")[1] in home.kinds
                                                         and v.split(":")[0].lstrip(".").split(".")[-1] == "call_stack"}
        for fi in m.all_funcs():
            # only code that names a holder object (or is a method of a thread-local class) can put something into one
            top = fi
            while top.cls is None and top.parent is not None:
                top = top.parent
            if not (aliases & {x.id for x in ast.walk(fi.node) if isinstance(x, ast.Name)}) \
                    and not (top.cls is not None and _is_thread_local_class(ck.repo, top.cls)):
                continue
            fa0 = FA(ck, fi)
            for (st, h, slot, v) in home.slot_stores(fa0):
                fa = _fa_reaching(ck, fa0, st)
                at = _at(fa, st)
                what = []
                for (leaf, lat) in home.leaves(fa, v, at):
                    sr = home.slot_read(fa, leaf, lat)
                    if home.is_fresh(fa, leaf):
                        what.append((leaf, lat, "fresh"))
                    elif A.is_none(leaf):
                        what.append((leaf, lat, "none"))
                    elif sr is not None and same_slot((sr[0], sr[1]), (h, slot)):
                        what.append((leaf, lat, "same"))
                    elif isinstance(leaf, ast.Name) and fi.qual == "call_stack.CallStack.swap" and leaf.id in fi.params:
                        what.append((leaf, lat, "swapped"))
                    else:
                        what.append((leaf, lat, "other"))
                stores.append((fa, st, h, slot, what))
    fresh_home = {id(leaf): (h, slot) for (_fa, _st, h, slot, what) in stores for (leaf, _n, w) in what if w == "fresh"}

    # ---- (b) CallStack.get hands out the content of a per-thread slot (or the stack it has just put there) on every return
    rets = g.returns()
    ck.need(rets, "call_stack.CallStack.get: no return statement")
    handed = home.handed_out(g, rets)
    read_slots = set()
    made = []
    verdicts = {}
    for r in rets:
        verdicts[id(r)] = [r, False, None]
    for (gr, leaf, lat, r) in handed:
        rec = verdicts[id(r)]
        if A.is_none(leaf):
            continue
        rec[1] = True
        sr = home.slot_read(gr, leaf, lat)
        if sr is not None:
            h, slot, defaults = sr
            if not per_thread(h):
                rec[2] = rec[2] or (gr, leaf, lat, None)
                continue
            read_slots.add((h, slot))
            for d in defaults:
                for (dl, dat) in home.leaves(gr, d, lat):
                    if A.is_none(dl) or (home.is_fresh(gr, dl) and id(dl) in fresh_home):
                        continue
                    rec[2] = rec[2] or (gr, dl, dat, "a stand-in that is not stored in the slot")
            continue
        if home.is_fresh(gr, leaf):
            where_ = fresh_home.get(id(leaf))
            if where_ is None:
                where_ = _fresh_reaches_slot(home, gr, leaf)
            if where_ is not None and per_thread(where_[0]):
                made.append((rec, gr, leaf, lat, where_))
                continue
            rec[2] = rec[2] or (gr, leaf, lat, "a new stack that is not kept in the running thread's slot: the next get() in the same thread gets another "
                                               "one, and the frames pushed on this one are lost to the sub-calls")
            continue
        rec[2] = rec[2] or (gr, leaf, lat, None)
    for (rec, gr, leaf, lat, where_) in made:
        # the stack just made is what the NEXT get() of the thread finds: it sits in a slot that get reads
        if not any(same_slot(where_, rs) for rs in read_slots):
            rec[2] = rec[2] or (gr, leaf, lat, "a new stack that it keeps in the slot `%s.%s`, where it never looks again (it reads %s): the next get() in the same "
                                               "thread makes another one, and the frames pushed on this one are lost to the sub-calls" %
                                (where_[0], where_[1], ", ".join(sorted("%s.%s" % rs for rs in read_slots)) or "no slot"))
    for (r, seen_any, bad) in verdicts.values():
        ok = seen_any and bad is None
        ck.ob(R7, g.key(r, "get-returns-own-stack"), ok, "CallStack.get hands out the content of the running thread's slot" if ok else
              "CallStack.get hands out %s: the frame a finished sub-call is recorded in is then not necessarily the frame of the call whose body made it" %
              ((bad[3] or home.describe(bad[0], bad[1], bad[2])) if bad else "nothing"), g.where(r))

    # ---- (a, continued) the slots get reads are given nothing but a stack created on the spot, the stack handed to swap, what
    # was there before, or nothing; and a stack created for a slot goes into a slot that get reads
    for (fa, st, h, slot, what) in stores:
        if not per_thread(h):
            continue   # judged where it is read, (b)
        is_read = any(same_slot((h, slot), rs) for rs in read_slots)
        makes = [x for x in what if x[2] in ("fresh", "swapped")]
        if not is_read and not makes:
            continue   # some other per-thread state
        bad = [x for x in what if x[2] == "other"]
        if is_read:
            ok = not bad
            ck.ob(R7, fa.key(st, "stored-stack-is-own"), ok, "what goes into the thread's slot is a stack created on the spot (or handed to swap)" if ok else
                  "the slot `%s.%s`, from which CallStack.get takes the running thread's stack, is given %s: every thread that passes here works on that one "
                  "stack, so a call is recorded as an invocation of whatever call is on top in another thread" % (h, slot, home.describe(fa, bad[0][0], bad[0][1])), fa.where(st))
        else:
            ck.ob(R7, fa.key(st, "stack-stored-where-get-reads"), False, "the new stack is put into the slot `%s.%s`, which CallStack.get does not read (it hands out %s): "
                  "the thread's stack is not the one its calls push their frames on" % (h, slot, ", ".join(sorted("%s.%s" % rs for rs in read_slots)) or "no slot"), fa.where(st))

    # ---- (c) there is such a slot at all
    ok = bool(tl) and bool(read_slots)
    ck.ob(R7, "call_stack::stack-lives-in-thread-local", ok, "the call stack is kept in a threading.local() object (%s)" % ", ".join(tl) if ok else
          "the stack that CallStack.get() hands out is not kept in a threading.local() object, hence not private to the running thread" +
          ("".join("; `%s` is a context variable, whose value (one mutable stack) is shared by reference with every copied context" % n
                   for n, k in sorted(home.kinds.items()) if k[0] == "context-var")), home.mod.relpath)

    # ---- (d) a thread-local subclass must not carry the stack as a class attribute (shared by all threads)
    for n, k in sorted(home.kinds.items()):
        ci = k[1]
        if k[0] != "thread-local" or ci is None:
            continue
        for st in ci.node.body:
            if isinstance(st, (ast.Assign, ast.AnnAssign)) and getattr(st, "value", None) is not None:
                tg = st.targets if isinstance(st, ast.Assign) else [st.target]
                if not any(isinstance(t, ast.Name) and any(t.id == rs[1] for rs in read_slots) for t in tg) or A.is_none(st.value):
                    continue
                ck.ob(R7, ci.qual + "::" + A.head(st, 60) + "::class-level-stack", False,
                      "the slot CallStack.get reads is a class attribute of the thread-local class %s: class attributes are shared by all threads" % ci.name, A.loc(ci, st))


def _fresh_reaches_slot(home, fa, call):
    """A new stack bound to a local first: every way on from there to the function's exit stores that very local into a slot of
    a thread-local holder -> that slot, or None."""
    st = fa.stmt_of(call)
    if not isinstance(st, ast.Assign) or st.value is not call:
        return None
    names = [t.id for t in st.targets if isinstance(t, ast.Name)]
    for nm in names:
        stores, dest = [], None
        for (s2, h, slot, v) in home.slot_stores(fa):
            if not (isinstance(v, ast.Name) and v.id == nm) or (h != "<self>" and home.kinds[h][0] != "thread-local"):
                continue
            if all(len(fa.df.reaching(i, nm)) == 1 and fa.df.reaching(i, nm)[0].node in fa.nodes(st) for i in fa.nodes(s2)):
                stores.append(s2)
                dest = dest or (h, slot)
        sn = fa.nodes_all(stores)
        if stores and all(fa.cfg.exit not in fa.cfg.reach([i], removed=sn, include_start=False) for i in fa.nodes(st)):
            return dest
    return None


def check(ck):
    from .memo import check_new_memo_tables
    ck.run(check_new_memo_tables, ck, "C10.M1", ('runner_local', 'call_stack', 'resource_function', 'serialization', 'metadata'))
    R1, R2, R3, R4, R5 = ("C10.R%d" % i for i in range(1, 6))
    ck.rule(R1, "propagation on every result path: each loop iteration of the local batch runner either propagates the "
                "served memento into the calling frame or runs memento_run_local; memento_run_local pops and then "
                "propagates stack_frame.memento on every exit; a served memento replaces the frame's memento first, and only "
                "on a path that does not go on to run the body; an iteration that propagated does not record the element again", 8)
    ck.rule(R2, "push/pop typestate: the push is protected by the try whose finally pops; no exit without pop", 2)
    ck.rule(R3, "propagate_dependencies appends the callee invocation, adds the callee reference and merges its dependency set", 3)
    ck.rule(R4, "a new frame's memento lists itself as dependency and starts with fresh invocation/resource lists", 3)
    ck.rule(R5, "resource functions append the handle to the calling frame on every path that returns it", 1)
    ck.run(_r1_batch, ck, R1)
    ck.run(_r1_run_local, ck, R1)
    ck.run(_r2, ck, R2)
    ck.run(_r3, ck, R3)
    ck.run(_r4, ck, R4)
    ck.run(_r5, ck, R5)
    # ---- R6: the batch entry point submits one call per requested element, in order, and the
    # recorded invocations are decoded one by one
    ck.rule("C10.R6", "call_batch dispatches exactly the list of references it built (one per element, duplicates included); "
                      "stored invocation lists are decoded element by element from their own state", 3)
    ck.run(_r6, ck, "C10.R6")
    from .c11 import check_decoders_pure
    ck.run(check_decoders_pure, ck, "C10.R6")
    # ---- R7: the caller's frame is found on a stack that only the running thread's calls push on
    ck.rule("C10.R7", "the stack CallStack.get hands out is the content of a slot of a threading.local() object, and what is put into "
                      "that slot is a stack created on the spot (or handed to swap): no call chain running at the same time pushes on it", 3)
    ck.run(_r7, ck, "C10.R7")
