"""C10 — provenance is exact and independent of what was already memoized (structural part).

Decides: propagation on every result path (R1); push/pop typestate (R2); what propagation writes
(R3); the frame's own reference seeds the dependency set (R4); resource handles are appended (R5).
"""
import ast

from .. import astutil as A
from ..fa import FA

RL = "runner_local"


def _calls(fa, name):
    return fa.calls(name)


def _passes_unless_member(pd, adds):
    """Every path to the exit performs the add, except paths on which a test established that the
    element is already a member (adding would be a no-op)."""
    elems = {A.norm(c.args[0]) for c in adds if c.args}
    member_tests = [n.id for n in pd.cfg.nodes if n.kind == "test" and isinstance(n.ast, ast.Compare) and len(n.ast.ops) == 1
                    and isinstance(n.ast.ops[0], ast.In) and A.norm(n.ast.left) in elems]
    r = pd.cfg.reach([pd.cfg.entry], removed=pd.nodes_all(adds), edge_ok=lambda s, d, l: not (s in member_tests and l == "T"))
    return pd.cfg.exit not in r


def check(ck):
    from .memo import check_new_memo_tables
    ck.run(check_new_memo_tables, ck, "C10.M1", ('runner_local', 'call_stack', 'resource_function', 'serialization', 'metadata'))
    R1, R2, R3, R4, R5 = ("C10.R%d" % i for i in range(1, 6))
    ck.rule(R1, "propagation on every result path: each loop iteration of the local batch runner either propagates the "
                "served memento into the calling frame or runs memento_run_local; memento_run_local pops and then "
                "propagates stack_frame.memento on every exit; a served memento replaces the frame's memento first", 6)
    ck.rule(R2, "push/pop typestate: the push is protected by the try whose finally pops; no exit without pop", 2)
    ck.rule(R3, "propagate_dependencies appends the callee invocation, adds the callee reference and merges its dependency set", 3)
    ck.rule(R4, "a new frame's memento lists itself as dependency and starts with fresh invocation/resource lists", 3)
    ck.rule(R5, "resource functions append the handle to the calling frame on every path that returns it", 1)

    # ---- R1 (batch_run)
    br = FA(ck, RL + ".LocalRunnerBackend.batch_run")
    loops = [n for n in br.cfg.nodes if n.kind == "for" and "enumerate" in A.norm(n.ast.iter)]
    loop = br.one(loops, "element loop (for idx, f in enumerate(...))")
    props = br.calls("propagate_dependencies")
    runs = br.calls("memento_run_local")
    def _is_frame_test(fa_, n_):
        t_ = fa_.xnorm(n_.ast, n_.id)
        return t_.endswith(("get_calling_frame()", "get_calling_frame() is not None")) and t_.startswith("CallStack.get()")

    def _is_frame_memento(fa_, e_, at_):
        return isinstance(e_, ast.Attribute) and e_.attr == "memento" and fa_.xnorm(e_.value, at_) == "CallStack.get().get_calling_frame()"

    no_caller = [n.id for n in br.cfg.nodes if n.kind == "test" and _is_frame_test(br, n)]
    removed = set(br.nodes_all(props)) | set(br.nodes_all(runs))
    def edge_ok(s, d, l):
        return not (s in no_caller and l == "F")
    starts = [d for (d, l) in br.cfg.succ[loop.id] if l == "T"]
    live = br.cfg.reach(starts, removed=removed, edge_ok=edge_ok)
    ok = loop.id not in live
    ck.paths_enumerated += 1
    ck.ob(R1, br.key(loop.ast, "iteration-propagates"), ok,
          "every iteration propagates provenance (served hit) or runs memento_run_local" if ok else
          "an iteration can finish without recording the sub-call in the calling frame: provenance depends on what was memoized "
          "(witness %s)" % br.cfg.describe_path(br.cfg.path(starts[0], loop.id, removed, edge_ok) or []), br.where(loop.ast))
    for c in props:
        cm = A.kwarg(c, "caller_memento") or (c.args[0] if c.args else None)
        rm = A.kwarg(c, "result_memento") or (c.args[1] if len(c.args) > 1 else None)
        okc = cm is not None and _is_frame_memento(br, cm, br.nodes(c)[0]) and "call:get_calling_frame" in br.deps(cm)
        okr = rm is not None and "attr:existing_mementos" not in set() and ("op:subscript" in br.deps(rm)) and any(
            d.startswith("call:get_mementos") for d in br.deps(rm))
        ck.ob(R1, br.key(c, "args"), okc and okr, "propagates the stored memento into the calling frame's memento" if okc and okr else
              "batch pre-check propagates the wrong mementos (caller=%s, result=%s)" % (A.norm(cm), A.norm(rm)), br.where(c))
    # ---- R1 (memento_run_local)
    rl = FA(ck, RL + ".memento_run_local")
    pushes = rl.some(rl.calls("push_frame"), "push_frame call")
    pops = rl.some(rl.calls("pop_frame"), "pop_frame call")
    props2 = rl.calls("propagate_dependencies")
    push_nodes = rl.nodes_all(pushes)
    pop_nodes = rl.nodes_all(pops)
    prop_nodes = rl.nodes_all(props2)
    nc = [n.id for n in rl.cfg.nodes if n.kind == "test" and _is_frame_test(rl, n)]
    sfc = rl.calls("StackFrame")
    sfs = rl.stmt_of(sfc[0]) if len(sfc) == 1 else None
    SF = sfs.targets[0].id if isinstance(sfs, ast.Assign) and isinstance(sfs.targets[0], ast.Name) and sfs.value is sfc[0] else None
    ck.need(SF is not None, "memento_run_local: the invocation's StackFrame is not bound to a local")
    exits = [rl.cfg.exit, rl.cfg.raise_exit]
    bad = None
    for p in push_nodes:
        r = rl.cfg.reach([p], removed=prop_nodes, edge_ok=lambda s, d, l: not (s in nc and l == "F"), include_start=False)
        if set(exits) & r:
            bad = p
    ck.paths_enumerated += len(push_nodes)
    ck.ob(R1, rl.key(None, "exit-propagates"), bad is None and bool(props2),
          "every exit after the push propagates stack_frame.memento to the caller (if any)" if bad is None and props2 else
          "memento_run_local can exit without propagating its memento to the calling frame", rl.where())
    for c in props2:
        cm = A.kwarg(c, "caller_memento") or (c.args[0] if c.args else None)
        rm = A.kwarg(c, "result_memento") or (c.args[1] if len(c.args) > 1 else None)
        okc = cm is not None and _is_frame_memento(rl, cm, rl.nodes(c)[0]) and A.norm(rm) == SF + ".memento"
        # pop precedes the caller lookup
        okp = all(rl.cfg.must_pass(pop_nodes, i) for i in rl.nodes(c))
        gl = [x for x in rl.calls("get_calling_frame")]
        okg = all(rl.cfg.must_pass(pop_nodes, i) for x in gl for i in rl.nodes(x) if rl.fa_inside_finally(x)) if hasattr(rl, "fa_inside_finally") else True
        ck.ob(R1, rl.key(c, "args"), okc and okp, "after the pop, stack_frame.memento is propagated into the new top frame" if okc and okp else
              "propagation in memento_run_local does not pass (calling_frame.memento, stack_frame.memento) after the pop", rl.where(c))
    # caller lookup in the finally happens after the pop
    for st in rl.stmts(ast.Try):
        for s in st.finalbody:
            for n in A.walk_local(s):
                if isinstance(n, ast.Call) and A.call_attr(n) == "get_calling_frame":
                    okq = all(rl.cfg.must_pass(pop_nodes, i) for i in rl.nodes(n))
                    ck.ob(R1, rl.key(n, "lookup-after-pop"), okq, "the caller is looked up after the own frame was popped" if okq else
                          "the calling frame is looked up before the own frame is popped: the function would propagate into itself", rl.where(n))
    # served path: frame's memento replaced by the stored memento before returning
    served = [r for r in rl.returns() if r.value is not None and "call:process_existing_memento" in rl.deps(r.value)]
    for r in served:
        asg = [s for s in rl.stmts(ast.Assign) if any(A.dotted(t) == SF + ".memento" for t in s.targets)
               and rl.xnorm(s.value).startswith("storage_backend.get_memento(")]
        oks = bool(asg) and all(rl.cfg.must_pass(rl.nodes_all(asg), i) for i in rl.nodes(r))
        ck.ob(R1, rl.key(None, "served-memento-replaces"), oks, "the stored memento (with its stored dependency set) is what propagates" if oks else
              "a served result propagates the fresh, empty frame memento instead of the stored one: transitive dependencies are lost", rl.where(r))
    ck.need(served, "memento_run_local: no 'served from store' return found")

    # ---- R2
    okt = True
    why = ""
    for pc in pushes:
        trys = [t for t in rl.stmts(ast.Try) if t.finalbody and any(rl.inside(pc, b) for b in t.body)]
        has_pop = any(any(isinstance(n, ast.Call) and A.call_attr(n) == "pop_frame" for s in t.finalbody for n in A.walk_local(s)) for t in trys)
        if not has_pop:
            okt = False
            why = "push_frame is not inside the try whose finally pops"
    ck.ob(R2, rl.key(None, "push-in-try"), okt, "push is protected by try/finally-pop" if okt else why, rl.where(pushes[0]))
    leak = None
    for p in push_nodes:
        r = rl.cfg.reach([p], removed=pop_nodes, include_start=False)
        if set(exits) & r:
            leak = p
    # no pop without push
    unp = [i for i in pop_nodes if not rl.cfg.must_pass(push_nodes, i)]
    ck.ob(R2, rl.key(None, "balanced"), leak is None and not unp,
          "every path after the push pops exactly the pushed frame; no pop without push" if leak is None and not unp else
          ("a path leaves memento_run_local with the frame still on the stack" if leak is not None else
           "a pop can execute on a path that never pushed"), rl.where())
    sf = [c for c in rl.calls("StackFrame")]
    oksf = len(sf) == 1 and [A.norm(a) for a in sf[0].args][:1] == ["fn_reference_with_args"] and \
        all(A.norm(p.args[0]) == SF for p in pushes if p.args)
    ck.ob(R2, rl.key(None, "frame-identity"), oksf, "the pushed frame is the frame of this invocation" if oksf else
          "the pushed frame is not the StackFrame built for this invocation", rl.where())

    # ---- R3
    pd = FA(ck, RL + ".propagate_dependencies")
    app = [c for c in pd.calls("append") if "invocations" in A.norm(A.call_recv(c)) and "caller_memento" in A.norm(A.call_recv(c))]
    ok1 = bool(app) and all("attr:result_memento.invocation_metadata.fn_reference_with_args" in pd.deps(c.args[0]) for c in app) \
        and pd.cfg.must_pass(pd.nodes_all(app), pd.cfg.exit)
    ck.ob(R3, pd.key(None, "appends-invocation"), ok1, "the callee's reference-with-arguments is appended to the caller's invocations" if ok1 else
          "propagate_dependencies does not append the callee invocation to the caller's invocation list", pd.where())
    adds = [c for c in pd.calls("add") if "attr:caller_memento.function_dependencies" in pd.deps(A.call_recv(c))]
    ok2 = bool(adds) and all("attr:result_memento.invocation_metadata.fn_reference_with_args.fn_reference" in pd.deps(c.args[0]) for c in adds) \
        and _passes_unless_member(pd, adds)
    ck.ob(R3, pd.key(None, "adds-callee"), ok2, "the callee's function reference joins the caller's dependency set" if ok2 else
          "propagate_dependencies does not add the callee's function reference to the caller's dependencies", pd.where())
    merges = [s for s in pd.stmts(ast.AugAssign) if isinstance(s.op, ast.BitOr) and "attr:caller_memento.function_dependencies" in pd.deps(s.target)
              and "attr:result_memento.function_dependencies" in pd.deps(s.value)]
    merges += [c for c in pd.calls("update") if "attr:caller_memento.function_dependencies" in pd.deps(A.call_recv(c))
               and c.args and "attr:result_memento.function_dependencies" in pd.deps(c.args[0])]
    okm = bool(merges) and pd.cfg.must_pass(pd.nodes_all(merges), pd.cfg.exit)
    ck.ob(R3, pd.key(None, "merges-transitive"), okm, "the callee's transitive dependencies are merged into the caller's on every path" if okm else
          "propagate_dependencies can return without merging the callee's dependency set (early return / missing union): when the same function is "
          "called twice with arguments that reach different functions, or recursively, transitive dependencies are lost", pd.where())

    # ---- R4
    sfi = FA(ck, "call_stack.StackFrame.__init__")
    mc = sfi.one(sfi.calls("Memento"), "Memento(...) construction")
    fd = A.kwarg(mc, "function_dependencies")
    ok4 = isinstance(fd, ast.Set) and len(fd.elts) == 1 and A.norm(fd.elts[0]) == "fn_reference_with_args.fn_reference"
    ck.ob(R4, sfi.key(None, "self-in-deps"), ok4, "the dependency set starts as {own function reference}" if ok4 else
          "a new frame's dependency set does not start as {its own function reference} (%s)" % A.norm(fd), sfi.where(mc))
    im = sfi.one(sfi.calls("InvocationMetadata"), "InvocationMetadata(...) construction")
    inv, res, fr = A.kwarg(im, "invocations"), A.kwarg(im, "resources"), A.kwarg(im, "fn_reference_with_args")
    ok5 = isinstance(inv, ast.List) and not inv.elts and isinstance(res, ast.List) and not res.elts
    ck.ob(R4, sfi.key(None, "fresh-lists"), ok5, "invocations and resources start as fresh empty lists" if ok5 else
          "a new frame does not start with fresh empty invocation/resource lists", sfi.where(im))
    ok6 = fr is not None and A.norm(fr) == "fn_reference_with_args"
    ck.ob(R4, sfi.key(None, "own-reference"), ok6, "the memento records the invocation's own reference" if ok6 else
          "the frame memento does not record the invocation's own reference", sfi.where(im))

    # ---- R5
    rf = FA(ck, "resource_function.ResourceFunction.__call__")
    apps = [c for c in rf.calls("append") if "resources" in A.norm(A.call_recv(c))]
    FRAME_X = ("CallStack.get().get_calling_frame()", "CallStack.get().get_calling_frame() is not None")
    tests = [n.id for n in rf.cfg.nodes if n.kind == "test" and rf.xnorm(n.ast, n.id) in FRAME_X]
    rets = [r for r in rf.returns() if r.value is not None]
    okr = bool(apps) and all(c.args and rf.xnorm(c.args[0]) == rf.xnorm(rets[0].value) for c in apps) if rets else False
    if okr:
        an = rf.nodes_all(apps)
        live = rf.cfg.reach([rf.cfg.entry], removed=an, edge_ok=lambda s, d, l: not (s in tests and l == "F"))
        okr = not (set(rf.nodes_all(rets)) & live) and "call:get_calling_frame" in rf.deps(A.call_recv(apps[0]))
    ck.ob(R5, rf.key(None, "appends-handle"), okr, "the returned handle is appended to the calling frame's resources" if okr else
          "a resource handle can be returned without being recorded in the calling frame's memento", rf.where())
    # ---- R6: the batch entry point submits one call per requested element, in order, and the
    # recorded invocations are decoded one by one
    ck.rule("C10.R6", "call_batch dispatches exactly the list of references it built (one per element, duplicates included); "
                      "stored invocation lists are decoded element by element from their own state", 3)
    cb = FA(ck, "base.MementoFunctionBase.call_batch")
    fns = [s_ for s_ in cb.stmts(ast.Assign) if isinstance(s_.value, ast.ListComp) and A.norm(s_.value.generators[0].iter) == "kwargs_list"]
    run = cb.calls("memento_run_batch")
    ok = len(fns) == 1 and len(run) == 1 and isinstance(fns[0].targets[0], ast.Name)
    if ok:
        arg = A.kwarg(run[0], "fn_reference_with_args")
        nm = fns[0].targets[0].id
        ok = isinstance(arg, ast.Name) and arg.id == nm and all(len(cb.df.reaching(i, nm)) == 1 for i in cb.nodes(run[0])) and not fns[0].value.generators[0].ifs
    ck.ob("C10.R6", cb.key(None, "dispatches-all-elements"), ok, "every requested element is submitted, duplicates included" if ok else
          "call_batch does not submit exactly the reference list it built from kwargs_list (deduplicated / filtered / re-ordered): a body that "
          "batches [a, b, a] gets two invocations recorded instead of three", cb.where())
    from .c11 import check_decoders_pure
    ck.run(check_decoders_pure, ck, "C10.R6")
